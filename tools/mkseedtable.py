#!/usr/bin/env python3
"""Print the markdown table of seeded changes from seeded/*/meta.json (+ seeded/history.json for first-attempt misses)."""
import glob
import json
import os

hist = {}
hp = "/verif/seeded/history.json"
if os.path.exists(hp):
    hist = json.load(open(hp))
print("| id | seeded change (needs) | confirmed | caught by | verdicts | first attempt |")
print("|---|---|---|---|---|---|")
for d in sorted(glob.glob("/verif/seeded/C*/meta.json")):
    m = json.load(open(d))
    sid = os.path.basename(os.path.dirname(d))
    det = m.get("detection", [])
    caught = ", ".join(x["check"] + " " + x["tier"] for x in det if x["detected"]) or "MISSED"
    verd = "; ".join("%s x%d" % (k, v) for x in det for k, v in x["verdicts"].items())
    conf = m.get("confirmation", {}).get("confirmed")
    summ = (m.get("summary") or "").replace("\n", " ").replace("|", "/")
    needs = (m.get("needs") or "").replace("\n", " ").replace("|", "/")
    if len(summ) > 260:
        summ = summ[:257] + "..."
    if len(needs) > 200:
        needs = needs[:197] + "..."
    print("| %s | %s (needs: %s) | %s | %s | %s | %s |" % (sid, summ, needs, {True: "yes", False: "NO", None: "pending"}[conf], caught, verd, hist.get(sid, "caught")))
