#!/usr/bin/env python3
"""Regenerate /verif/MANIFEST.json from checks/registry.py and validate it."""
import json
import os
import subprocess
import sys

VERIF = os.path.dirname(os.path.dirname(os.path.abspath(__file__)))
sys.path.insert(0, VERIF)
sys.path.insert(0, os.path.join(VERIF, "lib"))
from checks import registry  # noqa: E402

CHECKS = registry.collect()
props = [json.loads(l)["id"] for l in open(os.path.join(VERIF, "properties.jsonl"))]
hooks_commits = []
hc = os.path.join(VERIF, "hooks-commits.txt")
if os.path.exists(hc):
    hooks_commits = [l.split()[0] for l in open(hc) if l.strip() and not l.startswith("#")]

checks = []
for pid in props:
    c = CHECKS.get(pid)
    if not c or not os.path.exists(os.path.join(VERIF, "checks", pid.lower() + ".py")):
        continue
    checks.append({
        "property_id": pid,
        "quick_cmd": "bin/check %s --tier quick" % pid,
        "thorough_cmd": "bin/check %s --tier thorough" % pid,
        "evidence_file": "/verif/evidence/%s.json" % pid,
        "replay_cmd_template": "bin/check %s --replay {path}" % pid,
        "engine": c["engine"],
        "level_claimed": {"category": c["category"], "text": c["text"], "design_ref": "DESIGN.md " + c["design"]},
        "level_note": c["note"],
        "technique": c["technique"],
    })
claimed = {c["property_id"] for c in checks}
na = [{"property_id": p, "reason": registry.NOT_APPLICABLE.get(p, registry.DEFAULT_NA)} for p in props if p not in claimed]
engines = {}
for c in checks:
    engines.setdefault(c["engine"], []).append(c["property_id"])
m = {
    "version": 1,
    "setup_cmd": "cd /verif/harness && cp -n /repo/Cargo.lock Cargo.lock; cargo build --offline -p jjconf -p jjcli",
    "hooks": {
        "guard": "--cfg jj_vcs_jj_verif",
        "enable": "harness/.cargo/config.toml sets rustflags = [\"--cfg\", \"jj_vcs_jj_verif\"]; every check runs `cargo build --offline` in /verif/harness (path dependencies on /repo/lib, /repo/cli) before it does anything else",
        "baseline_off_cmd": "cd /repo && cargo nextest run --workspace --no-fail-fast --tool-config-file pb:/w/lib/nextest.toml --profile pb --test-threads 8 --offline",
        "source_commits": hooks_commits,
        "add_only": True,
    },
    "engines": [{"name": k, "path": "spec/%s.tla" % k, "serves_properties": v,
                 "kind_free_text": "TLA+ module checked by TLC; bound to the code by harness/jjconf (trace validation / behaviour replay)"}
                for k, v in sorted(engines.items())],
    "checks": checks,
    "notes": "One TLA+ specification suite under spec/ (DESIGN.md: sections 1-8 design, 9 as built, 10 seeded changes); bin/check <id> builds the harness from /repo's working tree with the hooks on, runs TLC on the model (with negative configs that must fail), binds model and code (TLC-generated behaviours replayed into the real code and/or recorded traces judged by TLC), writes evidence/<id>.json. Exit 2 = tool trouble, never a violation. known-findings.txt lists genuine defects recorded (finding:, suppressed by structural signature only) and repaired (fixed:, four fix: commits in /repo: 5aeeccb C21, 7486fd4 C17, 032bffc C44, 5fb9b72 C38). seeded/ holds 29 confirmed seeded changes with which checks catch them.",
    "not_applicable": na,
}
out = os.path.join(VERIF, "MANIFEST.json")
json.dump(m, open(out, "w"), indent=1)
try:
    subprocess.run(["python3-vt", "-c", """
import json, jsonschema, sys
jsonschema.validate(json.load(open(sys.argv[1])), json.load(open('/root/.vp/MANIFEST.schema.json')))
print('MANIFEST.json valid:', sys.argv[2], 'checks')
""", out, str(len(checks))], check=True)
except FileNotFoundError:
    print("python3-vt not found; not validated")
