#!/usr/bin/env python3
"""Print the prompt for a seeded-change sub-agent: only the property text and its worktree."""
import json
import sys

pid = sys.argv[1]
wt = "/tmp/mutw/" + pid
p = next(json.loads(l) for l in open("/verif/properties.jsonl") if json.loads(l)["id"] == pid)
print(f"""You are testing how well a verification effort can detect regressions in jj (Jujutsu), a Git-compatible version control system written in Rust. You have your own scratch git worktree of the jj repository at {wt} (work ONLY there; never read or write /repo or /verif). The machine is offline: use `cargo ... --offline`; set CARGO_TARGET_DIR={wt}/target for every cargo command. The machine is shared and busy: build only what you need (e.g. `cargo test --offline -p jj-lib --lib <filter>`, `cargo test --offline -p jj-lib --test runner <filter>`, `cargo test --offline -p jj-cli --lib <filter>`), wrap long commands in `timeout`, and use at most 6 build jobs (`-j 6`).

This semantic property of jj is supposed to hold:

  {p['id']} - {p['title']}
  {p['statement']}
  (Quantified over: {p['quantifier']['text']})
  Code it is anchored in: {', '.join(p['anchors']['files'])}

Your task: write a REALISTIC change to jj's source (a small patch, the kind of mistake or well-meant refactor/optimisation a developer could plausibly make) that BREAKS this property, while jj still compiles and the existing test suite still passes. The breakage must need something specific to manifest - a particular interleaving, a crash or fault at a particular point, a multi-step sequence of operations, an unusual input, or two cooperating sites that each look fine alone - not something ordinary use or the existing tests would expose at once. Do not edit or delete existing tests; do not add `cfg(test)` tricks; the patch must only touch non-test source files of jj (lib/, cli/, core/).

Then write a DEMONSTRATION: a new test (e.g. a new `#[test]` in a NEW file under lib/tests/ or a small standalone program/test module) that FAILS with your change applied and PASSES without it, showing the property violated through jj's public API or CLI.

Steps:
1. Read the anchored code; understand what makes the property hold.
2. Design the change; apply it in the worktree.
3. Make sure it compiles and that the existing tests closest to your change still pass with it: run the unit tests of the module(s) you touched and the one or two integration test files that exercise them, ALWAYS with a test-name filter (e.g. `cargo test --offline -j 6 -p jj-lib --test runner test_merged_tree`). Do NOT run a whole test binary unfiltered and do not build jj-cli's tests unless your change is in cli/: the complete suite is run afterwards by someone else, and the machine is shared. Think hard instead about which existing tests could notice your change, and read them. Say exactly what you ran. Known environment failures you can ignore (they fail identically on the unmodified tree): `test_git::test_fetch_*`, `test_git::test_push_deleted_tags` and most jj-cli git fetch/push/clone tests (the system git 2.39 lacks `fetch --porcelain`), the two gpgsm signing tests, and `test_local_working_copy::test_check_out_existing_file_cannot_be_removed` (runs as root).
4. Write the demonstration and show it fails with the change and passes without (`git stash` / `git apply -R`).
5. Leave these files in {wt}-out/ (create the directory): `patch.diff` (output of `git diff` for the source change ONLY, applicable with `git apply` at the repository root), `demo.diff` (the added demonstration test as a patch, or `demo/` with a standalone program plus README on how to run it), and `meta.json` with keys: property (the id), summary (what the change does), needs (what it needs in order to manifest), tests_run (commands you ran and their outcome), demo_cmd (exact command that runs the demonstration from the worktree root).
6. Restore the worktree to a clean state at the end (`git checkout -- . && git clean -fd` but keep {wt}-out/ which is outside it). Delete {wt}/target when done to free disk.

Reply with a short report: the idea of the change, why existing tests do not catch it, what the demonstration shows.""")
