#!/usr/bin/env python3
"""Validate evidence/*.json against the evidence schema (run with python3-vt)."""
import glob
import json
import sys

import jsonschema

schema = json.load(open("/root/.vp/EVIDENCE.schema.json"))
bad = 0
for p in sorted(glob.glob("/verif/evidence/*.json")):
    try:
        jsonschema.validate(json.load(open(p)), schema)
    except Exception as e:  # noqa: BLE001
        bad += 1
        print("INVALID", p, str(e)[:300])
print("evidence files checked:", len(glob.glob("/verif/evidence/*.json")), "invalid:", bad)
sys.exit(1 if bad else 0)
