#!/bin/bash
# Run a check against a seeded change WITHOUT touching /repo:
#   mutrun.sh <ID> <check-id> [tier]      patch = /tmp/mutw/<ID>-out/patch.diff (or /verif/seeded/<ID>/patch.diff)
# Uses the scratch copy /tmp/mut/{repo,harness} (own target dir) and writes evidence/replay under /tmp/mut/out.
set -e
ID=$1; CHK=$2; TIER=${3:-quick}
P=/tmp/mutw/$ID-out/patch.diff; [ -f "$P" ] || P=/verif/seeded/$ID/patch.diff
mkdir -p /tmp/mut/out
rsync -a --delete --exclude target --exclude .git /repo/ /tmp/mut/repo/
rsync -a --exclude target /verif/harness/ /tmp/mut/harness/
sed -i 's|/repo/|/tmp/mut/repo/|g' /tmp/mut/harness/jjconf/Cargo.toml /tmp/mut/harness/jjcli/Cargo.toml
(cd /tmp/mut/repo && patch -p1 -s < "$P")
cd /verif
VERIF_HARNESS=/tmp/mut/harness VERIF_OUT_DIR=/tmp/mut/out timeout 5400 bin/check $CHK --tier $TIER
