#!/usr/bin/env python3
import subprocess
p = "/verif/DESIGN.md"
s = open(p).read()
t = subprocess.check_output(["/verif/tools/mkseedtable.py"]).decode()
a, b = s.index("<!-- SEEDTABLE BEGIN -->"), s.index("<!-- SEEDTABLE END -->")
s = s[:a] + "<!-- SEEDTABLE BEGIN -->\n" + t + s[b:]
open(p, "w").write(s)
print("table rows:", t.count("\n") - 2)
