#!/usr/bin/env python3
"""Confirm a seeded change produced by a sub-agent, in the scratch worktree /tmp/confirm:
   1. patch applies, jj compiles, every test of the pinned baseline (BASELINE.json stable_pass) still passes with it
   2. the demonstration FAILS with the patch and PASSES without it
usage: seed_confirm.py <ID> [--skip-suite]     (reads /tmp/mutw/<ID>-out/{patch.diff,demo.diff|demo/,meta.json})
Prints a JSON summary; exit 0 iff confirmed."""
import json
import os
import subprocess
import sys
import xml.etree.ElementTree as ET

ID = sys.argv[1]
SKIP = "--skip-suite" in sys.argv
OUT = "/tmp/mutw/%s-out" % ID
WT = "/tmp/confirm"
ENV = dict(os.environ, CARGO_TARGET_DIR=WT + "/target", CARGO_NET_OFFLINE="true")


def sh(cmd, timeout=7200, cwd=WT):
    p = subprocess.run(cmd, shell=True, cwd=cwd, env=ENV, stdout=subprocess.PIPE, stderr=subprocess.STDOUT, text=True, timeout=timeout)
    return p.returncode, p.stdout


def clean():
    sh("git checkout -q -- . && git clean -fdq -e target")


res = {"id": ID}
meta = json.load(open(OUT + "/meta.json"))
clean()
rc, out = sh("git apply %s/patch.diff" % OUT)
if rc != 0:
    print(json.dumps({"id": ID, "error": "patch does not apply", "out": out[-500:]}))
    sys.exit(2)
ONLY = [a.split("=", 1)[1] for a in sys.argv if a.startswith("--only=")]
if ONLY:
    rc, out = sh("cargo nextest run --workspace --no-fail-fast --offline " + " ".join("-E 'test(%s)'" % t for t in ONLY))
    res["only_tests"] = ONLY
    res["only_rc"] = rc
    res["only_tail"] = out[-400:]
elif not SKIP:
    rc, out = sh("cargo nextest run --workspace --no-fail-fast --tool-config-file pb:/w/lib/nextest.toml --profile pb --test-threads 8 --offline")
    res["suite_rc"] = rc
    junit = WT + "/target/nextest/pb/junit.xml"
    passed, failed = set(), set()
    if os.path.exists(junit):
        for tc in ET.parse(junit).getroot().iter("testcase"):
            tid = (tc.get("classname") or "") + "::" + (tc.get("name") or "")
            if tc.find("failure") is not None or tc.find("error") is not None:
                failed.add(tid)
            else:
                passed.add(tid)
    stable = set(json.load(open("/root/.vp/BASELINE.json"))["stable_pass"])
    broken = sorted(stable - passed)
    res["baseline_tests"] = len(stable)
    res["baseline_broken_by_patch"] = broken[:20]
    res["compiles"] = "error: could not compile" not in out and "error[E" not in out
else:
    res["suite"] = "skipped"
# demonstration with the patch
if os.path.exists(OUT + "/demo.diff"):
    rc, out = sh("git apply %s/demo.diff" % OUT)
    if rc != 0:
        res["error"] = "demo.diff does not apply: " + out[-300:]
import re
demo = meta["demo_cmd"]
demo = re.sub(r"git apply \S*demo\.diff\s*&&\s*", "", demo)          # demo.diff is applied above
demo = re.sub(r"/tmp/mutw/%s(?!-out)" % ID, WT, demo)
import shlex
rc1, out1 = sh("timeout 3000 bash -c " + shlex.quote(demo))
res["demo_with_patch_rc"] = rc1
rc, out = sh("git apply -R %s/patch.diff" % OUT)
rc2, out2 = sh("timeout 3000 bash -c " + shlex.quote(demo))
res["demo_without_patch_rc"] = rc2
res["demo_tail_with_patch"] = out1[-600:]
clean()
ok = rc1 != 0 and rc2 == 0 and (SKIP or bool(ONLY) or (res.get("compiles") and not res["baseline_broken_by_patch"]))
res["confirmed"] = bool(ok)
print(json.dumps(res, indent=1))
sys.exit(0 if ok else 1)
