#!/usr/bin/env python3
"""Assemble /verif/seeded/<ID>/ from the sub-agent's output, my confirmation and the check runs.
usage: seed_keep.py <ID> [<CHECK>...]   (reads /tmp/mutw/<ID>-out, /tmp/confirm_<ID>.json, /tmp/mutrun_<ID>_<CHECK>.log)"""
import glob
import json
import os
import re
import shutil
import sys

ID = sys.argv[1]
checks = sys.argv[2:] or [ID]
src = "/tmp/mutw/%s-out" % ID
dst = "/verif/seeded/%s" % ID
os.makedirs(dst, exist_ok=True)
for f in ("patch.diff", "demo.diff"):
    if os.path.exists(os.path.join(src, f)):
        shutil.copy(os.path.join(src, f), dst)
if os.path.isdir(os.path.join(src, "demo")):
    shutil.copytree(os.path.join(src, "demo"), os.path.join(dst, "demo"), dirs_exist_ok=True)
meta = json.load(open(os.path.join(src, "meta.json")))
out = {"property": meta.get("property", ID), "summary": meta.get("summary"), "needs": meta.get("needs"),
       "agent_tests_run": meta.get("tests_run"), "demo_cmd": meta.get("demo_cmd")}
cj = "/tmp/confirm_%s.json" % ID
if os.path.exists(cj) and os.path.getsize(cj):
    c = json.load(open(cj))
    out["confirmation"] = {
        "what_i_ran": "tools/seed_confirm.py %s in the scratch worktree /tmp/confirm: git apply patch.diff; cargo nextest run --workspace (the pinned baseline command) and comparison with BASELINE.json stable_pass; demo with the patch; git apply -R; demo without the patch" % ID,
        "suite": c.get("suite"), "compiles": c.get("compiles"), "baseline_tests": c.get("baseline_tests"),
        "baseline_tests_broken_by_patch": c.get("baseline_broken_by_patch"),
        "demo_with_patch_rc": c.get("demo_with_patch_rc"), "demo_without_patch_rc": c.get("demo_without_patch_rc"),
        "confirmed": c.get("confirmed")}
else:
    out["confirmation"] = {"confirmed": None, "note": "confirmation run not finished"}
det = []
for chk in checks:
    lg = "/tmp/mutrun_%s_%s.log" % (ID, chk)
    if not os.path.exists(lg):
        continue
    txt = open(lg).read()
    m = re.search(r"\[check\] (\S+) (\S+): .*violations=(\d+) known=(\d+)", txt)
    verdicts = {}
    for rp in re.findall(r"VIOLATION property=\S+ replay=(\S+)", txt):
        try:
            b = json.load(open(rp))
            verdicts[b["contract"]] = verdicts.get(b["contract"], 0) + b["count"]
        except Exception:
            pass
    det.append({"check": chk, "tier": m.group(2) if m else "?", "how": "tools/mutrun.sh %s %s (scratch copy of /repo with the patch applied, VERIF_HARNESS)" % (ID, chk),
                "detected": "VIOLATION property=" in txt, "violations": int(m.group(3)) if m else None, "verdicts": verdicts})
out["detection"] = det
json.dump(out, open(os.path.join(dst, "meta.json"), "w"), indent=1)
print(json.dumps({"id": ID, "confirmed": out["confirmation"].get("confirmed"), "detection": [(d["check"], d["detected"], d["verdicts"]) for d in det]}))
