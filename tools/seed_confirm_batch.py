#!/usr/bin/env python3
"""Confirm a batch of seeded changes at once in /tmp/confirm: apply ALL patches together, run the pinned
baseline suite once, compare with BASELINE.json stable_pass.  (Each change is then demo-confirmed individually with
seed_confirm.py <ID> --skip-suite.)  usage: seed_confirm_batch.py ID..."""
import json
import os
import subprocess
import sys
import xml.etree.ElementTree as ET

WT = "/tmp/confirm"
ENV = dict(os.environ, CARGO_TARGET_DIR=WT + "/target", CARGO_NET_OFFLINE="true")
ids = sys.argv[1:]


def sh(cmd, timeout=14000):
    p = subprocess.run(cmd, shell=True, cwd=WT, env=ENV, stdout=subprocess.PIPE, stderr=subprocess.STDOUT, text=True, timeout=timeout)
    return p.returncode, p.stdout


sh("git checkout -q -- . && git clean -fdq -e target")
applied, failed = [], []
for i in ids:
    p = "/tmp/mutw/%s-out/patch.diff" % i
    if not os.path.exists(p):
        p = "/verif/seeded/%s/patch.diff" % i
    rc, out = sh("git apply " + p)
    (applied if rc == 0 else failed).append(i)
rc, out = sh("cargo nextest run --workspace --no-fail-fast --tool-config-file pb:/w/lib/nextest.toml --profile pb --test-threads 8 --offline")
passed, bad = set(), set()
junit = WT + "/target/nextest/pb/junit.xml"
for tc in ET.parse(junit).getroot().iter("testcase"):
    tid = (tc.get("classname") or "") + "::" + (tc.get("name") or "")
    (bad if (tc.find("failure") is not None or tc.find("error") is not None) else passed).add(tid)
stable = set(json.load(open("/root/.vp/BASELINE.json"))["stable_pass"])
res = {"applied": applied, "patch_conflicts": failed, "suite_rc": rc, "baseline_tests": len(stable),
       "baseline_broken": sorted(stable - passed), "compiles": "error: could not compile" not in out}
sh("git checkout -q -- . && git clean -fdq -e target")
print(json.dumps(res, indent=1))
