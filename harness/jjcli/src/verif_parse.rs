//! `verif-quote-template` / `verif-parse-*` sub-commands of group "fn"
//! (C35, C36): the template language lives in the cli crate.
//! Shared, std+serde_json-only helpers are included from the jjconf harness.
use std::io::BufRead as _;
use std::io::Write as _;

use jj_cli::template_parser;
use jj_cli::template_parser::ExpressionKind;
use jj_lib::dsl_util;
use serde_json::Value;
use serde_json::json;

#[path = "../../jjconf/src/bin/paths/chartab.rs"]
mod chartab;
#[path = "../../jjconf/src/bin/paths/grammar_text.rs"]
mod grammar_text;
#[path = "../../jjconf/src/bin/paths/parse_worker.rs"]
mod parse_worker;

use std::error::Error as StdError;

use jj_cli::template_parser::TemplateAliasesMap;
use jj_cli::template_parser::TemplateParseError;
use jj_cli::template_parser::TemplateParseErrorKind;

/// The innermost error of the template parser's own type decides the kind.
fn template_kind(e: &TemplateParseError) -> &'static str {
    let mut kind = "other";
    let mut cur: Option<&(dyn StdError + 'static)> = Some(e);
    while let Some(x) = cur {
        if let Some(r) = x.downcast_ref::<TemplateParseError>() {
            kind = match r.kind() {
                TemplateParseErrorKind::RecursiveAlias(_) => "recursive",
                TemplateParseErrorKind::InvalidArguments { .. } => "args",
                TemplateParseErrorKind::SyntaxError => "parse",
                TemplateParseErrorKind::InAliasExpansion(_) | TemplateParseErrorKind::InParameterExpansion(_) => kind,
                _ => "other",
            };
        }
        cur = x.source();
    }
    kind
}

/// C36: the template parser (+ alias expansion) on one case.
fn parse_case(case: &Value) -> parse_worker::Outcome {
    let (text, defs) = match grammar_text::materialise(case) {
        Ok(x) => x,
        Err(e) => return ("harness-error".to_string(), String::new(), e),
    };
    if case["lang"].as_str() != Some("template") {
        return ("harness-error".to_string(), String::new(), "this binary handles lang=template".to_string());
    }
    let mut map = TemplateAliasesMap::new();
    for (decl, defn) in &defs {
        if let Err(e) = map.insert(decl, defn.clone(), None) {
            return ("harness-error".to_string(), String::new(), format!("alias decl {decl}: {e}"));
        }
    }
    match template_parser::parse(&text, &map) {
        Ok(_) => ("ok".to_string(), String::new(), String::new()),
        Err(e) => ("err".to_string(), template_kind(&e).to_string(), e.kind().to_string().chars().take(200).collect()),
    }
}

fn opt<'a>(args: &'a [String], key: &str) -> Option<&'a str> {
    args.iter().position(|a| a == key).and_then(|i| args.get(i + 1)).map(|s| s.as_str())
}

fn read_cases(path: &str) -> Result<Vec<Value>, String> {
    let f = std::fs::File::open(path).map_err(|e| format!("open {path}: {e}"))?;
    let mut out = vec![];
    for line in std::io::BufReader::new(f).lines() {
        let line = line.map_err(|e| e.to_string())?;
        if !line.trim().is_empty() {
            out.push(serde_json::from_str(&line).map_err(|e| format!("{path}: {e}"))?);
        }
    }
    Ok(out)
}

/// C35: for each "str" case of MC_Quote, the escaped+quoted string parsed as
/// a template literal.  Output: {"i": index, "tpl": {"ok", "val": tokens}}.
fn quote_template(args: &[String]) -> Result<(), String> {
    let cases = read_cases(opt(args, "--cases").ok_or("--cases")?)?;
    let out_path = opt(args, "--out").ok_or("--out")?;
    let mut out = std::io::BufWriter::new(std::fs::File::create(out_path).map_err(|e| e.to_string())?);
    std::panic::set_hook(Box::new(|_| {}));
    for (i, c) in cases.iter().enumerate() {
        if c["t"].as_str() != Some("str") {
            continue;
        }
        let s: Vec<String> =
            c["s"].as_array().map(|a| a.iter().map(|t| t.as_str().unwrap_or("?").to_string()).collect()).unwrap_or_default();
        let text = chartab::concretise(&s)?;
        let quoted = format!("\"{}\"", dsl_util::escape_string(&text));
        let r = std::panic::catch_unwind(|| match template_parser::parse_template(&quoted) {
            Ok(node) => match &node.kind {
                ExpressionKind::String(v) => json!({"ok": true, "val": chartab::tokens(v)}),
                _ => json!({"ok": false, "val": [], "node": "other"}),
            },
            Err(_) => json!({"ok": false, "val": []}),
        });
        let v = match r {
            Ok(v) => json!({"i": i, "tpl": v}),
            Err(_) => json!({"i": i, "tpl": {"ok": false, "val": [], "panic": true}}),
        };
        serde_json::to_writer(&mut out, &v).map_err(|e| e.to_string())?;
        out.write_all(b"\n").map_err(|e| e.to_string())?;
    }
    out.flush().map_err(|e| e.to_string())
}

pub fn run(cmd: &str, args: &[String]) -> std::process::ExitCode {
    let r = match cmd {
        "verif-quote-template" => quote_template(args),
        "verif-parse-supervise" => parse_worker::supervise(args, "verif-parse-worker"),
        "verif-parse-worker" => parse_worker::worker(args, parse_case),
        _ => Err(format!("unknown verif command {cmd}")),
    };
    match r {
        Ok(()) => std::process::ExitCode::SUCCESS,
        Err(e) => {
            eprintln!("{cmd}: {e}");
            std::process::ExitCode::from(2)
        }
    }
}
