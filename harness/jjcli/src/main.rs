//! The real `jj` CLI built from /repo's working tree with the verification
//! cfg on, plus `verif-*` sub-commands for cli-crate functions.
use jj_cli::cli_util::CliRunner;

fn main() -> std::process::ExitCode {
    let args: Vec<String> = std::env::args().collect();
    if args.len() >= 2 && args[1].starts_with("verif-") {
        return verif(&args[1], &args[2..]);
    }
    CliRunner::init().version("0.0.0-verif").run().into()
}

fn verif(cmd: &str, _args: &[String]) -> std::process::ExitCode {
    eprintln!("unknown verif command {cmd}");
    std::process::ExitCode::from(2)
}
