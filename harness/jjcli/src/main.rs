//! The real `jj` CLI built from /repo's working tree with the verification
//! cfg on, plus `verif-*` sub-commands for cli-crate functions.
use jj_cli::cli_util::CliRunner;

mod verif_parse;
mod verif_text;

fn main() -> std::process::ExitCode {
    let args: Vec<String> = std::env::args().collect();
    if args.len() >= 2 && args[1].starts_with("verif-") {
        return verif(&args[1], &args[2..]);
    }
    CliRunner::init().version("0.0.0-verif").run().into()
}

fn verif(cmd: &str, _args: &[String]) -> std::process::ExitCode {
    if cmd.starts_with("verif-textwidth") { return verif_text::run(cmd, _args); }
    if cmd.starts_with("verif-quote") || cmd.starts_with("verif-parse") { return verif_parse::run(cmd, _args); }
    eprintln!("unknown verif command {cmd}");
    std::process::ExitCode::from(2)
}
