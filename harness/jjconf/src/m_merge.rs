//! C01 / C02: `Merge<T>` algebra.  I→S: enumerate / sample merges, call the
//! real `simplify`, `update_from_simplified`, `flatten`, `trivial_merge`,
//! `resolve_trivial` and log inputs and outputs; TLC (Trace_MergeAlgebra)
//! judges every record against the contracts of spec/MergeAlgebra.tla.
use jj_lib::merge::Merge;
use jj_lib::merge::SameChange;
use jj_lib::merge::trivial_merge;
use serde_json::Value;
use serde_json::json;

use jjconf::util::Opts;
use jjconf::util::Out;
use jjconf::util::Rng;
use jjconf::util::catch;

pub fn run(mode: &str, opts: &Opts) -> Result<(), String> {
    match mode {
        "record" => record(opts),
        m => Err(format!("merge: unknown mode {m}")),
    }
}

/// All odd-length sequences over 1..=v with length <= max_len, shortest first,
/// lexicographic inside a length (the same order the spec's domain has).
fn all_merges(v: i64, max_len: usize) -> Vec<Vec<i64>> {
    let mut out = vec![];
    let mut len = 1;
    while len <= max_len {
        let mut cur = vec![1i64; len];
        loop {
            out.push(cur.clone());
            let mut i = len;
            loop {
                if i == 0 {
                    break;
                }
                i -= 1;
                if cur[i] < v {
                    cur[i] += 1;
                    for c in cur.iter_mut().skip(i + 1) {
                        *c = 1;
                    }
                    break;
                } else if i == 0 {
                    i = usize::MAX;
                    break;
                }
            }
            if i == usize::MAX {
                break;
            }
        }
        len += 2;
    }
    out
}

fn rec_simplify(m: &[i64]) -> Value {
    let mm = Merge::from_vec(m.to_vec());
    let r = catch(|| {
        let s = mm.simplify();
        let s2 = s.simplify();
        // write-back with a fresh marker per simplified position
        let edit: Vec<i64> = (0..s.as_slice().len()).map(|i| 100 + i as i64).collect();
        let wb = mm.clone().update_from_simplified(Merge::from_vec(edit.clone()));
        (
            s.as_slice().to_vec(),
            s2.as_slice().to_vec(),
            edit,
            wb.as_slice().to_vec(),
        )
    });
    match r {
        Ok((s, s2, edit, wb)) => json!({"op":"simplify","inp":m,"out":s,"out2":s2,"edit":edit,"wb":wb}),
        Err(e) => json!({"op":"panic","call":"simplify","inp":m,"msg":e}),
    }
}

fn rec_trivial(m: &[i64], accept: bool) -> Value {
    let sc = if accept { SameChange::Accept } else { SameChange::Keep };
    let mm = Merge::from_vec(m.to_vec());
    let r = catch(|| {
        let a = trivial_merge(m, sc).copied();
        let b = mm.resolve_trivial(sc).copied();
        (a, b)
    });
    match r {
        // 0 encodes "not resolved" (values are >= 1)
        Ok((a, b)) => json!({"op":"trivial","inp":m,"accept":accept,
            "out":a.unwrap_or(0),"out_method":b.unwrap_or(0)}),
        Err(e) => json!({"op":"panic","call":"trivial","inp":m,"accept":accept,"msg":e}),
    }
}

fn rec_flatten(mm: &[Vec<i64>]) -> Value {
    let nested = Merge::from_vec(mm.iter().map(|m| Merge::from_vec(m.clone())).collect::<Vec<_>>());
    match catch(|| nested.flatten().as_slice().to_vec()) {
        Ok(out) => json!({"op":"flatten","inp":mm,"out":out}),
        Err(e) => json!({"op":"panic","call":"flatten","inp":mm,"msg":e}),
    }
}

fn rand_merge(rng: &mut Rng, v: usize, max_sides: usize) -> Vec<i64> {
    let sides = rng.range(1, max_sides);
    (0..2 * sides - 1).map(|_| rng.range(1, v) as i64).collect()
}

fn record(opts: &Opts) -> Result<(), String> {
    jjconf::util::quiet_panics();
    let what = opts.str("what", "c01");
    let mut out = Out::create(&opts.str("out", "trace.ndjson"))?;
    let seed = opts.u64("seed", 0);
    let v = opts.u64("values", 3) as i64;
    let max_len = opts.usize("maxlen", 7);
    let n_random = opts.usize("random", 2000);
    let mut rng = Rng::new(seed);
    let dom = all_merges(v, max_len);
    match what.as_str() {
        "c01" => {
            out.emit(&json!({"op":"domain","kind":"simplify","values":v,"maxlen":max_len,"count":dom.len()}));
            for m in &dom {
                out.emit(&rec_simplify(m));
            }
            // all nestings: outer <= 3 terms, inner <= 3 terms, V = 2
            let inner = all_merges(2, 3);
            let mut cnt = 0usize;
            for a in &inner {
                out.emit(&rec_flatten(&[a.clone()]));
                cnt += 1;
                for b in &inner {
                    for c in &inner {
                        out.emit(&rec_flatten(&[a.clone(), b.clone(), c.clone()]));
                        cnt += 1;
                    }
                }
            }
            out.emit(&json!({"op":"domain","kind":"flatten","values":2,"maxlen":3,"count":cnt}));
            for _ in 0..n_random {
                let vv = rng.range(2, 6);
                let m = rand_merge(&mut rng, vv, 16);
                out.emit(&rec_simplify(&m));
                // depth-2 nesting with larger arity
                let outer = 2 * rng.range(1, 4) - 1;
                let mm: Vec<Vec<i64>> = (0..outer).map(|_| rand_merge(&mut rng, vv, 4)).collect();
                out.emit(&rec_flatten(&mm));
            }
        }
        "c02" => {
            out.emit(&json!({"op":"domain","kind":"trivial","values":v,"maxlen":max_len,"count":dom.len() * 2}));
            for m in &dom {
                out.emit(&rec_trivial(m, false));
                out.emit(&rec_trivial(m, true));
            }
            for _ in 0..n_random {
                let vv = rng.range(2, 6);
                let m = rand_merge(&mut rng, vv, 16);
                out.emit(&rec_trivial(&m, rng.chance(1, 2)));
            }
        }
        w => return Err(format!("merge record: unknown --what {w}")),
    }
    out.finish();
    Ok(())
}
