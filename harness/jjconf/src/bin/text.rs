//! `text` binary: recorders for the "text" group.
//!   C03  spec/Diff.tla             text diff ...      (core/src/diff.rs)
//!   C04  spec/FileMerge.tla        text fmerge ...    (lib/src/files.rs)
//!   C05  spec/ConflictMarkers.tla  text markers ...   (lib/src/conflicts.rs)
//!   C06  spec/ConflictMarkers.tla  text snapshot ...  (conflicts::update_from_content)
//! The recorders call the REAL jj code and log inputs and outputs as ndjson;
//! they decide nothing.  TLC judges every record (spec/Trace_*.tla).
use std::process::ExitCode;

use jjconf::util;

#[path = "text/common.rs"]
mod common;
#[path = "text/diff.rs"]
mod diff;
#[path = "text/fmerge.rs"]
mod fmerge;
#[path = "text/markers.rs"]
mod markers;
#[path = "text/snapshot.rs"]
mod snapshot;

fn main() -> ExitCode {
    let args: Vec<String> = std::env::args().collect();
    if args.len() < 2 {
        eprintln!("usage: text <diff|diff-again|fmerge|markers|snapshot> [--key value]...");
        return ExitCode::from(2);
    }
    let opts = util::Opts::parse(&args[2..]);
    util::quiet_panics();
    let r = match args[1].as_str() {
        "diff" => diff::record(&opts),
        "diff-again" => diff::again(&opts),
        "fmerge" => fmerge::record(&opts),
        "markers" => markers::record(&opts),
        "snapshot" => snapshot::record(&opts),
        m => Err(format!("unknown mode {m}")),
    };
    match r {
        Ok(()) => ExitCode::SUCCESS,
        Err(e) => {
            eprintln!("text: {e}");
            ExitCode::from(2)
        }
    }
}
