//! `fsck` binary (C15): reads back every object file present in the op store
//! of a repository (and the simple backend's commit files if present) and
//! reports the ones that do not decode ("torn" objects).  Prints one JSON line.
use std::path::Path;
use std::process::ExitCode;

use jj_lib::backend::CommitId;
use jj_lib::object_id::ObjectId as _;
use jj_lib::op_store::OpStore as _;
use jj_lib::op_store::OperationId;
use jj_lib::op_store::RootOperationData;
use jj_lib::op_store::ViewId;
use jj_lib::simple_op_store::SimpleOpStore;
use pollster::FutureExt as _;
use serde_json::json;

fn names(dir: &Path) -> Vec<String> {
    let mut v: Vec<String> = std::fs::read_dir(dir)
        .map(|rd| rd.filter_map(|e| e.ok()).filter_map(|e| e.file_name().into_string().ok()).collect())
        .unwrap_or_default();
    v.sort();
    v
}

fn main() -> ExitCode {
    let args: Vec<String> = std::env::args().collect();
    if args.len() < 2 {
        eprintln!("usage: fsck <path to .jj/repo>");
        return ExitCode::from(2);
    }
    let repo = Path::new(&args[1]);
    let store_path = repo.join("op_store");
    let store = SimpleOpStore::load(&store_path, RootOperationData { root_commit_id: CommitId::from_bytes(&[0; 20]) });
    let mut torn = vec![];
    let mut checked = 0;
    let mut view_of = serde_json::Map::new();
    for n in names(&store_path.join("operations")) {
        let Some(id) = OperationId::try_from_hex(&n) else { continue }; // temp files are not objects
        checked += 1;
        match store.read_operation(&id).block_on() {
            Ok(op) => {
                view_of.insert(n.clone(), json!(op.view_id.hex()));
            }
            Err(e) => torn.push(format!("operations/{n}: {e}")),
        }
    }
    for n in names(&store_path.join("views")) {
        let Some(id) = ViewId::try_from_hex(&n) else { continue };
        checked += 1;
        if let Err(e) = store.read_view(&id).block_on() {
            torn.push(format!("views/{n}: {e}"));
        }
    }
    // head files must name existing operations
    let mut dangling = vec![];
    for n in names(&repo.join("op_heads").join("heads")) {
        if n.len() >= 32 && !store_path.join("operations").join(&n).exists() {
            dangling.push(n);
        }
    }
    println!("{}", json!({"checked": checked, "torn": torn, "dangling_heads": dangling, "view_of": view_of}));
    ExitCode::SUCCESS
}
