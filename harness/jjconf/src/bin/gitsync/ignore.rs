//! C28 recorder (spec/GitIgnore.tla): three-way comparison material.
//!
//! Domain (from the VOCAB record MC_GitIgnore prints): an ignore file at the
//! root and one in a sub-directory, up to --maxroot / --maxsub lines each from
//! the vocabulary, judged on a fixed path universe.  For every case the
//! recorder logs, per path,
//!   jj    GitIgnoreFile::chain + matches_file/matches_dir with the parent
//!         directory recursion of the snapshot walk, ignore files at "" / sub
//!   jjp   the same with everything moved under a case directory (prefix
//!         stripping with non-root prefixes)
//!   git   `git check-ignore --stdin -z` in a scratch repository where the
//!         case lives in that case directory and the paths exist on disk
//!   snap  (with --snap) files only: whether a real snapshot of a workspace
//!         holding the same files leaves the file untracked
//! It decides nothing; Trace_GitIgnore judges.
use std::collections::HashSet;
use std::fs;
use std::path::Path;
use std::sync::Arc;

use jj_lib::gitignore::GitIgnoreFile;
use jj_lib::repo_path::RepoPath;
use jj_lib::repo_path::RepoPathBuf;
use jjconf::util::Opts;
use jjconf::util::Out;
use jjconf::util::Rng;
use serde_json::Value;
use serde_json::json;
use testutils::TestWorkspace;

use crate::common::git_raw;

struct Domain {
    vocab: Vec<String>,       // lines as text
    vocab_json: Vec<Value>,   // lines as arrays of 1-char strings (for the judge)
    paths: Vec<(Vec<String>, bool, Value)>, // components, is_dir, json
    sub: Vec<String>,
    sub_json: Value,
}

fn chars_to_string(v: &Value) -> String {
    v.as_array()
        .map(|a| a.iter().map(|c| c.as_str().unwrap_or("")).collect::<String>())
        .unwrap_or_default()
}

fn load_domain(path: &str) -> Result<Domain, String> {
    let text = fs::read_to_string(path).map_err(|e| format!("{path}: {e}"))?;
    let v: Value = serde_json::from_str(&text).map_err(|e| format!("{path}: {e}"))?;
    let vocab_json: Vec<Value> = v["vocab"].as_array().ok_or("vocab")?.clone();
    let vocab = vocab_json.iter().map(chars_to_string).collect();
    let comps = |p: &Value| -> Vec<String> { p.as_array().map(|a| a.iter().map(chars_to_string).collect()).unwrap_or_default() };
    let paths = v["paths"]
        .as_array()
        .ok_or("paths")?
        .iter()
        .map(|p| (comps(&p["p"]), p["d"].as_bool().unwrap_or(false), p.clone()))
        .collect();
    Ok(Domain {
        vocab,
        vocab_json,
        paths,
        sub: comps(&v["sub"]),
        sub_json: v["sub"].clone(),
    })
}

fn file_text(dom: &Domain, ix: &[usize]) -> Vec<u8> {
    let mut s = String::new();
    for &i in ix {
        s.push_str(&dom.vocab[i]);
        s.push('\n');
    }
    s.into_bytes()
}

fn repo_path(prefix: &[String], comps: &[String]) -> RepoPathBuf {
    let all: Vec<&str> = prefix.iter().chain(comps.iter()).map(|s| s.as_str()).collect();
    RepoPathBuf::from_internal_string(all.join("/")).expect("valid repo path")
}

/// jj's answer for one path: the walk of local_working_copy.rs
/// (visit_directory chains the directory's .gitignore, process_dir_entry asks
/// matches_dir for a directory entry and does not descend if ignored, asks
/// matches_file for a file entry).
fn jj_ignored(base: &[String], dom: &Domain, root: &[u8], sub: &[u8], comps: &[String], is_dir: bool) -> bool {
    let sub_abs: Vec<String> = base.iter().chain(dom.sub.iter()).cloned().collect();
    let mut chain: Arc<GitIgnoreFile> = GitIgnoreFile::empty();
    // entering the case root
    let here = repo_path(base, &[]);
    chain = chain.chain(&here, Path::new(".gitignore"), root).unwrap();
    for k in 1..=comps.len() {
        let p = repo_path(base, &comps[..k]);
        let last = k == comps.len();
        if !last || is_dir {
            if chain.matches_dir(&p) {
                return true;
            }
            if last {
                return false;
            }
            // entering directory p: its own ignore file joins the chain
            let abs: Vec<String> = base.iter().chain(comps[..k].iter()).cloned().collect();
            if abs == sub_abs {
                chain = chain.chain(&p, Path::new(".gitignore"), sub).unwrap();
            }
        } else {
            return chain.matches_file(&p);
        }
    }
    unreachable!()
}

fn case_dir(i: usize) -> String {
    format!("c{i:04}")
}

/// create the path universe under `root/<case dir>` for `n` case dirs
fn make_universe(root: &Path, dom: &Domain, n: usize) -> Result<(), String> {
    for i in 0..n {
        let cd = root.join(case_dir(i));
        for (comps, is_dir, _) in &dom.paths {
            let p = comps.iter().fold(cd.clone(), |a, c| a.join(c));
            if *is_dir {
                fs::create_dir_all(&p).map_err(|e| e.to_string())?;
            } else {
                fs::create_dir_all(p.parent().unwrap()).map_err(|e| e.to_string())?;
                fs::write(&p, b"x").map_err(|e| e.to_string())?;
            }
        }
        let sd = dom.sub.iter().fold(cd.clone(), |a, c| a.join(c));
        fs::create_dir_all(&sd).map_err(|e| e.to_string())?;
    }
    Ok(())
}

fn write_ignores(root: &Path, dom: &Domain, i: usize, rootf: &[u8], subf: &[u8]) -> Result<(), String> {
    let cd = root.join(case_dir(i));
    fs::write(cd.join(".gitignore"), rootf).map_err(|e| e.to_string())?;
    let sd = dom.sub.iter().fold(cd, |a, c| a.join(c));
    fs::write(sd.join(".gitignore"), subf).map_err(|e| e.to_string())?;
    Ok(())
}

fn enumerate(v: usize, max: usize) -> Vec<Vec<usize>> {
    let mut out = vec![vec![]];
    let mut layer: Vec<Vec<usize>> = vec![vec![]];
    for _ in 0..max {
        let mut next = vec![];
        for l in &layer {
            for x in 0..v {
                let mut m = l.clone();
                m.push(x);
                next.push(m);
            }
        }
        out.extend(next.iter().cloned());
        layer = next;
    }
    out
}

pub fn run(opts: &Opts) -> Result<(), String> {
    let dom = load_domain(opts.get("vocab").ok_or("--vocab required")?)?;
    let mut out = Out::create(&opts.str("out", "/dev/stdout"))?;
    let (maxroot, maxsub) = (opts.usize("maxroot", 2), opts.usize("maxsub", 1));
    let batch = opts.usize("batch", 256);
    let snap_every = opts.usize("snap", 0); // 0 = never, k = every k-th batch gets a real snapshot
    let roots = enumerate(dom.vocab.len(), maxroot);
    let subs = enumerate(dom.vocab.len(), maxsub);
    let mut cases: Vec<(Vec<usize>, Vec<usize>)> = vec![];
    for r in &roots {
        for s in &subs {
            cases.push((r.clone(), s.clone()));
        }
    }
    let total = cases.len();
    // --sample N: a seeded sample of the product instead of all of it
    let sample = opts.usize("sample", 0);
    if sample > 0 && sample < cases.len() {
        let mut rng = Rng::new(opts.u64("seed", 0));
        rng.shuffle(&mut cases);
        cases.truncate(sample);
    }
    // --shard i --of k
    let (shard, of) = (opts.usize("shard", 0), opts.usize("of", 1));
    let cases: Vec<_> = cases.into_iter().enumerate().filter(|(i, _)| i % of == shard).map(|(_, c)| c).collect();

    out.emit(&json!({"op": "domain", "vocab": dom.vocab.len(), "paths": dom.paths.len(), "maxroot": maxroot,
                     "maxsub": maxsub, "product": total, "cases": cases.len(), "shard": shard, "of": of}));

    // scratch git repository holding `batch` case directories
    let tmp = testutils::new_temp_dir();
    let scratch = tmp.path().join("scratch");
    fs::create_dir_all(&scratch).map_err(|e| e.to_string())?;
    let (ok, _, err) = git_raw(&scratch, true, &["init", "-q"], None);
    if !ok {
        return Err(format!("git init: {err}"));
    }
    make_universe(&scratch, &dom, batch.min(cases.len().max(1)))?;

    for (bno, chunk) in cases.chunks(batch).enumerate() {
        // git: write the ignore files of the whole batch, one check-ignore for all paths
        let mut stdin: Vec<u8> = vec![];
        for (i, (r, s)) in chunk.iter().enumerate() {
            write_ignores(&scratch, &dom, i, &file_text(&dom, r), &file_text(&dom, s))?;
            for (comps, _, _) in &dom.paths {
                stdin.extend_from_slice(format!("{}/{}", case_dir(i), comps.join("/")).as_bytes());
                stdin.push(0);
            }
        }
        let (_ok, stdout, err) = git_raw(&scratch, true, &["check-ignore", "--stdin", "-z"], Some(&stdin));
        if !err.trim().is_empty() {
            return Err(format!("git check-ignore: {err}"));
        }
        let ignored_by_git: HashSet<String> = stdout
            .split(|&b| b == 0)
            .filter(|x| !x.is_empty())
            .map(|x| String::from_utf8_lossy(x).into_owned())
            .collect();

        // optional: a real snapshot of a workspace with the same files
        let mut tracked: Option<HashSet<String>> = None;
        if snap_every > 0 && bno % snap_every == 0 {
            let mut ws = TestWorkspace::init();
            let root = ws.workspace.workspace_root().to_owned();
            make_universe(&root, &dom, chunk.len())?;
            for (i, (r, s)) in chunk.iter().enumerate() {
                write_ignores(&root, &dom, i, &file_text(&dom, r), &file_text(&dom, s))?;
            }
            let tree = ws.snapshot().map_err(|e| format!("snapshot: {e}"))?;
            let mut set = HashSet::new();
            for (path, _value) in tree.entries() {
                set.insert(path.as_internal_file_string().to_string());
            }
            tracked = Some(set);
        }

        for (i, (r, s)) in chunk.iter().enumerate() {
            let rootf = file_text(&dom, r);
            let subf = file_text(&dom, s);
            let base = vec![case_dir(i)];
            let mut res = vec![];
            for (comps, is_dir, pj) in &dom.paths {
                let jj = jj_ignored(&[], &dom, &rootf, &subf, comps, *is_dir);
                let jjp = jj_ignored(&base, &dom, &rootf, &subf, comps, *is_dir);
                let key = format!("{}/{}", case_dir(i), comps.join("/"));
                let git = ignored_by_git.contains(&key);
                let mut rec = json!({"p": pj["p"], "d": is_dir, "jj": jj, "jjp": jjp, "git": git});
                if let Some(t) = &tracked
                    && !*is_dir
                {
                    rec["snap"] = json!(!t.contains(&key));
                }
                res.push(rec);
            }
            let lines = |ix: &[usize]| -> Vec<Value> { ix.iter().map(|&k| dom.vocab_json[k].clone()).collect() };
            out.emit(&json!({"op": "ignore", "root": lines(r), "sub": lines(s), "subdir": dom.sub_json,
                             "rootix": r, "subix": s, "snapped": tracked.is_some(), "res": res}));
        }
    }
    out.finish();
    Ok(())
}

#[allow(dead_code)]
fn _unused(_: &RepoPath) {}
