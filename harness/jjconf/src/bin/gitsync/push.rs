//! C45 replayer / recorder (spec/GitPush.tla).
//!
//! World: a bare remote repository, jj's Git-backed repository with remote
//! "origin" pointing at it, and a second clone ("other") that pushes to the
//! same remote with the real `git push`.  Actions: JjSet/JjDelete (local
//! bookmark), OtherSet/OtherDelete (the other clone force-pushes / deletes a
//! branch on the remote), Fetch (jj_lib::git::GitFetch + import), Push(S)
//! (what `jj git push` does for the bookmarks in S: classify_ref_push_action,
//! then jj_lib::git::push_refs, i.e. the real `git push --force-with-lease`).
//! After every action the state is projected and logged; TLC judges.
use std::collections::BTreeSet;
use std::collections::HashMap;
use std::io;
use std::panic::AssertUnwindSafe;
use std::path::PathBuf;
use std::sync::Arc;

use jj_lib::backend::CommitId;
use jj_lib::git;
use jj_lib::git::GitImportOptions;
use jj_lib::git::GitPushOptions;
use jj_lib::git::GitPushRefTargets;
use jj_lib::git::GitSidebandLineTerminator;
use jj_lib::git::GitSubprocessCallback;
use jj_lib::git::GitSubprocessOptions;
use jj_lib::object_id::ObjectId as _;
use jj_lib::op_store::RefTarget;
use jj_lib::op_store::RemoteRef;
use jj_lib::op_store::RemoteRefState;
use jj_lib::ref_name::RefName;
use jj_lib::ref_name::RefNameBuf;
use jj_lib::ref_name::RemoteRefSymbol;
use jj_lib::refs::LocalAndRemoteRef;
use jj_lib::refs::RefPushAction;
use jj_lib::refs::classify_ref_push_action;
use jj_lib::repo::ReadonlyRepo;
use jj_lib::repo::Repo;
use jj_lib::str_util::StringMatcher;
use jjconf::util::Opts;
use jjconf::util::Out;
use jjconf::util::Rng;
use jjconf::util::catch;
use jjconf::util::quiet_panics;
use jjconf::util::read_ndjson;
use pollster::FutureExt as _;
use serde_json::Value;
use serde_json::json;
use testutils::TestRepo;
use testutils::TestRepoBackend;

use crate::common::Commits;
use crate::common::RefWriter;
use crate::common::create_git_commit;
use crate::common::create_jj_commit;
use crate::common::git;
use crate::common::git_backend;
use crate::common::git_refs;
use crate::common::has_id;
use crate::common::is_duplicate_commit_flake;
use crate::common::reload_with_tick;
use crate::common::list_refs;
use crate::common::read_ref;
use crate::common::usizes;

const MAX_BM: usize = 3;

struct NullCallback;
impl GitSubprocessCallback for NullCallback {
    fn needs_progress(&self) -> bool {
        false
    }
    fn progress(&mut self, _progress: &git::GitProgress) -> io::Result<()> {
        Ok(())
    }
    fn local_sideband(&mut self, _m: &[u8], _t: Option<GitSidebandLineTerminator>) -> io::Result<()> {
        Ok(())
    }
    fn remote_sideband(&mut self, _m: &[u8], _t: Option<GitSidebandLineTerminator>) -> io::Result<()> {
        Ok(())
    }
}

fn bname(b: usize) -> String {
    format!("bk{b}")
}
fn headref(b: usize) -> String {
    format!("refs/heads/bk{b}")
}
fn trackref(b: usize) -> String {
    format!("refs/remotes/origin/bk{b}")
}
fn origin_sym(name: &RefName) -> RemoteRefSymbol<'_> {
    RemoteRefSymbol { name, remote: "origin".as_ref() }
}

fn import_options() -> GitImportOptions {
    let mut auto = HashMap::new();
    auto.insert("origin".into(), StringMatcher::all());
    GitImportOptions {
        abandon_unreachable_commits: true,
        record_synthetic_predecessors: true,
        remote_auto_track_bookmarks: auto,
    }
}

struct Env {
    test_repo: TestRepo,
    /// counter behind the pinned commit timestamp (common::reload_with_tick)
    tick: u64,
    _dir: tempfile::TempDir,
    repo: Arc<ReadonlyRepo>,
    git_dir: PathBuf,    // jj's backing Git repository
    remote_dir: PathBuf, // the bare remote
    other_dir: PathBuf,  // the second clone (bare, remote "origin")
    remote_writer: RefWriter, // `verify`, wiping between cases, fast-mode edits of the remote
    jj_writer: RefWriter,     // wiping between cases, fast-mode fetch
    par: Vec<Vec<usize>>,
    jj_ids: Vec<Option<CommitId>>,
    cases: usize,
    /// filler bookmarks: always in sync with the remote, moved by every Push
    /// together with the modelled bookmarks (many-refs dimension)
    fillers: Vec<String>,
    fill_place: String,
    /// the commit number (1 or 2) all fillers currently sit on
    fill_cur: usize,
    /// a push left the fillers out of sync: do not reuse this Env
    fill_broken: bool,
}

struct Case<'a> {
    env: &'a mut Env,
    commits: Commits,
    nb: usize,
    /// commits whose objects the remote does not have yet (created in the
    /// other clone for this case)
    other_only: Vec<usize>,
    /// commits whose objects jj's Git repository does not have yet
    jj_lacks: Vec<usize>,
    /// true: every OtherSet/OtherDelete is a real `git push` from the other
    /// clone; false: when the remote already has the objects, the remote's
    /// branch is moved by the real git in the remote repository itself
    /// (`git update-ref`, no process spawn) - the same effect on the remote;
    /// likewise the transport half of Fetch copies the remote's branch
    /// positions into refs/remotes/origin/* with `git update-ref` when no
    /// object has to travel
    real_other_push: bool,
}

impl Env {
    fn new(par: &[Vec<usize>]) -> Result<Self, String> {
        let dir = testutils::new_temp_dir();
        let remote_dir = dir.path().join("remote.git");
        let other_dir = dir.path().join("other.git");
        testutils::git::init_bare(&remote_dir);
        testutils::git::init_bare(&other_dir);
        let url = remote_dir.to_str().unwrap().to_string();
        git(&other_dir, &["remote", "add", "origin", &url])?;
        // no background repacking while the harness reads ref files
        for d in [&remote_dir, &other_dir] {
            use std::io::Write as _;
            let mut f = std::fs::OpenOptions::new()
                .append(true)
                .open(d.join("config"))
                .map_err(|e| e.to_string())?;
            f.write_all(b"[gc]\n\tauto = 0\n[receive]\n\tautogc = false\n")
                .map_err(|e| e.to_string())?;
        }
        let test_repo = TestRepo::init_with_backend(TestRepoBackend::Git);
        let repo = test_repo.repo.clone();
        let mut tx = repo.start_transaction();
        git::add_remote(tx.repo_mut(), "origin".as_ref(), &url, None).map_err(|e| format!("add_remote: {e}"))?;
        tx.commit("add remote").block_on().map_err(|e| e.to_string())?;
        // reload, as every jj command does: the remote lives in the Git config read at load time
        let repo = test_repo
            .env
            .load_repo_at_head(&testutils::user_settings(), test_repo.repo_path());
        let git_dir = git_backend(&repo).git_repo_path().to_owned();
        let remote_writer = RefWriter::new(&remote_dir)?;
        let jj_writer = RefWriter::new(&git_dir)?;
        Ok(Self {
            test_repo,
            tick: 0,
            _dir: dir,
            repo,
            git_dir,
            remote_dir,
            other_dir,
            remote_writer,
            jj_writer,
            par: par.to_vec(),
            jj_ids: vec![None; par.len()],
            cases: 0,
            fillers: vec![],
            fill_place: String::new(),
            fill_cur: 1,
            fill_broken: false,
        })
    }

    /// Start a case.  Commits not in `otheronly` are created through jj (once
    /// per Env) and handed to the other clone through refs/keep/* on the
    /// remote; `otheronly` commits are created in the other clone for this
    /// case (jj learns them only by fetching a branch that points to them).
    fn start(
        &mut self,
        otheronly: &[usize],
        nb: usize,
        real_other_push: bool,
        nfill: usize,
        place: &str,
    ) -> Result<Case<'_>, String> {
        self.cases += 1;
        if nfill > 0 && (otheronly.contains(&1) || otheronly.contains(&2) || self.par.len() < 2) {
            return Err("harness: fillers need commits 1 and 2 to be jj commits".into());
        }
        let mut commits = Commits::new();
        let mut tx = self.repo.start_transaction();
        let mut dirty = false;
        let mut new_jj: Vec<(usize, String)> = vec![];
        for (i, ps) in self.par.clone().iter().enumerate() {
            let k = i + 1;
            if otheronly.contains(&k) {
                commits.push(CommitId::from_bytes(&[0; 20])); // placeholder, filled below
                continue;
            }
            if ps.iter().any(|p| otheronly.contains(p)) {
                return Err("jj commit with an other-only parent".into());
            }
            if self.jj_ids[i].is_none() {
                let c = create_jj_commit(tx.repo_mut(), &commits, ps, k);
                self.jj_ids[i] = Some(c.id().clone());
                new_jj.push((k, c.id().hex()));
                dirty = true;
            }
            commits.push(self.jj_ids[i].clone().unwrap());
        }
        // wipe jj's records of the model bookmarks
        for b in 1..=MAX_BM {
            let n = bname(b);
            let name: &RefName = n.as_str().as_ref();
            let m = tx.repo_mut();
            let d = m.view().get_local_bookmark(name).is_present()
                || m.view().get_remote_bookmark(origin_sym(name)).is_present()
                || m.view().get_git_ref(trackref(b).as_str().as_ref()).is_present()
                || m.view().get_git_ref(headref(b).as_str().as_ref()).is_present()
                || m.view()
                    .get_remote_bookmark(RemoteRefSymbol { name, remote: "git".as_ref() })
                    .is_present();
            if d {
                dirty = true;
                m.set_local_bookmark_target(name, RefTarget::absent());
                m.set_git_ref_target(trackref(b).as_str().as_ref(), RefTarget::absent());
                m.set_git_ref_target(headref(b).as_str().as_ref(), RefTarget::absent());
                let gone = RemoteRef { target: RefTarget::absent(), state: RemoteRefState::New };
                m.set_remote_bookmark(origin_sym(name), gone.clone());
                m.set_remote_bookmark(RemoteRefSymbol { name, remote: "git".as_ref() }, gone);
            }
        }
        if dirty {
            self.repo = tx.commit("case setup").block_on().map_err(|e| e.to_string())?;
        }
        // hand new jj commits to the remote and the other clone
        if !new_jj.is_empty() {
            let mut args: Vec<String> = vec!["push".into(), "-q".into(), "origin".into()];
            for (k, hex) in &new_jj {
                args.push(format!("{hex}:refs/keep/c{k}"));
            }
            let a: Vec<&str> = args.iter().map(|s| s.as_str()).collect();
            git(&self.git_dir, &a)?;
            git(&self.other_dir, &["fetch", "-q", "origin", "+refs/keep/*:refs/keep/*"])?;
        }
        // this case's other-only commits
        if !otheronly.is_empty() {
            let other = testutils::git::open(&self.other_dir);
            let mut real = Commits::new();
            for (i, ps) in self.par.clone().iter().enumerate() {
                let k = i + 1;
                if otheronly.contains(&k) {
                    let id = create_git_commit(&other, &real, ps, &format!("case{}-c{k}", self.cases))?;
                    real.push(id);
                } else {
                    real.push(commits.id(k).clone());
                }
            }
            commits = real;
        }
        // wipe the Git-level refs: remote branches, jj's remote-tracking refs and local branches
        for b in 1..=MAX_BM {
            if read_ref(&self.remote_dir, &headref(b)).is_some() {
                self.remote_writer.delete(&headref(b))?;
            }
            for r in [trackref(b), headref(b)] {
                if read_ref(&self.git_dir, &r).is_some() {
                    self.jj_writer.delete(&r)?;
                }
            }
        }
        self.ensure_fillers(nfill, place, &commits)?;
        Ok(Case {
            env: self,
            commits,
            nb,
            other_only: otheronly.to_vec(),
            jj_lacks: otheronly.to_vec(),
            real_other_push,
        })
    }
}

impl Env {
    /// Make the set of filler bookmarks be `nfill` names sorting before
    /// ("after": the modelled bookmarks come after them) or after ("before")
    /// the modelled names, all in sync on commit 1: remote branch,
    /// refs/remotes/origin ref, jj's remote-tracking bookmark (tracked), jj's
    /// last-seen git ref and the local bookmark.
    fn ensure_fillers(&mut self, nfill: usize, place: &str, commits: &Commits) -> Result<(), String> {
        if self.fillers.len() == nfill && (nfill == 0 || self.fill_place == place) {
            return Ok(());
        }
        let old = std::mem::take(&mut self.fillers);
        let new: Vec<String> = (0..nfill)
            .map(|i| if place == "after" { format!("a{i:03}") } else { format!("zz{i:03}") })
            .collect();
        if !old.is_empty() {
            let dels: Vec<String> = old.iter().map(|n| format!("delete refs/heads/{n}")).collect();
            self.remote_writer.transact(&dels)?;
            let dels: Vec<String> = old.iter().map(|n| format!("delete refs/remotes/origin/{n}")).collect();
            self.jj_writer.transact(&dels)?;
        }
        if !new.is_empty() {
            let hex = commits.hex(1);
            let ups: Vec<String> = new.iter().map(|n| format!("update refs/heads/{n} {hex}")).collect();
            self.remote_writer.transact(&ups)?;
            let ups: Vec<String> = new.iter().map(|n| format!("update refs/remotes/origin/{n} {hex}")).collect();
            self.jj_writer.transact(&ups)?;
        }
        let mut tx = self.repo.start_transaction();
        let gone = RemoteRef { target: RefTarget::absent(), state: RemoteRefState::New };
        for n in &old {
            let name: &RefName = n.as_str().as_ref();
            let m = tx.repo_mut();
            m.set_local_bookmark_target(name, RefTarget::absent());
            m.set_git_ref_target(format!("refs/remotes/origin/{n}").as_str().as_ref(), RefTarget::absent());
            m.set_remote_bookmark(origin_sym(name), gone.clone());
        }
        let t1 = RefTarget::normal(commits.id(1).clone());
        for n in &new {
            let name: &RefName = n.as_str().as_ref();
            let m = tx.repo_mut();
            m.set_local_bookmark_target(name, t1.clone());
            m.set_git_ref_target(format!("refs/remotes/origin/{n}").as_str().as_ref(), t1.clone());
            m.set_remote_bookmark(origin_sym(name), RemoteRef { target: t1.clone(), state: RemoteRefState::Tracked });
        }
        self.repo = tx.commit("fillers").block_on().map_err(|e| e.to_string())?;
        self.fillers = new;
        self.fill_place = place.to_string();
        self.fill_cur = 1;
        Ok(())
    }
}

impl Case<'_> {
    fn project(&mut self) -> Result<Value, String> {
        let repo = self.env.repo.clone();
        self.project_repo(repo.as_ref())
    }

    fn project_repo(&mut self, repo: &dyn Repo) -> Result<Value, String> {
        let view = repo.view();
        let (mut local, mut track, mut tracked, mut remote, mut gtrack, mut seenr) = (vec![], vec![], vec![], vec![], vec![], vec![]);
        let rrefs = list_refs(&self.env.remote_dir, "refs/heads");
        let mut to_verify = vec![];
        let names: Vec<String> = (1..=self.nb).map(bname).collect();
        for (i, n) in names.iter().enumerate() {
            let b = i + 1;
            let name: &RefName = n.as_str().as_ref();
            local.push(self.commits.target(view.get_local_bookmark(name)));
            let rr = view.get_remote_bookmark(origin_sym(name));
            track.push(self.commits.single(&rr.target));
            tracked.push(rr.is_tracked());
            remote.push(rrefs.get(n).map_or(0, |h| self.commits.num_hex(h)));
            to_verify.push((headref(b), rrefs.get(n).cloned()));
            gtrack.push(read_ref(&self.env.git_dir, &trackref(b)).map_or(0, |h| self.commits.num_hex(&h)));
            seenr.push(self.commits.single(view.get_git_ref(trackref(b).as_str().as_ref())));
        }
        self.env.remote_writer.verify(&to_verify)?;
        let mut extra: BTreeSet<String> = BTreeSet::new();
        let fillers: std::collections::HashSet<&str> = self.env.fillers.iter().map(|s| s.as_str()).collect();
        for n in rrefs.keys() {
            if !names.contains(n) && !fillers.contains(n.as_str()) {
                extra.insert(format!("remote:{n}"));
            }
        }
        for (n, _) in view.local_bookmarks() {
            if !names.iter().any(|x| x == n.as_str()) && !fillers.contains(n.as_str()) {
                extra.insert(format!("local:{}", n.as_str()));
            }
        }
        let known: Vec<usize> = (1..=self.commits.ids.len())
            .filter(|&k| has_id(repo, self.commits.id(k)))
            .collect();
        Ok(json!({"local": local, "track": track, "tracked": tracked, "remote": remote,
                  "gtrack": gtrack, "seenr": seenr, "known": known,
                  "extra": extra.into_iter().collect::<Vec<_>>()}))
    }

    fn jj_set(&mut self, b: usize, target: RefTarget) -> Result<(), String> {
        let mut tx = self.env.repo.start_transaction();
        tx.repo_mut()
            .set_local_bookmark_target(bname(b).as_str().as_ref(), target);
        self.env.repo = tx.commit("jj set").block_on().map_err(|e| e.to_string())?;
        Ok(())
    }

    fn subprocess_options(&self) -> GitSubprocessOptions {
        GitSubprocessOptions {
            executable_path: "git".into(),
            environment: HashMap::new(),
        }
    }

    /// Refresh jj's knowledge of the remote: `git fetch --prune` (the git CLI:
    /// the installed git 2.39 lacks `fetch --porcelain`, which GitFetch needs)
    /// followed by the real jj_lib::git::import_refs with origin auto-tracked.
    fn fetch(&mut self) -> Result<Value, String> {
        let rrefs = list_refs(&self.env.remote_dir, "refs/heads");
        let needs_objects = rrefs
            .values()
            .any(|h| self.jj_lacks.contains(&self.commits.num_hex(h)));
        let how;
        if self.real_other_push || needs_objects {
            git(&self.env.git_dir, &["fetch", "-q", "--prune", "--no-tags", "origin", "+refs/heads/*:refs/remotes/origin/*"])?;
            let par = self.env.par.clone();
            let mut stack: Vec<usize> = rrefs.values().map(|h| self.commits.num_hex(h)).filter(|&k| k <= par.len()).collect();
            while let Some(k) = stack.pop() {
                self.jj_lacks.retain(|&x| x != k);
                stack.extend(par[k - 1].iter().copied());
            }
            how = "git fetch";
        } else {
            for b in 1..=self.nb {
                match rrefs.get(&bname(b)) {
                    Some(hex) => self.env.jj_writer.update(&trackref(b), hex)?,
                    None => {
                        if read_ref(&self.env.git_dir, &trackref(b)).is_some() {
                            self.env.jj_writer.delete(&trackref(b))?;
                        }
                    }
                }
            }
            how = "refs copied with git update-ref";
        }
        // the import may abandon and rewrite commits: give it its own commit-timestamp second
        self.env.tick += 1;
        self.env.repo = reload_with_tick(&self.env.test_repo, self.env.tick);
        let mut tx = self.env.repo.start_transaction();
        let opts = import_options();
        let stats = git::import_refs(tx.repo_mut(), &opts)
            .block_on()
            .map_err(|e| format!("fetch import: {e}"))?;
        tx.repo_mut()
            .rebase_descendants()
            .block_on()
            .map_err(|e| format!("rebase_descendants: {e}"))?;
        let changed: Vec<String> = stats
            .changed_remote_bookmarks
            .iter()
            .map(|u| format!("{}@{}", u.symbol.name.as_str(), u.symbol.remote.as_str()))
            .collect();
        self.env.repo = tx.commit("fetch").block_on().map_err(|e| e.to_string())?;
        Ok(json!({"changed": changed, "how": how}))
    }

    /// what `jj git push --bookmark ...` does for the bookmarks in `set`
    fn push(&mut self, set: &[usize], rec: &mut Value) -> Result<(), String> {
        // many-refs dimension: every filler is moved (1 <-> 2) so that it is part of this push
        let nfill = self.env.fillers.len();
        let fill_new = if self.env.fill_cur == 1 { 2 } else { 1 };
        if nfill > 0 {
            let mut tx = self.env.repo.start_transaction();
            let t = RefTarget::normal(self.commits.id(fill_new).clone());
            for n in &self.env.fillers {
                tx.repo_mut().set_local_bookmark_target(n.as_str().as_ref(), t.clone());
            }
            self.env.repo = tx.commit("move fillers").block_on().map_err(|e| e.to_string())?;
        }
        rec["fillers"] = json!(nfill);
        rec["fill_ok"] = json!(true);
        let view = self.env.repo.view();
        let mut targets = GitPushRefTargets::default();
        let mut skipped: Vec<Value> = vec![];
        let mut asked: Vec<usize> = vec![];
        for &b in set {
            let n = bname(b);
            let name: &RefName = n.as_str().as_ref();
            let lr = LocalAndRemoteRef {
                local_target: view.get_local_bookmark(name),
                remote_ref: view.get_remote_bookmark(origin_sym(name)),
            };
            match classify_ref_push_action(lr) {
                RefPushAction::Update(diff) => {
                    targets.bookmarks.push((RefNameBuf::from(n.as_str()), diff));
                    asked.push(b);
                }
                other => skipped.push(json!([b, format!("{other:?}")])),
            }
        }
        for n in &self.env.fillers {
            let name: &RefName = n.as_str().as_ref();
            let lr = LocalAndRemoteRef {
                local_target: view.get_local_bookmark(name),
                remote_ref: view.get_remote_bookmark(origin_sym(name)),
            };
            if let RefPushAction::Update(diff) = classify_ref_push_action(lr) {
                targets.bookmarks.push((RefNameBuf::from(n.as_str()), diff));
            }
        }
        // the order `jj git push` passes them in: by name
        targets.bookmarks.sort_by(|a, b| a.0.cmp(&b.0));
        rec["asked"] = json!(asked);
        rec["skipped"] = json!(skipped);
        let idx = |full: &str| -> usize { (1..=self.nb).find(|&k| headref(k) == full).unwrap_or(99) };
        if targets.bookmarks.is_empty() {
            rec["pushed"] = json!([]);
            rec["rejected"] = json!([]);
            rec["remote_rejected"] = json!([]);
            rec["unexported"] = json!([]);
            rec["err"] = json!("");
            return Ok(());
        }
        let mut tx = self.env.repo.start_transaction();
        let r = git::push_refs(
            tx.repo_mut(),
            self.subprocess_options(),
            "origin".as_ref(),
            &targets,
            &mut NullCallback,
            &GitPushOptions::default(),
        );
        match r {
            Ok(stats) => {
                let mut pushed: Vec<usize> = stats.pushed.iter().map(|n| idx(n.as_str())).filter(|&k| k != 99).collect();
                let mut rejected: Vec<usize> = stats.rejected.iter().map(|(n, _)| idx(n.as_str())).filter(|&k| k != 99).collect();
                let mut rr: Vec<usize> = stats.remote_rejected.iter().map(|(n, _)| idx(n.as_str())).filter(|&k| k != 99).collect();
                let fill_pushed = stats
                    .pushed
                    .iter()
                    .filter(|n| n.as_str().strip_prefix("refs/heads/").is_some_and(|x| self.env.fillers.iter().any(|f| f == x)))
                    .count();
                rec["fill_pushed"] = json!(fill_pushed);
                pushed.sort();
                rejected.sort();
                rr.sort();
                rec["pushed"] = json!(pushed);
                rec["rejected"] = json!(rejected);
                rec["remote_rejected"] = json!(rr);
                rec["reasons"] = json!(stats.rejected.iter().map(|(n, r)| format!("{}: {:?}", n.as_str(), r)).collect::<Vec<_>>());
                rec["unexported"] = json!(stats.unexported_bookmarks.iter().map(|(s, r)| format!("{}: {r:?}", s.name.as_str())).collect::<Vec<_>>());
                rec["err"] = json!("");
                // the CLI commits the transaction whatever was rejected
                self.env.repo = tx.commit("push").block_on().map_err(|e| e.to_string())?;
            }
            Err(e) => {
                // the CLI drops the transaction on error
                rec["pushed"] = json!([]);
                rec["rejected"] = json!([]);
                rec["remote_rejected"] = json!([]);
                rec["unexported"] = json!([]);
                rec["err"] = json!(format!("{e}").lines().take(4).collect::<Vec<_>>().join(" | "));
                rec["fill_pushed"] = json!(0);
            }
        }
        if nfill > 0 {
            // every filler was in sync, so every filler must have gone through and be recorded
            let rrefs = list_refs(&self.env.remote_dir, "refs/heads");
            let want = self.commits.hex(fill_new);
            let view = self.env.repo.view();
            let ok = rec["fill_pushed"].as_u64() == Some(nfill as u64)
                && self.env.fillers.iter().all(|n| {
                    rrefs.get(n) == Some(&want)
                        && view.get_remote_bookmark(origin_sym(n.as_str().as_ref())).target.as_normal()
                            == Some(self.commits.id(fill_new))
                });
            rec["fill_ok"] = json!(ok);
            if ok {
                self.env.fill_cur = fill_new;
            } else {
                self.env.fill_broken = true;
            }
        }
        Ok(())
    }

    /// a plain import in a transaction that is never committed: after jj's own
    /// fetch/push its records must already describe its Git repository
    fn import_probe(&mut self) -> Result<bool, String> {
        let mut tx = self.env.repo.start_transaction();
        git::import_refs(tx.repo_mut(), &import_options())
            .block_on()
            .map_err(|e| format!("import probe: {e}"))?;
        Ok(tx.repo().has_changes())
    }

    fn step(&mut self, s: &Value) -> Value {
        let a = s["a"].as_str().unwrap_or("").to_string();
        let b = s["b"].as_u64().unwrap_or(0) as usize;
        let c = s["c"].as_u64().unwrap_or(0) as usize;
        let set = usizes(&s["set"]);
        let mut rec = json!({"op": a, "b": b, "c": c, "set": set});
        let r: Result<Result<(), String>, String> = catch(AssertUnwindSafe(|| -> Result<(), String> {
            match a.as_str() {
                "JjSet" => self.jj_set(b, RefTarget::normal(self.commits.id(c).clone()))?,
                "JjDelete" => self.jj_set(b, RefTarget::absent())?,
                "OtherSet" => {
                    if self.real_other_push || self.other_only.contains(&c) {
                        let spec = format!("+{}:{}", self.commits.hex(c), headref(b));
                        git(&self.env.other_dir, &["push", "-q", "origin", &spec])?;
                        // its whole ancestry is on the remote now
                        let par = self.env.par.clone();
                        let mut stack = vec![c];
                        while let Some(k) = stack.pop() {
                            self.other_only.retain(|&x| x != k);
                            stack.extend(par[k - 1].iter().copied());
                        }
                        rec["how"] = json!("git push");
                    } else {
                        let hex = self.commits.hex(c);
                        self.env.remote_writer.update(&headref(b), &hex)?;
                        rec["how"] = json!("git update-ref on the remote");
                    }
                }
                "OtherDelete" => {
                    if self.real_other_push {
                        let spec = format!(":{}", headref(b));
                        git(&self.env.other_dir, &["push", "-q", "origin", &spec])?;
                        rec["how"] = json!("git push");
                    } else {
                        self.env.remote_writer.delete(&headref(b))?;
                        rec["how"] = json!("git update-ref on the remote");
                    }
                }
                "Fetch" => {
                    let info = self.fetch()?;
                    rec["changed"] = info["changed"].clone();
                    rec["how"] = info["how"].clone();
                    rec["probe"] = json!(self.import_probe()?);
                }
                "Push" => {
                    self.push(&set, &mut rec)?;
                    rec["probe"] = json!(self.import_probe()?);
                }
                other => return Err(format!("harness: unknown action {other}")),
            }
            rec["post"] = self.project()?;
            Ok(())
        }));
        match r {
            Ok(Ok(())) => rec,
            // failures of the harness's own git plumbing are tool trouble, not behaviour of jj
            Ok(Err(e)) if e.starts_with("git update-ref --stdin") || e.starts_with("harness:") || e.starts_with("git [") => {
                json!({"op": "harness_error", "act": a, "b": b, "c": c, "set": set, "msg": e})
            }
            Ok(Err(e)) => json!({"op": "error", "act": a, "b": b, "c": c, "set": set, "msg": e}),
            Err(p) => json!({"op": "panic", "act": a, "b": b, "c": c, "set": set, "msg": p}),
        }
    }
}

fn same_state(exp: &Value, obs: &Value) -> bool {
    let mut ok = true;
    for f in ["local", "track", "remote"] {
        ok &= exp[f] == obs[f];
    }
    let mut k1 = usizes(&exp["known"]);
    let mut k2 = usizes(&obs["known"]);
    k1.sort();
    k2.sort();
    ok && k1 == k2
}

struct Runner {
    env: Option<Env>,
    case_no: usize,
    reuse: usize,
    real_other_push: bool,
    fill_every: usize,
}

impl Runner {
    fn env_for(&mut self, par: &[Vec<usize>]) -> Result<&mut Env, String> {
        let stale = match &self.env {
            Some(e) => e.par != par || e.cases >= self.reuse,
            None => true,
        };
        if stale {
            self.final_crosscheck()?;
            self.env = Some(Env::new(par)?);
        }
        Ok(self.env.as_mut().unwrap())
    }

    fn final_crosscheck(&mut self) -> Result<(), String> {
        if let Some(e) = &self.env {
            let cli = git_refs(&e.remote_dir, "refs/heads")?;
            let direct = list_refs(&e.remote_dir, "refs/heads");
            if cli != direct {
                return Err(format!("harness: remote ref files {direct:?} differ from git for-each-ref {cli:?}"));
            }
        }
        Ok(())
    }

    fn run_case(&mut self, out: &mut Vec<Value>, spec: &Value, src: &str) -> Result<(), String> {
        self.case_no += 1;
        let case_no = self.case_no;
        let par: Vec<Vec<usize>> = spec["par"].as_array().ok_or("case without par")?.iter().map(usizes).collect();
        let otheronly = usizes(&spec["otheronly"]);
        let nb = spec["nb"].as_u64().unwrap_or(2) as usize;
        if nb > MAX_BM {
            return Err("too many bookmarks".into());
        }
        let real = self.real_other_push;
        let nfill = spec["fill"]["n"].as_u64().unwrap_or(0) as usize;
        let place = spec["fill"]["place"].as_str().unwrap_or("after").to_string();
        let env = self.env_for(&par)?;
        let mut case = env.start(&otheronly, nb, real, nfill, &place)?;
        let init = case.project()?;
        out.push(json!({"op": "reset", "case": case_no, "par": par, "otheronly": otheronly, "nb": nb,
                         "fillers": nfill, "place": place, "src": src, "post": init}));
        for s in spec["steps"].as_array().ok_or("case without steps")? {
            let mut rec = case.step(s);
            if let Some(exp) = s.get("post") {
                rec["match"] = json!(rec.get("post").is_some_and(|p| same_state(exp, p)));
            }
            let stop = matches!(rec["op"].as_str(), Some("error") | Some("panic") | Some("harness_error"));
            out.push(rec);
            if stop {
                self.env = None;
                break;
            }
        }
        if self.env.as_ref().is_some_and(|e| e.fill_broken) {
            self.env = None;
        }
        Ok(())
    }

    fn run_random(&mut self, out: &mut Vec<Value>, rng: &mut Rng, max_steps: usize, nb: usize) -> Result<(), String> {
        self.case_no += 1;
        let case_no = self.case_no;
        let par = vec![vec![], vec![1], vec![2], vec![1], vec![4]];
        let otheronly: Vec<usize> = match rng.below(3) {
            0 => vec![],
            1 => vec![5],
            _ => vec![4, 5],
        };
        let n = par.len();
        let len = rng.range(3, max_steps);
        let real = self.real_other_push;
        // every `fill_every`-th history is pushed together with 70 or 140 filler bookmarks
        let (nfill, place) = if self.fill_every > 0 && case_no % self.fill_every == 0 {
            (*rng.pick(&[70usize, 140]), if rng.chance(3, 4) { "after" } else { "before" })
        } else {
            (0, "after")
        };
        let env = self.env_for(&par)?;
        let mut case = env.start(&otheronly, nb, real, nfill, place)?;
        let init = case.project()?;
        out.push(json!({"op": "reset", "case": case_no, "par": par, "otheronly": otheronly, "nb": nb,
                         "fillers": nfill, "place": place, "src": "rnd", "post": init}));
        let mut known = usizes(&init["known"]);
        let mut remote = usizes(&init["remote"]);
        let mut failed = false;
        for _ in 0..len {
            let b = if rng.chance(3, 4) { 1 } else { rng.range(1, nb) };
            let s = match rng.below(14) {
                0 | 1 | 2 => json!({"a": "JjSet", "b": b, "c": *rng.pick(&known)}),
                3 => json!({"a": "JjDelete", "b": b}),
                4 | 5 => json!({"a": "OtherSet", "b": b, "c": rng.range(1, n)}),
                6 if remote[b - 1] != 0 => json!({"a": "OtherDelete", "b": b}),
                6 | 7 | 8 => json!({"a": "Fetch"}),
                _ => {
                    let set: Vec<usize> = if rng.chance(1, 2) {
                        vec![b]
                    } else {
                        (1..=nb).filter(|_| rng.chance(2, 3)).collect()
                    };
                    let set = if set.is_empty() { vec![b] } else { set };
                    json!({"a": "Push", "set": set})
                }
            };
            let rec = case.step(&s);
            let stop = matches!(rec["op"].as_str(), Some("error") | Some("panic") | Some("harness_error"));
            if let Some(p) = rec.get("post") {
                known = usizes(&p["known"]);
                remote = usizes(&p["remote"]);
            }
            out.push(rec);
            if stop {
                failed = true;
                break;
            }
        }
        if failed || self.env.as_ref().is_some_and(|e| e.fill_broken) {
            self.env = None;
        }
        Ok(())
    }
}

pub fn run(opts: &Opts) -> Result<(), String> {
    quiet_panics();
    let mut out = Out::create(&opts.str("out", "/dev/stdout"))?;
    let mut runner = Runner {
        env: None,
        case_no: 0,
        reuse: opts.usize("reuse", 200),
        real_other_push: opts.str("otherpush", "real") == "real",
        fill_every: opts.usize("fillevery", 0),
    };
    if let Some(path) = opts.get("replay") {
        let (shard, of) = (opts.usize("shard", 0), opts.usize("of", 1));
        for (i, beh) in read_ndjson(path)?.iter().enumerate() {
            if i % of == shard {
                let mut buf = vec![];
                runner.run_case(&mut buf, beh, "tlc")?;
                if is_duplicate_commit_flake(&buf) {
                    runner.env = None;
                    runner.case_no -= 1;
                    buf.clear();
                    runner.run_case(&mut buf, beh, "tlc")?;
                }
                for r in &buf {
                    out.emit(r);
                }
            }
        }
    }
    let n = opts.usize("random", 0);
    if n > 0 {
        let mut rng = Rng::new(opts.u64("seed", 0));
        let max_steps = opts.usize("maxsteps", 10);
        let nb = opts.usize("nb", 2);
        for _ in 0..n {
            let saved = rng.clone();
            let mut buf = vec![];
            runner.run_random(&mut buf, &mut rng, max_steps, nb)?;
            if is_duplicate_commit_flake(&buf) {
                runner.env = None;
                runner.case_no -= 1;
                rng = saved;
                buf.clear();
                runner.run_random(&mut buf, &mut rng, max_steps, nb)?;
            }
            for r in &buf {
                out.emit(r);
            }
        }
    }
    runner.final_crosscheck()?;
    out.finish();
    Ok(())
}
