//! C45 (placeholder, filled in below)
use jjconf::util::Opts;
pub fn run(_opts: &Opts) -> Result<(), String> { Err("not yet".into()) }
