//! Shared helpers for the git group: hermetic `git` CLI, projection of jj
//! ref targets to the model vocabulary (commit numbers, 0 = absent).
use std::collections::BTreeMap;
use std::collections::HashMap;
use std::path::Path;
use std::process::Command;
use std::process::Stdio;
use std::sync::Arc;

use jj_lib::backend::CommitId;
use jj_lib::commit::Commit;
use jj_lib::git_backend::GitBackend;
use jj_lib::object_id::ObjectId as _;
use jj_lib::op_store::RefTarget;
use jj_lib::repo::MutableRepo;
use jj_lib::repo::ReadonlyRepo;
use jj_lib::repo::Repo as _;
use pollster::FutureExt as _;
use serde_json::Value;
use serde_json::json;
use testutils::CommitBuilderExt as _;

/// Process-wide hermetic environment for every `git` child process (ours and
/// the ones jj-lib spawns for push/fetch).
pub fn hermetic_env() {
    let envs = [
        ("GIT_CONFIG_GLOBAL", "/dev/null"),
        ("GIT_CONFIG_SYSTEM", "/dev/null"),
        ("GIT_CONFIG_NOSYSTEM", "1"),
        ("GIT_AUTHOR_NAME", "Verif"),
        ("GIT_AUTHOR_EMAIL", "verif@example.org"),
        ("GIT_AUTHOR_DATE", "2001-02-03T04:05:06+00:00"),
        ("GIT_COMMITTER_NAME", "Verif"),
        ("GIT_COMMITTER_EMAIL", "verif@example.org"),
        ("GIT_COMMITTER_DATE", "2001-02-03T04:05:06+00:00"),
        ("GIT_TERMINAL_PROMPT", "0"),
        ("LC_ALL", "C"),
    ];
    for (k, v) in envs {
        // SAFETY: called once at start-up, before any thread is spawned.
        unsafe { std::env::set_var(k, v) };
    }
    unsafe { std::env::remove_var("GIT_DIR") };
    unsafe { std::env::remove_var("GIT_WORK_TREE") };
}

/// Run `git` with `--git-dir dir` (or `-C dir` when `workdir`), return
/// (success, stdout, stderr).
pub fn git_raw(dir: &Path, workdir: bool, args: &[&str], stdin: Option<&[u8]>) -> (bool, Vec<u8>, String) {
    let mut cmd = Command::new("git");
    if workdir {
        cmd.arg("-C").arg(dir);
    } else {
        cmd.arg("--git-dir").arg(dir);
    }
    cmd.args(args).stdout(Stdio::piped()).stderr(Stdio::piped());
    cmd.stdin(if stdin.is_some() { Stdio::piped() } else { Stdio::null() });
    let mut child = cmd.spawn().expect("spawn git");
    if let Some(data) = stdin {
        use std::io::Write as _;
        let mut si = child.stdin.take().unwrap();
        si.write_all(data).unwrap();
        drop(si);
    }
    let out = child.wait_with_output().expect("wait git");
    (
        out.status.success(),
        out.stdout,
        String::from_utf8_lossy(&out.stderr).into_owned(),
    )
}

pub fn git(dir: &Path, args: &[&str]) -> Result<String, String> {
    let (ok, out, err) = git_raw(dir, false, args, None);
    if ok {
        Ok(String::from_utf8_lossy(&out).trim().to_string())
    } else {
        Err(format!("git {args:?} in {}: {err}", dir.display()))
    }
}

/// All refs under `prefix` as name (without prefix) -> hex id, read by the git CLI
/// (independent of gix, which jj uses).
pub fn git_refs(dir: &Path, prefix: &str) -> Result<BTreeMap<String, String>, String> {
    let out = git(dir, &["for-each-ref", "--format=%(refname) %(objectname)", prefix])?;
    let mut m = BTreeMap::new();
    for line in out.lines() {
        let (name, id) = line.split_once(' ').ok_or("bad for-each-ref line")?;
        let short = name.strip_prefix(prefix).unwrap_or(name).trim_start_matches('/');
        m.insert(short.to_string(), id.to_string());
    }
    Ok(m)
}

pub fn git_backend(repo: &Arc<ReadonlyRepo>) -> &GitBackend {
    repo.store().backend_impl().expect("git backend")
}

/// Mapping between model commit numbers (1..n) and real commit ids.
pub struct Commits {
    pub ids: Vec<CommitId>, // index k-1 -> id of commit k
    by_hex: HashMap<String, usize>,
}

impl Commits {
    pub fn new() -> Self {
        Self {
            ids: vec![],
            by_hex: HashMap::new(),
        }
    }
    pub fn push(&mut self, id: CommitId) {
        self.by_hex.insert(id.hex(), self.ids.len() + 1);
        self.ids.push(id);
    }
    pub fn id(&self, k: usize) -> &CommitId {
        &self.ids[k - 1]
    }
    pub fn hex(&self, k: usize) -> String {
        self.ids[k - 1].hex()
    }
    /// model number of a commit id; unknown ids map to 99 (never a model commit)
    pub fn num(&self, id: &CommitId) -> usize {
        self.by_hex.get(&id.hex()).copied().unwrap_or(99)
    }
    pub fn num_hex(&self, hex: &str) -> usize {
        self.by_hex.get(hex).copied().unwrap_or(99)
    }
    /// a ref target as the model's merge: interleaved adds/removes, 0 = absent
    pub fn target(&self, t: &RefTarget) -> Value {
        let v: Vec<usize> = t
            .as_merge()
            .iter()
            .map(|x| x.as_ref().map_or(0, |id| self.num(id)))
            .collect();
        json!(v)
    }
    /// a target that the model requires to be non-conflicted: its number, or
    /// 98 if it is (unexpectedly) conflicted
    pub fn single(&self, t: &RefTarget) -> usize {
        if t.has_conflict() {
            98
        } else {
            t.as_normal().map_or(0, |id| self.num(id))
        }
    }
}

/// Create jj commits for a parent table (par[k-1] = parents of commit k as
/// model numbers; empty = child of the root), skipping numbers in `skip`
/// (those are created on the Git side).  Returns the commits in order.
pub fn create_jj_commit(mut_repo: &mut MutableRepo, commits: &Commits, parents: &[usize], k: usize) -> Commit {
    let pids: Vec<CommitId> = if parents.is_empty() {
        vec![mut_repo.store().root_commit_id().clone()]
    } else {
        parents.iter().map(|&p| commits.id(p).clone()).collect()
    };
    testutils::create_random_commit(mut_repo)
        .set_parents(pids)
        .set_description(format!("c{k}"))
        .write_unwrap()
}

/// Create a commit directly in the Git object store (jj does not know it).
/// `tag` makes the commit unique; it is anchored under refs/verif/ (a
/// namespace jj's import ignores) so that it cannot be garbage collected.
pub fn create_git_commit(git_repo: &gix::Repository, commits: &Commits, parents: &[usize], tag: &str) -> Result<CommitId, String> {
    let tree = git_repo.empty_tree().id().detach();
    let ps: Vec<gix::ObjectId> = parents
        .iter()
        .map(|&p| gix::ObjectId::from_bytes_or_panic(commits.id(p).as_bytes()))
        .collect();
    let oid = testutils::git::write_commit(git_repo, &format!("refs/verif/{tag}"), tree, &format!("git-side commit {tag}"), &ps);
    Ok(CommitId::from_bytes(oid.as_bytes()))
}

/// Read a ref the way any Git implementation stores it (loose file, else
/// packed-refs) without going through gix (which jj uses) and without
/// spawning a process.  `RefWriter::verify` has the real git confirm it.
pub fn read_ref(git_dir: &Path, full_name: &str) -> Option<String> {
    if let Ok(s) = std::fs::read_to_string(git_dir.join(full_name)) {
        let s = s.trim();
        if s.len() >= 40 && !s.starts_with("ref:") {
            return Some(s.to_string());
        }
    }
    if let Ok(packed) = std::fs::read_to_string(git_dir.join("packed-refs")) {
        for line in packed.lines() {
            if let Some((id, name)) = line.split_once(' ')
                && name == full_name
            {
                return Some(id.to_string());
            }
        }
    }
    None
}

/// All refs under `prefix` (e.g. "refs/heads") as short name -> hex, read
/// from the loose files and packed-refs.
pub fn list_refs(git_dir: &Path, prefix: &str) -> BTreeMap<String, String> {
    fn walk(dir: &Path, rel: &str, out: &mut BTreeMap<String, String>) {
        let Ok(rd) = std::fs::read_dir(dir) else { return };
        for e in rd.flatten() {
            let name = e.file_name().to_string_lossy().into_owned();
            let r = if rel.is_empty() { name.clone() } else { format!("{rel}/{name}") };
            let p = e.path();
            if p.is_dir() {
                walk(&p, &r, out);
            } else if let Ok(s) = std::fs::read_to_string(&p) {
                let s = s.trim();
                if s.len() >= 40 && !name.ends_with(".lock") {
                    out.insert(r, s.to_string());
                }
            }
        }
    }
    let mut out = BTreeMap::new();
    if let Ok(packed) = std::fs::read_to_string(git_dir.join("packed-refs")) {
        for line in packed.lines() {
            if let Some((id, name)) = line.split_once(' ')
                && let Some(short) = name.strip_prefix(prefix).and_then(|x| x.strip_prefix('/'))
            {
                out.insert(short.to_string(), id.to_string());
            }
        }
    }
    let mut loose = BTreeMap::new();
    walk(&git_dir.join(prefix), "", &mut loose);
    out.extend(loose);
    out
}

/// A long-lived `git update-ref --stdin` child: every Git-side ref edit of a
/// case is performed by the real git, one transaction per edit, without
/// paying a process spawn each time.
pub struct RefWriter {
    child: std::process::Child,
    stdin: std::process::ChildStdin,
    stdout: std::io::BufReader<std::process::ChildStdout>,
}

impl RefWriter {
    pub fn new(git_dir: &Path) -> Result<Self, String> {
        let mut child = Command::new("git")
            .arg("--git-dir")
            .arg(git_dir)
            .args(["update-ref", "--stdin"])
            .stdin(Stdio::piped())
            .stdout(Stdio::piped())
            .stderr(Stdio::piped())
            .spawn()
            .map_err(|e| format!("spawn git update-ref: {e}"))?;
        let stdin = child.stdin.take().unwrap();
        let stdout = std::io::BufReader::new(child.stdout.take().unwrap());
        Ok(Self { child, stdin, stdout })
    }

    fn expect(&mut self, what: &str) -> Result<(), String> {
        use std::io::BufRead as _;
        let mut line = String::new();
        self.stdout.read_line(&mut line).map_err(|e| e.to_string())?;
        if line.trim() == what {
            Ok(())
        } else {
            let mut err = String::new();
            if let Some(mut e) = self.child.stderr.take() {
                use std::io::Read as _;
                let _ = self.child.kill();
                let _ = e.read_to_string(&mut err);
            }
            Err(format!("git update-ref --stdin: expected '{what}', got '{}' {err}", line.trim()))
        }
    }

    /// one transaction: the given commands (without trailing newline)
    pub fn transact(&mut self, cmds: &[String]) -> Result<(), String> {
        use std::io::Write as _;
        let mut text = String::from("start\n");
        for c in cmds {
            text.push_str(c);
            text.push('\n');
        }
        text.push_str("commit\n");
        self.stdin.write_all(text.as_bytes()).map_err(|e| e.to_string())?;
        self.stdin.flush().map_err(|e| e.to_string())?;
        self.expect("start: ok")?;
        self.expect("commit: ok")
    }

    pub fn update(&mut self, full_name: &str, hex: &str) -> Result<(), String> {
        self.transact(&[format!("update {full_name} {hex}")])
    }

    pub fn delete(&mut self, full_name: &str) -> Result<(), String> {
        self.transact(&[format!("delete {full_name}")])
    }

    /// have git confirm that each ref currently has the given value (None = absent)
    pub fn verify(&mut self, refs: &[(String, Option<String>)]) -> Result<(), String> {
        let zero = "0".repeat(40);
        let cmds: Vec<String> = refs
            .iter()
            .map(|(n, v)| format!("verify {n} {}", v.as_deref().unwrap_or(&zero)))
            .collect();
        self.transact(&cmds)
    }
}

impl Drop for RefWriter {
    fn drop(&mut self) {
        let _ = self.child.kill();
        let _ = self.child.wait();
    }
}

pub fn has_id(repo: &dyn jj_lib::repo::Repo, id: &CommitId) -> bool {
    repo.index().has_id(id).block_on().unwrap_or(false)
}

pub fn usizes(v: &Value) -> Vec<usize> {
    v.as_array()
        .map(|a| a.iter().map(|x| x.as_u64().unwrap_or(0) as usize).collect())
        .unwrap_or_default()
}

/// Reload the repository with settings whose commit timestamp is pinned to a
/// value unique to `tick`.  jj stamps every rewritten commit with "now", Git
/// keeps seconds only, and one repository serves many cases: without this,
/// the same commit rebased onto the same parent twice within one second is
/// bit-identical to the first rewrite and jj-lib refuses it ("Newly-created
/// commit ... already exists").  That is an artefact of replaying histories
/// at machine speed, not behaviour under test.
pub fn reload_with_tick(test_repo: &testutils::TestRepo, tick: u64) -> Arc<ReadonlyRepo> {
    use jj_lib::config::ConfigLayer;
    use jj_lib::config::ConfigSource;
    let secs = 1_000_000_000u64 + tick; // 2001-09-09 + tick seconds
    let dt = chrono::DateTime::<chrono::Utc>::from_timestamp(secs as i64, 0).expect("valid timestamp");
    let text = format!("debug.commit-timestamp = {}\n", dt.format("%Y-%m-%dT%H:%M:%S+00:00"));
    let mut config = testutils::base_user_config();
    config.add_layer(ConfigLayer::parse(ConfigSource::User, &text).expect("valid config"));
    let settings = jj_lib::settings::UserSettings::from_config(config).expect("valid settings");
    test_repo.env.load_repo_at_head(&settings, test_repo.repo_path())
}

/// a case that ended on jj-lib's duplicate-commit refusal (see reload_with_tick)
pub fn is_duplicate_commit_flake(recs: &[Value]) -> bool {
    recs.last().is_some_and(|r| {
        r["op"] == "error" && r["msg"].as_str().is_some_and(|m| m.contains("already exists"))
    })
}
