//! C34 replayer / recorder (spec/GitSync.tla).
//!
//! A case = a commit graph + a sequence of model actions.  Actions are
//! performed on a Git-backed TestRepo: jj-side edits through MutableRepo,
//! Git-side edits by the real git (`git update-ref --stdin`, one transaction
//! per edit), Import / Export through jj_lib::git::{import_refs, export_refs}.
//! After every action the real state is projected to the model's variables
//! (Git refs are read from the ref files and confirmed by git's `verify`) and
//! logged.  One repository serves many cases: between cases every model ref is
//! removed on both sides and the "reset" record carries the projection, which
//! the judge requires to be the initial state.
use std::collections::BTreeSet;
use std::collections::HashMap;
use std::panic::AssertUnwindSafe;
use std::path::PathBuf;
use std::sync::Arc;

use jj_lib::git;
use jj_lib::git::GitImportOptions;
use jj_lib::op_store::RefTarget;
use jj_lib::op_store::RemoteRef;
use jj_lib::op_store::RemoteRefState;
use jj_lib::ref_name::RefName;
use jj_lib::ref_name::RemoteRefSymbol;
use jj_lib::repo::ReadonlyRepo;
use jj_lib::repo::Repo;
use jjconf::util::Opts;
use jjconf::util::Out;
use jjconf::util::Rng;
use jjconf::util::catch;
use jjconf::util::quiet_panics;
use jjconf::util::read_ndjson;
use pollster::FutureExt as _;
use serde_json::Value;
use serde_json::json;
use testutils::TestRepo;
use testutils::TestRepoBackend;

use crate::common::Commits;
use crate::common::RefWriter;
use crate::common::create_git_commit;
use crate::common::create_jj_commit;
use crate::common::git_backend;
use crate::common::git_refs;
use crate::common::has_id;
use crate::common::is_duplicate_commit_flake;
use crate::common::reload_with_tick;
use crate::common::list_refs;
use crate::common::usizes;

const MAX_BM: usize = 3;

fn bname(b: usize) -> String {
    format!("bk{b}")
}
fn refname(b: usize) -> String {
    format!("refs/heads/bk{b}")
}

/// A repository that serves many cases over the same jj-side commit graph.
struct Env {
    test_repo: TestRepo,
    /// counter behind the pinned commit timestamp (common::reload_with_tick)
    tick: u64,
    repo: Arc<ReadonlyRepo>,
    git_dir: PathBuf,
    writer: RefWriter,
    par: Vec<Vec<usize>>,
    /// ids of the commits created through jj (None for numbers that are
    /// Git-only in some case: those are created per case)
    jj_ids: Vec<Option<jj_lib::backend::CommitId>>,
    cases: usize,
}

struct Case<'a> {
    env: &'a mut Env,
    commits: Commits,
    nb: usize,
    abandon: bool,
}

fn import_options(abandon: bool) -> GitImportOptions {
    GitImportOptions {
        abandon_unreachable_commits: abandon,
        record_synthetic_predecessors: abandon,
        remote_auto_track_bookmarks: HashMap::new(),
    }
}

impl Env {
    fn new(par: &[Vec<usize>]) -> Result<Self, String> {
        let test_repo = TestRepo::init_with_backend(TestRepoBackend::Git);
        let repo = test_repo.repo.clone();
        let git_dir = git_backend(&repo).git_repo_path().to_owned();
        let writer = RefWriter::new(&git_dir)?;
        Ok(Self {
            test_repo,
            tick: 0,
            repo,
            git_dir,
            writer,
            par: par.to_vec(),
            jj_ids: vec![None; par.len()],
            cases: 0,
        })
    }

    /// Start a case: make sure the jj-side commits exist, create this case's
    /// Git-only commits, wipe every model ref on both sides.
    fn start(&mut self, gitonly: &[usize], nb: usize, abandon: bool) -> Result<Case<'_>, String> {
        self.cases += 1;
        let mut commits = Commits::new();
        let git_repo = git_backend(&self.repo).git_repo();
        let mut tx = self.repo.start_transaction();
        let mut created = false;
        for (i, ps) in self.par.clone().iter().enumerate() {
            let k = i + 1;
            if gitonly.contains(&k) {
                let id = create_git_commit(&git_repo, &commits, ps, &format!("case{}-c{k}", self.cases))?;
                commits.push(id);
            } else {
                if ps.iter().any(|p| gitonly.contains(p)) {
                    return Err("jj commit with a git-only parent".into());
                }
                if self.jj_ids[i].is_none() {
                    let c = create_jj_commit(tx.repo_mut(), &commits, ps, k);
                    self.jj_ids[i] = Some(c.id().clone());
                    created = true;
                }
                commits.push(self.jj_ids[i].clone().unwrap());
            }
        }
        // wipe: Git refs by git, jj's three records directly in the view
        for b in 1..=MAX_BM {
            if crate::common::read_ref(&self.git_dir, &refname(b)).is_some() {
                self.writer.delete(&refname(b))?;
            }
            let n = bname(b);
            let name: &RefName = n.as_str().as_ref();
            let m = tx.repo_mut();
            let dirty = m.view().get_local_bookmark(name).is_present()
                || m.view().get_git_ref(refname(b).as_str().as_ref()).is_present()
                || m.view()
                    .get_remote_bookmark(RemoteRefSymbol { name, remote: "git".as_ref() })
                    .is_present();
            if dirty {
                created = true;
                m.set_local_bookmark_target(name, RefTarget::absent());
                m.set_git_ref_target(refname(b).as_str().as_ref(), RefTarget::absent());
                m.set_remote_bookmark(
                    RemoteRefSymbol { name, remote: "git".as_ref() },
                    RemoteRef { target: RefTarget::absent(), state: RemoteRefState::New },
                );
            }
        }
        if created {
            self.repo = tx.commit("case setup").block_on().map_err(|e| e.to_string())?;
        }
        Ok(Case { env: self, commits, nb, abandon })
    }
}

impl Case<'_> {
    /// the model's variables, read from the real repo / the real Git refs
    fn project(&mut self) -> Result<Value, String> {
        let repo = self.env.repo.clone();
        self.project_repo(repo.as_ref())
    }

    fn project_repo(&mut self, repo: &dyn Repo) -> Result<Value, String> {
        let view = repo.view();
        let mut local = vec![];
        let mut seen = vec![];
        let mut atgit = vec![];
        let mut gitv = vec![];
        let refs = list_refs(&self.env.git_dir, "refs/heads");
        let mut extra: BTreeSet<String> = BTreeSet::new();
        let names: Vec<String> = (1..=self.nb).map(bname).collect();
        let mut to_verify = vec![];
        for (i, n) in names.iter().enumerate() {
            let name: &RefName = n.as_str().as_ref();
            local.push(self.commits.target(view.get_local_bookmark(name)));
            let full = refname(i + 1);
            seen.push(self.commits.single(view.get_git_ref(full.as_str().as_ref())));
            let sym = RemoteRefSymbol { name, remote: "git".as_ref() };
            atgit.push(self.commits.single(&view.get_remote_bookmark(sym).target));
            gitv.push(refs.get(n).map_or(0, |hex| self.commits.num_hex(hex)));
            to_verify.push((full, refs.get(n).cloned()));
        }
        // the real git confirms what we read from the ref files
        self.env.writer.verify(&to_verify)?;
        // anything outside the model's names is reported (must stay empty)
        for (n, _) in view.local_bookmarks() {
            if !names.iter().any(|x| x == n.as_str()) {
                extra.insert(format!("local:{}", n.as_str()));
            }
        }
        for n in refs.keys() {
            if !names.contains(n) {
                extra.insert(format!("git:{n}"));
            }
        }
        for (n, _) in view.git_refs() {
            let s = n.as_str();
            if !names.iter().any(|x| format!("refs/heads/{x}") == s) {
                extra.insert(format!("seen:{s}"));
            }
        }
        let known: Vec<usize> = (1..=self.commits.ids.len())
            .filter(|&k| has_id(repo, self.commits.id(k)))
            .collect();
        Ok(json!({"local": local, "seen": seen, "atgit": atgit, "git": gitv, "known": known,
                  "extra": extra.into_iter().collect::<Vec<_>>()}))
    }

    fn jj_set(&mut self, b: usize, target: RefTarget) -> Result<(), String> {
        let mut tx = self.env.repo.start_transaction();
        tx.repo_mut()
            .set_local_bookmark_target(bname(b).as_str().as_ref(), target);
        self.env.repo = tx.commit("jj set").block_on().map_err(|e| e.to_string())?;
        Ok(())
    }

    /// Import in a transaction; returns (bookmarks changed per the stats,
    /// info, projection of the transaction's view)
    fn import(&mut self, commit: bool) -> Result<(Vec<usize>, Value, Value), String> {
        if self.abandon {
            // every import that may rewrite commits stamps them with its own second
            self.env.tick += 1;
            self.env.repo = reload_with_tick(&self.env.test_repo, self.env.tick);
        }
        let mut tx = self.env.repo.start_transaction();
        let opts = import_options(self.abandon);
        let stats = git::import_refs(tx.repo_mut(), &opts)
            .block_on()
            .map_err(|e| format!("import_refs: {e}"))?;
        if self.abandon {
            tx.repo_mut()
                .rebase_descendants()
                .block_on()
                .map_err(|e| format!("rebase_descendants: {e}"))?;
        }
        let mut changed: Vec<usize> = vec![];
        for u in &stats.changed_remote_bookmarks {
            let n = u.symbol.name.as_str();
            let k = (1..=self.nb).find(|&k| bname(k) == n).unwrap_or(99);
            changed.push(k);
        }
        changed.sort();
        let failed: Vec<String> = stats.failed_ref_names.iter().map(|n| n.to_string()).collect();
        let has_changes = tx.repo().has_changes();
        let post = self.project_repo(tx.repo())?;
        if commit {
            self.env.repo = tx.commit("import").block_on().map_err(|e| e.to_string())?;
        }
        Ok((
            changed,
            json!({"has_changes": has_changes, "failed_refs": failed,
                   "abandoned": stats.abandoned_commits.len()}),
            post,
        ))
    }

    fn export(&mut self) -> Result<Value, String> {
        let mut tx = self.env.repo.start_transaction();
        let stats = git::export_refs(tx.repo_mut()).map_err(|e| format!("export_refs: {e}"))?;
        let mut failed: Vec<usize> = vec![];
        let mut reasons: Vec<String> = vec![];
        for (sym, reason) in &stats.failed_bookmarks {
            let n = sym.name.as_str();
            failed.push((1..=self.nb).find(|&k| bname(k) == n).unwrap_or(99));
            reasons.push(format!("{n}@{}: {reason:?}", sym.remote.as_str()));
        }
        failed.sort();
        self.env.repo = tx.commit("export").block_on().map_err(|e| e.to_string())?;
        Ok(json!({"failed": failed, "reasons": reasons}))
    }

    /// Perform one model action; returns the trace record.
    fn step(&mut self, s: &Value) -> Value {
        let a = s["a"].as_str().unwrap_or("").to_string();
        let b = s["b"].as_u64().unwrap_or(0) as usize;
        let c = s["c"].as_u64().unwrap_or(0) as usize;
        let mut rec = json!({"op": a, "b": b, "c": c});
        let r: Result<Result<(), String>, String> = catch(AssertUnwindSafe(|| -> Result<(), String> {
            match a.as_str() {
                "JjSet" => self.jj_set(b, RefTarget::normal(self.commits.id(c).clone()))?,
                "JjDelete" => self.jj_set(b, RefTarget::absent())?,
                "GitSet" => {
                    let hex = self.commits.hex(c);
                    self.env.writer.update(&refname(b), &hex)?;
                }
                "GitDelete" => self.env.writer.delete(&refname(b))?,
                "Import" => {
                    let (changed, info, _) = self.import(true)?;
                    rec["changed"] = json!(changed);
                    rec["info"] = info;
                    rec["post"] = self.project()?;
                    // idempotence probe: a second import in a transaction that is never committed
                    let (changed2, info2, post2) = self.import(false)?;
                    rec["changed2"] = json!(changed2);
                    rec["info2"] = info2;
                    rec["post2"] = post2;
                }
                "Export" => {
                    let info = self.export()?;
                    rec["failed"] = info["failed"].clone();
                    rec["reasons"] = info["reasons"].clone();
                }
                other => return Err(format!("harness: unknown action {other}")),
            }
            if rec.get("post").is_none() {
                rec["post"] = self.project()?;
            }
            Ok(())
        }));
        match r {
            Ok(Ok(())) => rec,
            // failures of the harness's own git plumbing are tool trouble, not behaviour of jj
            Ok(Err(e)) if e.starts_with("git update-ref --stdin") || e.starts_with("harness:") || e.starts_with("git [") => {
                json!({"op": "harness_error", "act": a, "b": b, "c": c, "msg": e})
            }
            Ok(Err(e)) => json!({"op": "error", "act": a, "b": b, "c": c, "msg": e}),
            Err(p) => json!({"op": "panic", "act": a, "b": b, "c": c, "msg": p}),
        }
    }
}

/// normalised equality of an expected (TLC) and an observed projection
fn same_state(exp: &Value, obs: &Value) -> bool {
    let mut ok = true;
    for f in ["local", "seen", "atgit", "git"] {
        ok &= exp[f] == obs[f];
    }
    let mut k1 = usizes(&exp["known"]);
    let mut k2 = usizes(&obs["known"]);
    k1.sort();
    k2.sort();
    ok && k1 == k2
}

struct Runner {
    env: Option<Env>,
    case_no: usize,
    reuse: usize,
}

impl Runner {
    /// an Env for this parent table (a fresh repository every `reuse` cases)
    fn env_for(&mut self, par: &[Vec<usize>]) -> Result<&mut Env, String> {
        let stale = match &self.env {
            Some(e) => e.par != par || e.cases >= self.reuse,
            None => true,
        };
        if stale {
            self.final_crosscheck()?;
            self.env = Some(Env::new(par)?);
        }
        Ok(self.env.as_mut().unwrap())
    }

    /// one spawn of the real `git for-each-ref` per repository: what git lists
    /// is what the harness has been reading from the ref files
    fn final_crosscheck(&mut self) -> Result<(), String> {
        if let Some(e) = &self.env {
            let cli = git_refs(&e.git_dir, "refs/heads")?;
            let direct = list_refs(&e.git_dir, "refs/heads");
            if cli != direct {
                return Err(format!("harness: ref files {direct:?} differ from git for-each-ref {cli:?}"));
            }
        }
        Ok(())
    }

    fn run_case(&mut self, out: &mut Vec<Value>, spec: &Value, src: &str) -> Result<(), String> {
        self.case_no += 1;
        let case_no = self.case_no;
        let par: Vec<Vec<usize>> = spec["par"].as_array().ok_or("case without par")?.iter().map(usizes).collect();
        let gitonly = usizes(&spec["gitonly"]);
        let nb = spec["nb"].as_u64().unwrap_or(2) as usize;
        if nb > MAX_BM {
            return Err("too many bookmarks".into());
        }
        let abandon = spec["abandon"].as_bool().unwrap_or(false);
        let env = self.env_for(&par)?;
        let mut case = env.start(&gitonly, nb, abandon)?;
        let init = case.project()?;
        out.push(json!({"op": "reset", "case": case_no, "par": par, "gitonly": gitonly, "nb": nb,
                         "abandon": abandon, "src": src, "post": init}));
        for s in spec["steps"].as_array().ok_or("case without steps")? {
            let mut rec = case.step(s);
            if let Some(exp) = s.get("post") {
                rec["match"] = json!(rec.get("post").is_some_and(|p| same_state(exp, p)));
            }
            let stop = matches!(rec["op"].as_str(), Some("error") | Some("panic") | Some("harness_error"));
            out.push(rec);
            if stop {
                self.env = None; // do not reuse a repository after a failure
                break;
            }
        }
        Ok(())
    }

    /// the random driver (I->S): chain 1-2-3, fork 4 from 1, 5 child of 4,
    /// optionally with 4/5 existing only on the Git side
    fn run_random(&mut self, out: &mut Vec<Value>, rng: &mut Rng, max_steps: usize, nb: usize) -> Result<(), String> {
        self.case_no += 1;
        let case_no = self.case_no;
        let par = vec![vec![], vec![1], vec![2], vec![1], vec![4]];
        let gitonly: Vec<usize> = match rng.below(3) {
            0 => vec![],
            1 => vec![5],
            _ => vec![4, 5],
        };
        let n = par.len();
        let abandon = rng.chance(1, 2);
        let len = rng.range(2, max_steps);
        let env = self.env_for(&par)?;
        let mut case = env.start(&gitonly, nb, abandon)?;
        let init = case.project()?;
        out.push(json!({"op": "reset", "case": case_no, "par": par, "gitonly": gitonly, "nb": nb,
                         "abandon": abandon, "src": "rnd", "post": init}));
        let mut known: Vec<usize> = usizes(&init["known"]);
        let mut gitv: Vec<usize> = usizes(&init["git"]);
        let mut failed = false;
        for _ in 0..len {
            // a case concentrates on one bookmark so that both sides collide often
            let b = if rng.chance(3, 4) { 1 } else { rng.range(1, nb) };
            let s = match rng.below(12) {
                0 | 1 | 2 => json!({"a": "JjSet", "b": b, "c": *rng.pick(&known)}),
                3 => json!({"a": "JjDelete", "b": b}),
                4 | 5 | 6 => json!({"a": "GitSet", "b": b, "c": rng.range(1, n)}),
                7 if gitv[b - 1] != 0 => json!({"a": "GitDelete", "b": b}),
                7 | 8 | 9 => json!({"a": "Import"}),
                _ => json!({"a": "Export"}),
            };
            let rec = case.step(&s);
            let stop = matches!(rec["op"].as_str(), Some("error") | Some("panic") | Some("harness_error"));
            if let Some(p) = rec.get("post") {
                known = usizes(&p["known"]);
                gitv = usizes(&p["git"]);
            }
            out.push(rec);
            if stop {
                failed = true;
                break;
            }
        }
        if failed {
            self.env = None;
        }
        Ok(())
    }
}

pub fn run(opts: &Opts) -> Result<(), String> {
    quiet_panics();
    let mut out = Out::create(&opts.str("out", "/dev/stdout"))?;
    let mut runner = Runner { env: None, case_no: 0, reuse: opts.usize("reuse", 200) };
    if let Some(path) = opts.get("replay") {
        // --shard i --of k: this process replays behaviours i, i+k, ...
        let (shard, of) = (opts.usize("shard", 0), opts.usize("of", 1));
        for (i, beh) in read_ndjson(path)?.iter().enumerate() {
            if i % of == shard {
                let mut buf = vec![];
                runner.run_case(&mut buf, beh, "tlc")?;
                if is_duplicate_commit_flake(&buf) {
                    // artefact of replay speed: once more in a fresh repository; reported only if it repeats
                    runner.env = None;
                    runner.case_no -= 1;
                    buf.clear();
                    runner.run_case(&mut buf, beh, "tlc")?;
                }
                for r in &buf {
                    out.emit(r);
                }
            }
        }
    }
    let n = opts.usize("random", 0);
    if n > 0 {
        let mut rng = Rng::new(opts.u64("seed", 0));
        let max_steps = opts.usize("maxsteps", 10);
        let nb = opts.usize("nb", 3);
        for _ in 0..n {
            let saved = rng.clone();
            let mut buf = vec![];
            runner.run_random(&mut buf, &mut rng, max_steps, nb)?;
            if is_duplicate_commit_flake(&buf) {
                runner.env = None;
                runner.case_no -= 1;
                rng = saved;
                buf.clear();
                runner.run_random(&mut buf, &mut rng, max_steps, nb)?;
            }
            for r in &buf {
                out.emit(r);
            }
        }
    }
    runner.final_crosscheck()?;
    out.finish();
    Ok(())
}
