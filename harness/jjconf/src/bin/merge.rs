//! `merge` binary: C01/C02 recorder (spec/MergeAlgebra.tla).
use std::process::ExitCode;

use jjconf::util;

#[path = "../m_merge.rs"]
mod m_merge;

fn main() -> ExitCode {
    let args: Vec<String> = std::env::args().collect();
    if args.len() < 2 {
        eprintln!("usage: merge <mode> [--key value]...");
        return ExitCode::from(2);
    }
    let opts = util::Opts::parse(&args[2..]);
    match m_merge::run(&args[1], &opts) {
        Ok(()) => ExitCode::SUCCESS,
        Err(e) => {
            eprintln!("merge: {e}");
            ExitCode::from(2)
        }
    }
}
