//! `stable` binary: C21 binding (spec/StackedTable.tla).
//!
//! Executes scripts of writer operations (gethead / put / save / reload) on a
//! real on-disk `TableStore`, each writer with its own `TableStore::load`
//! instance and a possibly stale table, and logs after every operation what
//! the real tables answer.  Scripts come from TLC (behaviours of
//! MC_StackedTable) or from a seeded random driver.  TLC (Trace_StackedTable)
//! judges the log.
use std::collections::BTreeMap;
use std::collections::HashMap;
use std::path::Path;
use std::process::ExitCode;
use std::sync::Arc;

use jj_lib::stacked_table::MutableTable;
use jj_lib::stacked_table::ReadonlyTable;
use jj_lib::stacked_table::TableSegment as _;
use jj_lib::stacked_table::TableStore;
use jjconf::util::Opts;
use jjconf::util::Out;
use jjconf::util::Rng;
use jjconf::util::catch;
use jjconf::util::read_ndjson;
use serde_json::Value;
use serde_json::json;

const KEY_SIZE: usize = 2;

fn key(k: u64) -> Vec<u8> {
    vec![b'k', k as u8]
}
fn enc(v: u64) -> Vec<u8> {
    v.to_string().into_bytes()
}
fn dec(b: Option<&[u8]>) -> u64 {
    b.map_or(0, |b| std::str::from_utf8(b).unwrap().parse().unwrap())
}

struct Writer {
    store: TableStore,
    table: Option<Arc<ReadonlyTable>>,
    pending: Option<MutableTable>,
    puts: BTreeMap<u64, u64>,
}

struct Names(HashMap<String, usize>);
impl Names {
    fn get(&mut self, n: &str) -> usize {
        let l = self.0.len() + 1;
        *self.0.entry(n.to_string()).or_insert(l)
    }
}

fn list_heads(dir: &Path, names: &mut Names) -> Vec<usize> {
    // same call the store itself makes; the listing order of an unchanged
    // directory is stable, so this is the order get_head_tables() will see
    std::fs::read_dir(dir.join("heads"))
        .unwrap()
        .filter_map(|e| e.ok())
        .filter_map(|e| e.file_name().into_string().ok())
        .map(|n| names.get(&n))
        .collect()
}

fn lookups(t: &ReadonlyTable, nkeys: u64) -> Vec<u64> {
    (1..=nkeys).map(|k| dec(t.get_value(&key(k)))).collect()
}
fn locals(t: &ReadonlyTable, nkeys: u64) -> Vec<u64> {
    (1..=nkeys).map(|k| dec(t.segment_get_value(&key(k)))).collect()
}
/// the segment stack of a table, newest first: [name, local entry count, local value per key]
fn chain(t: &Arc<ReadonlyTable>, names: &mut Names, nkeys: u64) -> Vec<Value> {
    t.ancestor_segments()
        .map(|s| json!([names.get(s.name()), s.segment_num_entries(), locals(s, nkeys)]))
        .collect()
}

fn run_script(script: &[Value], nkeys: u64, nwriters: usize, case_no: usize, out: &mut Out) {
    let dir = tempfile::tempdir().unwrap();
    TableStore::init(dir.path().to_path_buf(), KEY_SIZE);
    let mut names = Names(HashMap::new());
    let mut tables: HashMap<usize, Arc<ReadonlyTable>> = HashMap::new();
    let mut writers: Vec<Writer> = (0..nwriters)
        .map(|_| Writer { store: TableStore::load(dir.path().to_path_buf(), KEY_SIZE), table: None, pending: None, puts: BTreeMap::new() })
        .collect();
    out.emit(&json!({"op":"reset","case":case_no,"nkeys":nkeys,"writers":nwriters}));
    for step in script {
        let op = step["op"].as_str().unwrap();
        let w = step["w"].as_u64().unwrap() as usize;
        let wr = &mut writers[w - 1];
        match op {
            "gethead" | "reload" => {
                if op == "reload" {
                    wr.store = TableStore::load(dir.path().to_path_buf(), KEY_SIZE);
                }
                let order = list_heads(dir.path(), &mut names);
                let store = &wr.store;
                let r = catch(std::panic::AssertUnwindSafe(|| store.get_head()));
                match r {
                    Ok(Ok(t)) => {
                        let heads_after = list_heads(dir.path(), &mut names);
                        let first_chain = order.first().and_then(|n| tables.get(n)).map(|t| chain(t, &mut names, nkeys)).unwrap_or_default();
                        // the segment stacks of all listed heads, in listing order (empty if unknown)
                        let chains: Vec<Vec<Value>> = order.iter().map(|n| tables.get(n).cloned()).map(|t| t.map(|t| chain(&t, &mut names, nkeys)).unwrap_or_default()).collect();
                        tables.insert(names.get(t.name()), t.clone());
                        out.emit(&json!({"op":"gethead","w":w,"fresh":op == "reload","order":order,"first_chain":first_chain,"chains":chains,
                            "name":names.get(t.name()),"vals":lookups(&t, nkeys),"chain":chain(&t, &mut names, nkeys),
                            "heads":heads_after}));
                        wr.table = Some(t);
                        wr.pending = None;
                        wr.puts.clear();
                    }
                    Ok(Err(e)) => out.emit(&json!({"op":"error","call":"get_head","w":w,"msg":format!("{e:?}")})),
                    Err(e) => out.emit(&json!({"op":"panic","call":"get_head","w":w,"msg":e})),
                }
            }
            "put" => {
                let Some(t) = &wr.table else { continue };
                let k = step["k"].as_u64().unwrap();
                let v = step["v"].as_u64().unwrap();
                if wr.pending.is_none() {
                    wr.pending = Some(t.start_mutation());
                }
                wr.pending.as_mut().unwrap().add_entry(key(k), enc(v));
                wr.puts.insert(k, v);
                out.emit(&json!({"op":"put","w":w,"k":k,"v":v}));
            }
            "save" => {
                let (Some(t), Some(m)) = (wr.table.clone(), wr.pending.take()) else { continue };
                let seen = lookups(&t, nkeys);
                let base = names.get(t.name());
                let base_chain = chain(&t, &mut names, nkeys);
                let store = &wr.store;
                let r = catch(std::panic::AssertUnwindSafe(move || store.save_table(m)));
                match r {
                    Ok(Ok(nt)) => {
                        let puts: Vec<Vec<u64>> = wr.puts.iter().map(|(k, v)| vec![*k, *v]).collect();
                        tables.insert(names.get(nt.name()), nt.clone());
                        out.emit(&json!({"op":"save","w":w,"base":base,"base_chain":base_chain,"seen":seen,"puts":puts,"local":locals(&nt, nkeys),
                            "name":names.get(nt.name()),"vals":lookups(&nt, nkeys),"chain":chain(&nt, &mut names, nkeys),
                            "heads":list_heads(dir.path(), &mut names)}));
                        wr.table = Some(nt);
                        wr.puts.clear();
                    }
                    Ok(Err(e)) => out.emit(&json!({"op":"error","call":"save_table","w":w,"msg":format!("{e:?}")})),
                    Err(e) => out.emit(&json!({"op":"panic","call":"save_table","w":w,"msg":e})),
                }
            }
            _ => {}
        }
    }
    // final observation by a fresh process: load, (merge), look up everything
    let store = TableStore::load(dir.path().to_path_buf(), KEY_SIZE);
    let order = list_heads(dir.path(), &mut names);
    match store.get_head() {
        Ok(t) => out.emit(&json!({"op":"gethead","w":0,"fresh":true,"order":order,
            "chains":order.iter().map(|n| tables.get(n).cloned()).map(|t| t.map(|t| chain(&t, &mut names, nkeys)).unwrap_or_default()).collect::<Vec<_>>(),
            "first_chain":order.first().and_then(|n| tables.get(n)).map(|t| chain(t, &mut names, nkeys)).unwrap_or_default(),
            "name":names.get(t.name()),"vals":lookups(&t, nkeys),"chain":chain(&t, &mut names, nkeys),"heads":list_heads(dir.path(), &mut names)})),
        Err(e) => out.emit(&json!({"op":"error","call":"get_head","w":0,"msg":format!("{e:?}")})),
    }
}

fn random_script(rng: &mut Rng, nkeys: u64, nwriters: usize, len: usize) -> Vec<Value> {
    let mut v = 1u64;
    let mut s: Vec<Value> = (1..=nwriters).map(|w| json!({"op":"gethead","w":w})).collect();
    let mut dirty = vec![false; nwriters];
    for _ in 0..len {
        let w = rng.range(1, nwriters);
        match rng.below(10) {
            0 => {
                s.push(json!({"op":"gethead","w":w}));
                dirty[w - 1] = false;
            }
            1 => {
                s.push(json!({"op":"reload","w":w}));
                dirty[w - 1] = false;
            }
            2..=6 => {
                // a burst of puts (sizes matter for the squash rule)
                for _ in 0..rng.range(1, 4) {
                    s.push(json!({"op":"put","w":w,"k":rng.range(1, nkeys as usize),"v":v}));
                    v += 1;
                }
                dirty[w - 1] = true;
            }
            _ => {
                if dirty[w - 1] {
                    s.push(json!({"op":"save","w":w}));
                    dirty[w - 1] = false;
                }
            }
        }
    }
    for w in 1..=nwriters {
        if dirty[w - 1] {
            s.push(json!({"op":"save","w":w}));
        }
    }
    s
}

fn main() -> ExitCode {
    let args: Vec<String> = std::env::args().collect();
    let opts = Opts::parse(&args[2.min(args.len())..]);
    jjconf::util::quiet_panics();
    let mut out = Out::create(&opts.str("out", "stable.ndjson")).unwrap();
    let nkeys = opts.u64("keys", 4);
    let nwriters = opts.usize("writers", 3);
    let mut case_no = 0;
    if let Some(p) = opts.get("scripts") {
        for s in read_ndjson(p).unwrap() {
            case_no += 1;
            run_script(s.as_array().unwrap(), nkeys, nwriters, case_no, &mut out);
        }
    }
    let mut rng = Rng::new(opts.u64("seed", 0));
    for _ in 0..opts.usize("n", 0) {
        case_no += 1;
        let len = rng.range(4, opts.usize("len", 14));
        let s = random_script(&mut rng, nkeys, nwriters, len);
        run_script(&s, nkeys, nwriters, case_no, &mut out);
    }
    out.finish();
    ExitCode::SUCCESS
}
