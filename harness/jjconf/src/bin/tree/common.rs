//! Value codec shared by C07/C08: the integer codes of spec/Tree.tla <-> real
//! tree entries, and the scratch repos (same-change accept / keep).
use std::collections::HashMap;
use std::sync::Arc;

use jj_lib::backend::TreeValue;
use jj_lib::config::ConfigLayer;
use jj_lib::config::ConfigSource;
use jj_lib::conflict_labels::ConflictLabels;
use jj_lib::merge::Merge;
use jj_lib::merged_tree::MergedTree;
use jj_lib::repo::Repo as _;
use jj_lib::repo_path::RepoPath;
use jj_lib::settings::UserSettings;
use jj_lib::store::Store;
use pollster::FutureExt as _;
use serde_json::Value;
use serde_json::json;
use testutils::TestRepo;
use testutils::TestRepoBackend;
use testutils::TestTreeBuilder;
use testutils::repo_path;

pub const PATHS: [&str; 4] = ["f", "d", "d/x", "d/y"];

/// One abstract tree [f, d, x, y] of spec/Tree.tla.
#[derive(Clone, Copy, PartialEq, Eq, Hash, Debug)]
pub struct ATree {
    pub f: i64,
    pub d: i64,
    pub x: i64,
    pub y: i64,
}

impl ATree {
    pub fn from_json(v: &Value) -> Result<Self, String> {
        let g = |k: &str| v.get(k).and_then(Value::as_i64).ok_or(format!("tree field {k} in {v}"));
        Ok(Self {
            f: g("f")?,
            d: g("d")?,
            x: g("x")?,
            y: g("y")?,
        })
    }
    pub fn to_json(self) -> Value {
        json!({"f": self.f, "d": self.d, "x": self.x, "y": self.y})
    }
}

/// Content of the file with content id `id` (spec: 1..9 atomic, 10+3a+b slot file).
pub fn file_content(id: i64) -> String {
    if id >= 10 {
        let a = (id - 10) / 3;
        let b = (id - 10) % 3;
        format!("anchor0\ns0v{a}\nanchor1\ns1v{b}\nanchor2\n")
    } else {
        format!("A{id}\n")
    }
}

/// Inverse of `file_content`; 99 = a content outside the vocabulary.
pub fn content_id(text: &[u8]) -> i64 {
    let Ok(s) = std::str::from_utf8(text) else {
        return 99;
    };
    (1..=18).find(|&id| s == file_content(id)).unwrap_or(99)
}

pub struct Env {
    pub test_repo: TestRepo,
    pub accept: bool,
    cache: HashMap<ATree, MergedTree>,
}

pub fn settings(accept: bool) -> UserSettings {
    let mut config = testutils::base_user_config();
    let text = if accept {
        "merge.same-change = \"accept\""
    } else {
        "merge.same-change = \"keep\""
    };
    config.add_layer(ConfigLayer::parse(ConfigSource::User, text).unwrap());
    UserSettings::from_config(config).unwrap()
}

pub fn backend_of(name: &str) -> Result<TestRepoBackend, String> {
    match name {
        "test" => Ok(TestRepoBackend::Test),
        "simple" => Ok(TestRepoBackend::Simple),
        "git" => Ok(TestRepoBackend::Git),
        b => Err(format!("unknown backend {b}")),
    }
}

impl Env {
    pub fn new(backend: TestRepoBackend, accept: bool) -> Self {
        let test_repo = TestRepo::init_with_backend_and_settings(backend, &settings(accept));
        Self {
            test_repo,
            accept,
            cache: HashMap::new(),
        }
    }

    pub fn store(&self) -> &Arc<Store> {
        self.test_repo.repo.store()
    }

    fn set_leaf(&self, b: &mut TestTreeBuilder, path: &RepoPath, code: i64) {
        if code == 0 {
        } else if code < 10 {
            b.symlink(path, &format!("t{code}"));
        } else {
            let _ = b.file(path, file_content(code / 10)).executable(code % 10 == 1);
        }
    }

    /// Write the abstract tree into the store (cached).
    pub fn tree(&mut self, t: ATree) -> MergedTree {
        if let Some(m) = self.cache.get(&t) {
            return m.clone();
        }
        let mut b = TestTreeBuilder::new(self.store().clone());
        self.set_leaf(&mut b, repo_path("f"), t.f);
        self.set_leaf(&mut b, repo_path("d"), t.d);
        self.set_leaf(&mut b, repo_path("d/x"), t.x);
        self.set_leaf(&mut b, repo_path("d/y"), t.y);
        let m = b.write_merged_tree();
        self.cache.insert(t, m.clone());
        m
    }

    /// A (possibly conflicted) tree from a merge of abstract trees.
    pub fn merged(&mut self, terms: &[ATree]) -> MergedTree {
        if terms.len() == 1 {
            return self.tree(terms[0]);
        }
        let ids: Vec<_> = terms.iter().map(|t| self.tree(*t).tree_ids().first().clone()).collect();
        MergedTree::new(self.store().clone(), Merge::from_vec(ids), ConflictLabels::unlabeled())
    }

    /// Code of one term of a path value.
    pub fn code(&self, path: &RepoPath, v: &Option<TreeValue>) -> i64 {
        let store = self.store();
        match v {
            None => 0,
            Some(TreeValue::File { id, executable, .. }) => {
                let text = testutils::read_file(store, path, id);
                10 * content_id(&text) + i64::from(*executable)
            }
            Some(TreeValue::Symlink(id)) => {
                let t = store.read_symlink(path, id).block_on().unwrap();
                match t.strip_prefix('t').and_then(|k| k.parse::<i64>().ok()) {
                    Some(k) if (1..=9).contains(&k) => k,
                    _ => 9,
                }
            }
            Some(TreeValue::Tree(id)) => {
                // a directory: encode its two known entries; anything else in it -> 998
                let tree = store.get_tree(path.to_owned(), id).block_on().unwrap();
                let mut x = 0;
                let mut y = 0;
                for e in tree.entries_non_recursive() {
                    let p = path.join(e.name());
                    let c = self.code(&p, &Some(e.value().clone()));
                    match e.name().as_internal_str() {
                        "x" if c < 1000 => x = c,
                        "y" if c < 1000 => y = c,
                        _ => x = 998,
                    }
                }
                // NB an empty directory object is 1000000, which is not Absent
                1_000_000 + 1000 * x + y
            }
            Some(_) => 997,
        }
    }

    /// path_value at each path of the universe + has_conflict + conflicts() + stray paths.
    pub fn observe(&self, tree: &MergedTree) -> Value {
        let mut pv = serde_json::Map::new();
        for (p, key) in PATHS.iter().zip(["f", "d", "x", "y"]) {
            let path = repo_path(p);
            let val = tree.path_value(path).block_on().unwrap();
            let codes: Vec<i64> = val.iter().map(|t| self.code(path, t)).collect();
            pv.insert(key.to_string(), json!(codes));
        }
        let mut cf: Vec<String> = vec![];
        for (path, v) in tree.conflicts() {
            v.unwrap();
            cf.push(path.as_internal_file_string().to_string());
        }
        cf.sort();
        let mut extra = 0;
        for (path, v) in tree.entries() {
            v.unwrap();
            if !PATHS.contains(&path.as_internal_file_string()) {
                extra += 1;
            }
        }
        json!({"hc": tree.has_conflict(), "pv": Value::Object(pv), "cf": cf, "extra": extra,
               "arity": tree.tree_ids().as_slice().len()})
    }
}

pub fn parse_terms(v: &Value) -> Result<Vec<ATree>, String> {
    v.as_array().ok_or("terms: not an array")?.iter().map(ATree::from_json).collect()
}
