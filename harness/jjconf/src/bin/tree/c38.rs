//! C38: the real `FileAnnotator` on TLC-generated unique-token histories
//! (MC_Annotate): `{"par":[[..],..],"file":[[tokens..],..],"s":k,"dom":[..]}`.
//! The file "f" at commit c holds one line "t<k>\n" per token, in token order.
//! The record adds, per annotated line, the token, the commit it is blamed on and
//! whether the origin is Ok (inside the domain) or Err; Trace_Annotate (TLC) judges.
use std::collections::HashMap;
use std::panic::AssertUnwindSafe;

use jj_lib::annotate::FileAnnotator;
use jj_lib::backend::CommitId;
use jj_lib::commit::Commit;
use jj_lib::repo::Repo as _;
use jj_lib::revset::ResolvedRevsetExpression;
use pollster::FutureExt as _;
use serde_json::Value;
use serde_json::json;
use testutils::TestRepo;
use testutils::TestTreeBuilder;
use testutils::repo_path;

use jjconf::util::Opts;
use jjconf::util::Out;
use jjconf::util::catch;
use jjconf::util::read_ndjson;

struct Case {
    par: Vec<Vec<usize>>,
    file: Vec<Vec<u64>>,
    s: usize,
    dom: Vec<usize>,
}

fn nested(v: &Value, k: &str) -> Result<Vec<Vec<u64>>, String> {
    v.get(k)
        .and_then(Value::as_array)
        .ok_or(format!("field {k}"))?
        .iter()
        .map(|xs| {
            xs.as_array()
                .ok_or(format!("{k}: not an array"))?
                .iter()
                .map(|x| x.as_u64().ok_or(format!("{k}: not a number")))
                .collect()
        })
        .collect()
}

fn parse(v: &Value) -> Result<Case, String> {
    let par = nested(v, "par")?.into_iter().map(|ps| ps.into_iter().map(|p| p as usize).collect()).collect();
    let dom = v
        .get("dom")
        .and_then(Value::as_array)
        .ok_or("dom")?
        .iter()
        .map(|x| x.as_u64().map(|n| n as usize).ok_or("dom".to_string()))
        .collect::<Result<_, _>>()?;
    Ok(Case { par, file: nested(v, "file")?, s: v.get("s").and_then(Value::as_u64).ok_or("s")? as usize, dom })
}

fn content(tokens: &[u64]) -> String {
    tokens.iter().map(|t| format!("t{t}\n")).collect()
}

pub fn run(opts: &Opts) -> Result<(), String> {
    let mut out = Out::create(&opts.str("out", "c38.ndjson"))?;
    let raw = read_ndjson(&opts.str("cases", "cases.ndjson"))?;
    let cases: Vec<Case> = raw.iter().map(parse).collect::<Result<_, _>>()?;
    let mut i = 0;
    while i < cases.len() {
        let test_repo = TestRepo::init();
        let end = (i + 300).min(cases.len());
        for k in i..end {
            out.emit(&record(&test_repo, &cases[k], &raw[k], k));
        }
        i = end;
    }
    out.finish();
    Ok(())
}

fn record(test_repo: &TestRepo, case: &Case, raw: &Value, serial: usize) -> Value {
    let repo = test_repo.repo.clone();
    let path = repo_path("f");
    let r = catch(AssertUnwindSafe(|| {
        let mut tx = repo.start_transaction();
        let mut_repo = tx.repo_mut();
        let root = repo.store().root_commit();
        let mut commits: Vec<Commit> = vec![];
        for (i, ps) in case.par.iter().enumerate() {
            let parent_ids: Vec<CommitId> = if ps.is_empty() {
                vec![root.id().clone()]
            } else {
                ps.iter().map(|p| commits[p - 1].id().clone()).collect()
            };
            let mut b = TestTreeBuilder::new(repo.store().clone());
            if !case.file[i].is_empty() {
                let _ = b.file(path, content(&case.file[i]));
            }
            let tree = b.write_merged_tree();
            let c = mut_repo
                .new_commit(parent_ids, tree)
                .set_description(format!("history {serial} commit {}", i + 1))
                .write()
                .block_on()
                .unwrap();
            commits.push(c);
        }
        let node_of: HashMap<CommitId, usize> =
            commits.iter().enumerate().map(|(i, c)| (c.id().clone(), i + 1)).collect();
        let all: Vec<usize> = (1..=case.par.len()).collect();
        let domain = if case.dom == all {
            ResolvedRevsetExpression::all()
        } else {
            ResolvedRevsetExpression::commits(case.dom.iter().map(|n| commits[n - 1].id().clone()).collect())
        };
        // the calls under test
        let start = &commits[case.s - 1];
        let mut annotator = FileAnnotator::from_commit(start, path).block_on().unwrap();
        annotator.compute(&*mut_repo, &domain).block_on().unwrap();
        let annotation = annotator.to_annotation();
        let mut lines = vec![];
        for (origin, line) in annotation.line_origins() {
            let (ok, lo) = match origin {
                Ok(lo) => (true, lo),
                Err(lo) => (false, lo),
            };
            let text = String::from_utf8_lossy(line);
            let token = text
                .strip_prefix('t')
                .and_then(|x| x.strip_suffix('\n'))
                .and_then(|x| x.parse::<u64>().ok())
                .unwrap_or(0);
            lines.push(json!({"t": token, "c": node_of.get(&lo.commit_id).copied().unwrap_or(0), "ok": ok,
                              "ln": lo.line_number + 1}));
        }
        let text_ok = annotation.text().to_vec() == content(&case.file[case.s - 1]).into_bytes();
        json!({"out": lines, "text_ok": text_ok})
    }));
    let mut rec = raw.clone();
    let obj = rec.as_object_mut().unwrap();
    obj.insert("op".into(), json!("annotate"));
    match r {
        Ok(v) => {
            for (k, val) in v.as_object().unwrap() {
                obj.insert(k.clone(), val.clone());
            }
            obj.insert("panic".into(), json!(""));
        }
        Err(msg) => {
            let short: String = msg.chars().take(160).collect();
            obj.insert("out".into(), json!([]));
            obj.insert("text_ok".into(), json!(false));
            obj.insert("panic".into(), json!(short));
        }
    }
    rec
}
