//! C37: the real `Bisector` on TLC-generated problems (MC_Bisect) and on seeded
//! random larger graphs.  A problem is `{"par":[[..],..],"rng":[..],"X":[..],"S":[..]}`
//! (nodes 1..n, parents smaller than the node; X = really bad, S = cannot be judged).
//! The record adds the questions asked in order and the result; Trace_Bisect (TLC)
//! replays it through the Bisect state machine and judges it.
use std::collections::HashMap;
use std::collections::HashSet;
use std::panic::AssertUnwindSafe;

use jj_lib::backend::CommitId;
use jj_lib::bisect::BisectionResult;
use jj_lib::bisect::Bisector;
use jj_lib::bisect::Evaluation;
use jj_lib::bisect::NextStep;
use jj_lib::commit::Commit;
use jj_lib::repo::Repo as _;
use jj_lib::revset::ResolvedRevsetExpression;
use pollster::FutureExt as _;
use serde_json::Value;
use serde_json::json;
use testutils::TestRepo;

use jjconf::util::Opts;
use jjconf::util::Out;
use jjconf::util::Rng;
use jjconf::util::catch;
use jjconf::util::read_ndjson;

struct Problem {
    par: Vec<Vec<usize>>,
    rng: Vec<usize>,
    x: Vec<usize>,
    s: Vec<usize>,
}

fn idx_list(v: &Value, k: &str) -> Result<Vec<usize>, String> {
    v.get(k)
        .and_then(Value::as_array)
        .ok_or(format!("field {k}"))?
        .iter()
        .map(|x| x.as_u64().map(|n| n as usize).ok_or(format!("index in {k}")))
        .collect()
}

fn parse(v: &Value) -> Result<Problem, String> {
    let par = v
        .get("par")
        .and_then(Value::as_array)
        .ok_or("par")?
        .iter()
        .map(|ps| {
            ps.as_array()
                .ok_or("par".to_string())?
                .iter()
                .map(|x| x.as_u64().map(|n| n as usize).ok_or("par index".to_string()))
                .collect()
        })
        .collect::<Result<Vec<Vec<usize>>, String>>()?;
    Ok(Problem { par, rng: idx_list(v, "rng")?, x: idx_list(v, "X")?, s: idx_list(v, "S")? })
}

/// Random graph on n nodes (parents among the previous few nodes), a range of the form
/// ancestors(h) \ ancestors(g), a monotone bad set containing the heads, and a skip set.
fn random_problem(rng: &mut Rng, max_nodes: usize, with_skips: bool) -> Problem {
    let n = rng.range(2, max_nodes);
    let mut par: Vec<Vec<usize>> = vec![];
    for i in 1..=n {
        let mut ps = vec![];
        if i > 1 && !rng.chance(1, 12) {
            let window = rng.range(1, 4).min(i - 1);
            ps.push(i - 1 - rng.below(window));
            if rng.chance(1, 4) && i > 2 {
                let q = rng.range(1, i - 1);
                if !ps.contains(&q) {
                    ps.push(q);
                }
            }
            ps.sort();
        }
        par.push(ps);
    }
    let anc = ancestors(&par);
    // range: ancestors of 1-2 heads minus ancestors of 0-1 "good" commits
    let mut in_rng: HashSet<usize> = HashSet::new();
    for _ in 0..rng.range(1, 2) {
        let h = rng.range(n.div_ceil(2), n);
        in_rng.extend(anc[h - 1].iter().copied());
    }
    if rng.chance(1, 2) {
        let g = rng.range(1, n);
        for a in &anc[g - 1] {
            in_rng.remove(a);
        }
    }
    let mut range: Vec<usize> = in_rng.iter().copied().collect();
    range.sort();
    // heads of the range
    let heads: Vec<usize> =
        range.iter().copied().filter(|&c| !range.iter().any(|&d| d != c && anc[d - 1].contains(&c))).collect();
    // monotone bad set: the descendants (within the range) of a few random seeds, plus the heads
    let mut bad: HashSet<usize> = heads.iter().copied().collect();
    if !range.is_empty() {
        for _ in 0..rng.range(0, 2) {
            let seed = *rng.pick(&range);
            for &d in &range {
                if anc[d - 1].contains(&seed) {
                    bad.insert(d);
                }
            }
        }
    }
    let mut x: Vec<usize> = bad.into_iter().collect();
    x.sort();
    let mut s = vec![];
    if with_skips && !range.is_empty() {
        for _ in 0..rng.range(0, 3) {
            let c = *rng.pick(&range);
            if !s.contains(&c) {
                s.push(c);
            }
        }
        s.sort();
    }
    Problem { par, rng: range, x, s }
}

/// ancestors (inclusive) of every node, 1-based node ids
fn ancestors(par: &[Vec<usize>]) -> Vec<HashSet<usize>> {
    let mut anc: Vec<HashSet<usize>> = vec![];
    for (i, ps) in par.iter().enumerate() {
        let mut a: HashSet<usize> = HashSet::from([i + 1]);
        for p in ps {
            a.extend(anc[p - 1].iter().copied());
        }
        anc.push(a);
    }
    anc
}

pub fn run(opts: &Opts) -> Result<(), String> {
    let mut out = Out::create(&opts.str("out", "c37.ndjson"))?;
    let mut problems = vec![];
    if let Some(path) = opts.get("cases") {
        for c in read_ndjson(path)? {
            problems.push(parse(&c)?);
        }
    }
    let mut rng = Rng::new(opts.u64("seed", 0));
    let max_nodes = opts.usize("max-nodes", 24);
    for i in 0..opts.usize("random", 0) {
        problems.push(random_problem(&mut rng, max_nodes, i % 2 == 1));
    }
    let mut i = 0;
    while i < problems.len() {
        // a fresh repo every 300 problems keeps the index small
        let test_repo = TestRepo::init();
        let end = (i + 300).min(problems.len());
        for (k, pb) in problems[i..end].iter().enumerate() {
            out.emit(&record(&test_repo, pb, i + k));
        }
        i = end;
    }
    out.finish();
    Ok(())
}

fn record(test_repo: &TestRepo, pb: &Problem, serial: usize) -> Value {
    let repo = test_repo.repo.clone();
    let base = json!({"op":"bisect","par":pb.par,"rng":pb.rng,"X":pb.x,"S":pb.s});
    let r = catch(AssertUnwindSafe(|| {
        let mut tx = repo.start_transaction();
        let mut_repo = tx.repo_mut();
        let root = repo.store().root_commit();
        let empty = repo.store().empty_merged_tree();
        let mut commits: Vec<Commit> = vec![];
        for (i, ps) in pb.par.iter().enumerate() {
            let parent_ids: Vec<CommitId> = if ps.is_empty() {
                vec![root.id().clone()]
            } else {
                ps.iter().map(|p| commits[p - 1].id().clone()).collect()
            };
            let c = mut_repo
                .new_commit(parent_ids, empty.clone())
                .set_description(format!("problem {serial} node {}", i + 1))
                .write()
                .block_on()
                .unwrap();
            commits.push(c);
        }
        let node_of: HashMap<CommitId, usize> =
            commits.iter().enumerate().map(|(i, c)| (c.id().clone(), i + 1)).collect();
        let range = ResolvedRevsetExpression::commits(pb.rng.iter().map(|n| commits[n - 1].id().clone()).collect());
        let bad: HashSet<usize> = pb.x.iter().copied().collect();
        let skip: HashSet<usize> = pb.s.iter().copied().collect();
        let mut bisector = Bisector::new(&*mut_repo, range).block_on().unwrap();
        let mut evals: Vec<usize> = vec![];
        let node = |c: &Commit| node_of.get(c.id()).copied().unwrap_or(0); // 0 = a commit outside the problem
        loop {
            if evals.len() > 4 * pb.par.len() + 8 {
                return json!({"evals": evals, "kind": "runaway", "bad": [], "possibly": []});
            }
            match bisector.next_step().block_on().unwrap() {
                NextStep::Evaluate(commit) => {
                    let n = node(&commit);
                    evals.push(n);
                    let ev = if skip.contains(&n) {
                        Evaluation::Skip
                    } else if bad.contains(&n) {
                        Evaluation::Bad
                    } else {
                        Evaluation::Good
                    };
                    bisector.mark(commit.id().clone(), ev);
                }
                NextStep::Done(result) => {
                    let set = |cs: &[Commit]| {
                        let mut v: Vec<usize> = cs.iter().map(&node).collect();
                        v.sort();
                        v.dedup();
                        v
                    };
                    return match result {
                        BisectionResult::Found(cs) => {
                            json!({"evals": evals, "kind": "found", "bad": set(&cs), "possibly": [], "dup": cs.len() != set(&cs).len()})
                        }
                        BisectionResult::FoundDespiteSkips { bad_commits, possibly_bad } => {
                            json!({"evals": evals, "kind": "found_despite_skips", "bad": set(&bad_commits),
                                   "possibly": set(&possibly_bad), "dup": bad_commits.len() != set(&bad_commits).len()})
                        }
                        BisectionResult::Indeterminate => {
                            json!({"evals": evals, "kind": "indeterminate", "bad": [], "possibly": [], "dup": false})
                        }
                        BisectionResult::Abort => json!({"evals": evals, "kind": "abort", "bad": [], "possibly": [], "dup": false}),
                    };
                }
            }
        }
    }));
    let mut rec = base;
    let obj = rec.as_object_mut().unwrap();
    match r {
        Ok(v) => {
            for (k, val) in v.as_object().unwrap() {
                obj.insert(k.clone(), val.clone());
            }
            obj.insert("panic".into(), json!(""));
        }
        Err(msg) => {
            let short: String = msg.chars().take(160).collect();
            obj.insert("evals".into(), json!([]));
            obj.insert("kind".into(), json!("panic"));
            obj.insert("bad".into(), json!([]));
            obj.insert("possibly".into(), json!([]));
            obj.insert("dup".into(), json!(false));
            obj.insert("panic".into(), json!(short));
        }
    }
    rec
}
