//! Helpers shared by the working-copy modes.
use std::path::Path;
use std::path::PathBuf;
use std::sync::Arc;
use std::time::Duration;
use std::time::SystemTime;

use jj_lib::config::ConfigLayer;
use jj_lib::config::ConfigSource;
use jj_lib::default_backend_factories::default_working_copy_factories;
use jj_lib::repo::ReadonlyRepo;
use jj_lib::settings::UserSettings;
use jj_lib::store::Store;
use jj_lib::workspace::Workspace;
use testutils::TestRepoBackend;
use testutils::TestWorkspace;

pub fn settings_with(extra: &str) -> UserSettings {
    let mut config = testutils::base_user_config();
    if !extra.is_empty() {
        config.add_layer(ConfigLayer::parse(ConfigSource::User, extra).expect("extra settings"));
    }
    UserSettings::from_config(config).expect("settings")
}

/// A workspace in a fresh temp dir.
pub struct Ws {
    pub tw: TestWorkspace,
    pub settings: UserSettings,
}

impl Ws {
    pub fn new(extra_settings: &str) -> Self {
        let settings = settings_with(extra_settings);
        let tw = TestWorkspace::init_with_backend_and_settings(TestRepoBackend::Test, &settings);
        Self { tw, settings }
    }
    pub fn root(&self) -> PathBuf {
        self.tw.workspace.workspace_root().to_owned()
    }
    pub fn repo(&self) -> &Arc<ReadonlyRepo> {
        &self.tw.repo
    }
    /// The store of the currently loaded workspace (changes on reload; trees
    /// and commits handed to the working copy must come from this store).
    pub fn store(&self) -> Arc<Store> {
        self.tw.workspace.repo_loader().store().clone()
    }
    /// Load the workspace again from disk, as a new jj process would.
    pub fn reload(&mut self) -> Result<(), String> {
        let root = self.root();
        let ws = Workspace::load(
            &self.settings,
            &root,
            &self.tw.env.default_backend_factories(),
            &default_working_copy_factories(),
        )
        .map_err(|e| format!("workspace load: {e}"))?;
        self.tw.workspace = ws;
        Ok(())
    }
    pub fn state_file(&self) -> PathBuf {
        self.root().join(".jj").join("working_copy").join("tree_state")
    }
}

pub fn mtime_ms(path: &Path) -> Result<i64, String> {
    let m = std::fs::symlink_metadata(path).map_err(|e| format!("stat {}: {e}", path.display()))?;
    let t = m.modified().map_err(|e| e.to_string())?;
    Ok(t.duration_since(SystemTime::UNIX_EPOCH).map_err(|e| e.to_string())?.as_millis() as i64)
}

pub fn set_mtime_ms(path: &Path, ms: i64) -> Result<(), String> {
    let f = std::fs::File::options()
        .write(true)
        .open(path)
        .map_err(|e| format!("open {}: {e}", path.display()))?;
    f.set_modified(SystemTime::UNIX_EPOCH + Duration::from_millis(ms as u64))
        .map_err(|e| format!("set_modified {}: {e}", path.display()))
}
