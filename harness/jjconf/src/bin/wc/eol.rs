//! C29 (spec/Eol.tla): contents with runs around the 8 KiB probe limit taken
//! through a REAL check-out and snapshot under each
//! `working-copy.eol-conversion` mode (the functions of eol.rs are
//! pub(crate)).  Contents are logged as run-length lists over the classes
//! 0 = text byte ('a'), 1 = CR, 2 = LF, 3 = NUL; TLC judges.
use jj_lib::backend::TreeValue;
use jj_lib::merged_tree::MergedTree;
use jj_lib::repo_path::RepoPathBuf;
use jjconf::util::Opts;
use jjconf::util::Out;
use jjconf::util::Rng;
use jjconf::util::catch;
use pollster::FutureExt as _;
use serde_json::Value;
use serde_json::json;
use testutils::TestTreeBuilder;
use testutils::commit_with_tree;
use testutils::empty_snapshot_options;

use crate::common::Ws;
use crate::common::mtime_ms;
use crate::common::set_mtime_ms;

type Rle = Vec<(u8, usize)>;

const BYTES: [u8; 4] = [b'a', b'\r', b'\n', 0];

fn to_bytes(rle: &Rle) -> Vec<u8> {
    let mut v = vec![];
    for &(c, n) in rle {
        v.extend(std::iter::repeat_n(BYTES[c as usize], n));
    }
    v
}

/// Projection of real bytes to the model vocabulary; None if a byte outside the
/// four classes shows up (then the raw length is logged instead).
fn to_rle(bytes: &[u8]) -> Option<Rle> {
    let mut out: Rle = vec![];
    for &b in bytes {
        let c = BYTES.iter().position(|&x| x == b)? as u8;
        match out.last_mut() {
            Some((lc, n)) if *lc == c => *n += 1,
            _ => out.push((c, 1)),
        }
    }
    Some(out)
}

fn rle_json(r: &Option<Rle>) -> Value {
    match r {
        Some(r) => json!(r.iter().map(|&(c, n)| json!([c, n])).collect::<Vec<_>>()),
        None => json!([[9, 1]]), // not representable: the judge rejects it as not-normal
    }
}

/// every content of up to `max_runs` runs in normal form, lengths from the
/// vocabulary (the domain of MC_Eol)
fn domain(max_runs: usize, text_lens: &[usize], other_lens: &[usize]) -> Vec<Rle> {
    let mut out: Vec<Rle> = vec![vec![]];
    let mut frontier: Vec<Rle> = vec![vec![]];
    for _ in 0..max_runs {
        let mut next = vec![];
        for c in &frontier {
            for cls in 0..4u8 {
                if c.last().is_some_and(|&(lc, _)| lc == cls) {
                    continue;
                }
                let lens = if cls == 0 { text_lens } else { other_lens };
                for &n in lens {
                    let mut d = c.clone();
                    d.push((cls, n));
                    next.push(d);
                }
            }
        }
        out.extend(next.iter().cloned());
        frontier = next;
    }
    out
}

fn random_content(rng: &mut Rng) -> Rle {
    let runs = rng.range(1, 7);
    let mut out: Rle = vec![];
    // total text so far decides how close to the limit we are; bias run lengths
    for _ in 0..runs {
        let mut cls = *rng.pick(&[0u8, 0, 1, 2, 2, 3]);
        if out.last().is_some_and(|&(lc, _)| lc == cls) {
            cls = (cls + 1) % 4;
        }
        let n = if cls == 0 {
            *rng.pick(&[1usize, 2, 3, 5, 100, 4095, 8187, 8188, 8189, 8190, 8191, 8192, 8193, 8194, 16383, 16384])
        } else {
            *rng.pick(&[1usize, 1, 1, 2, 3])
        };
        out.push((cls, n));
    }
    out
}

fn read_tree_file(tree: &MergedTree, path: &RepoPathBuf) -> Option<Vec<u8>> {
    let v = tree.path_value(path).block_on().ok()?;
    match v.as_resolved() {
        Some(Some(TreeValue::File { id, .. })) => Some(testutils::read_file(tree.store(), path, id)),
        _ => None,
    }
}

fn snapshot(ws: &mut Ws) -> Result<MergedTree, String> {
    let mut locked = ws.tw.workspace.working_copy().start_mutation().block_on().map_err(|e| e.to_string())?;
    let (tree, _) = locked.snapshot(&empty_snapshot_options()).block_on().map_err(|e| format!("snapshot: {e}"))?;
    locked.finish(ws.repo().op_id().clone()).block_on().map_err(|e| e.to_string())?;
    Ok(tree)
}

/// one batch in one workspace: check-out of all contents, touch, snapshot;
/// then the same contents written directly by the "user" and snapshotted
fn batch(mode: &str, contents: &[Rle], first_index: usize, out: &mut Vec<Value>) -> Result<(), String> {
    let mut ws = Ws::new(&format!("working-copy.eol-conversion = \"{mode}\"\n"));
    let root = ws.root();
    let store = ws.store();
    let paths: Vec<RepoPathBuf> =
        (0..contents.len()).map(|i| RepoPathBuf::from_internal_string(format!("e{}", first_index + i)).unwrap()).collect();
    let mut tb = TestTreeBuilder::new(store.clone());
    for (p, c) in paths.iter().zip(contents) {
        tb.file(p, to_bytes(c));
    }
    let commit = commit_with_tree(&store, tb.write_merged_tree());
    let mut locked = ws.tw.workspace.working_copy().start_mutation().block_on().map_err(|e| e.to_string())?;
    locked.check_out(&commit).block_on().map_err(|e| format!("check_out: {e}"))?;
    locked.finish(ws.repo().op_id().clone()).block_on().map_err(|e| e.to_string())?;
    let mut disks = vec![];
    for p in &paths {
        let dp = p.to_fs_path(&root).map_err(|e| e.to_string())?;
        disks.push(std::fs::read(&dp).map_err(|e| format!("read {}: {e}", dp.display()))?);
        // "touch": the snapshot must look at the content again
        set_mtime_ms(&dp, mtime_ms(&dp)? + 5000)?;
    }
    ws.reload()?;
    let tree = snapshot(&mut ws)?;
    for (i, p) in paths.iter().enumerate() {
        let restored = read_tree_file(&tree, p);
        out.push(json!({"op":"eol","mode":mode,"idx":first_index + i,
            "stored": rle_json(&Some(contents[i].clone())),
            "disk": rle_json(&to_rle(&disks[i])),
            "restored": rle_json(&restored.as_deref().and_then(to_rle))}));
    }
    // user-written files
    let upaths: Vec<RepoPathBuf> =
        (0..contents.len()).map(|i| RepoPathBuf::from_internal_string(format!("u{}", first_index + i)).unwrap()).collect();
    for (p, c) in upaths.iter().zip(contents) {
        let dp = p.to_fs_path(&root).map_err(|e| e.to_string())?;
        std::fs::write(&dp, to_bytes(c)).map_err(|e| e.to_string())?;
    }
    let tree = snapshot(&mut ws)?;
    for (i, p) in upaths.iter().enumerate() {
        let stored = read_tree_file(&tree, p);
        out.push(json!({"op":"eolsnap","mode":mode,"idx":first_index + i,
            "disk": rle_json(&Some(contents[i].clone())),
            "stored": rle_json(&stored.as_deref().and_then(to_rle))}));
    }
    Ok(())
}

pub fn record(opts: &Opts) -> Result<(), String> {
    jjconf::util::quiet_panics();
    let mut out = Out::create(&opts.str("out", "eol.ndjson"))?;
    let seed = opts.u64("seed", 0);
    let max_runs = opts.usize("maxruns", 3);
    let n_random = opts.usize("random", 300);
    let parse = |s: String| -> Vec<usize> { s.split(',').filter_map(|x| x.parse().ok()).collect() };
    let text_lens = parse(opts.str("textlens", "1,2,8190,8191,8192,8193"));
    let other_lens = parse(opts.str("otherlens", "1,2"));
    let mut rng = Rng::new(seed);
    let mut contents = domain(max_runs, &text_lens, &other_lens);
    let n_dom = contents.len();
    for _ in 0..n_random {
        contents.push(random_content(&mut rng));
    }
    out.emit(&json!({"op":"domain","maxruns":max_runs,"count":n_dom,"random":n_random}));
    for mode in ["none", "input", "input-output"] {
        for (bi, chunk) in contents.chunks(250).enumerate() {
            let chunk_v = chunk.to_vec();
            let mode_s = mode.to_string();
            let r = catch(move || {
                let mut recs = vec![];
                batch(&mode_s, &chunk_v, bi * 250, &mut recs).map(|()| recs)
            });
            match r {
                Ok(Ok(recs)) => recs.iter().for_each(|r| out.emit(r)),
                Ok(Err(e)) => return Err(format!("mode {mode} batch {bi}: {e}")),
                Err(p) => out.emit(&json!({"op":"panic","mode":mode,"batch":bi,"msg":p})),
            }
        }
    }
    out.finish();
    Ok(())
}
