use jjconf::util::Opts;
pub fn record(_opts: &Opts) -> Result<(), String> { Err("todo".into()) }
