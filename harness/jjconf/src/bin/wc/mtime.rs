//! C26 (spec/WcMtime.tla), S->I: replay TLC-generated behaviours on a real
//! working copy.  The model's coarse clock is realised by FORCING the mtimes
//! of the edited file and of the `tree_state` file to `base + tick * gran`
//! (gran = 1 ms, 1 s, 2 s), where `base` is chosen so that the mtime jj
//! itself recorded at check-out is the model's tick of `JjWrite`.  Every
//! snapshot runs in a workspace loaded afresh from disk, as a new jj process
//! would.  Logged: what each snapshot recorded for the file (`seen`) and
//! whether each SaveState really rewrote the state file.  TLC judges.
use jj_lib::merged_tree::MergedTree;
use jj_lib::working_copy::LockedWorkingCopy;
use jjconf::util::Opts;
use jjconf::util::Out;
use jjconf::util::catch;
use jjconf::util::read_ndjson;
use pollster::FutureExt as _;
use serde_json::Value;
use serde_json::json;
use testutils::commit_with_tree;
use testutils::TestTreeBuilder;
use testutils::empty_snapshot_options;
use testutils::repo_path;

use crate::common::Ws;
use crate::common::mtime_ms;
use crate::common::set_mtime_ms;

fn inode(path: &std::path::Path) -> Result<u64, String> {
    use std::os::unix::fs::MetadataExt as _;
    Ok(std::fs::metadata(path).map_err(|e| e.to_string())?.ino())
}

fn content(version: i64) -> String {
    format!("v{version:06}\n")
}

fn version_of(bytes: &[u8]) -> i64 {
    std::str::from_utf8(bytes)
        .ok()
        .and_then(|s| s.trim_end().strip_prefix('v'))
        .and_then(|s| s.parse().ok())
        .unwrap_or(-1)
}

fn tree_version(tree: &MergedTree) -> i64 {
    let path = repo_path("f");
    let v = tree.path_value(path).block_on().unwrap();
    match v.as_resolved() {
        Some(Some(jj_lib::backend::TreeValue::File { id, .. })) => {
            version_of(&testutils::read_file(tree.store(), path, id))
        }
        _ => -1,
    }
}

fn replay_one(steps: &[Value], gran: i64) -> Result<Vec<Value>, String> {
    let mut ws = Ws::new("");
    let file = ws.root().join("f");
    let state_file = ws.state_file();
    let op_id = ws.repo().op_id().clone();
    let mut version = 0i64;
    let mut base: i64 = 0; // real ms of model tick 0
    let mut obs = vec![];
    // a jj command in progress: the locked working copy (owns its own state,
    // re-read from disk after taking the lock)
    let mut locked: Option<Box<dyn LockedWorkingCopy>> = None;
    let mut pending_commit = None;
    for st in steps {
        let a = st["a"].as_str().ok_or("step without a")?;
        let t = st["t"].as_i64().ok_or("step without t")?;
        let mut o = json!({"seen": -1, "saved": false, "touched": false});
        match a {
            "Tick" => {}
            "BeginCheckout" => {
                version += 1;
                ws.reload()?; // a new process
                let mut tb = TestTreeBuilder::new(ws.store());
                tb.file(repo_path("f"), content(version));
                pending_commit = Some(commit_with_tree(&ws.store(), tb.write_merged_tree()));
                version -= 1; // the content exists on disk only after JjWrite
                locked = Some(ws.tw.workspace.working_copy().start_mutation().block_on().map_err(|e| e.to_string())?);
            }
            "JjWrite" => {
                let l = locked.as_mut().ok_or("JjWrite without command")?;
                let c = pending_commit.as_ref().ok_or("JjWrite without commit")?;
                l.check_out(c).block_on().map_err(|e| format!("check_out: {e}"))?;
                version += 1;
                let real = mtime_ms(&file)?;
                base = real - t * gran;
            }
            "UserEdit" => {
                version += 1;
                std::fs::write(&file, content(version)).map_err(|e| e.to_string())?;
                set_mtime_ms(&file, base + t * gran)?;
            }
            "RestoreOld1" | "RestoreOld2" => {
                // "restore an older copy": different content of the same size whose mtime is
                // 1 or 2 ticks OLDER than the mtime jj recorded (the model's rm)
                let k = if a == "RestoreOld1" { 1 } else { 2 };
                let rm = st["rm"].as_i64().ok_or("restore step without rm")?;
                version += 1;
                std::fs::write(&file, content(version)).map_err(|e| e.to_string())?;
                set_mtime_ms(&file, base + (rm - k) * gran)?;
            }
            "SaveState" => {
                let before = inode(&state_file)?;
                let mtime_before = mtime_ms(&state_file)?;
                let l = locked.take().ok_or("SaveState without command")?;
                l.finish(op_id.clone()).block_on().map_err(|e| format!("finish: {e}"))?;
                // TreeState::save writes a temp file and renames it over
                // tree_state: the file was rewritten iff its inode changed
                let really_saved = inode(&state_file)? != before;
                o["saved"] = json!(really_saved);
                // the state file was not rewritten but its mtime moved: somebody touched it.
                // It is NOT forced back: a coarse file system stamps the file only when it is
                // written, so whatever jj left on a non-saving finish() is what the next
                // process will read as own_mtime.
                o["touched"] = json!(!really_saved && mtime_ms(&state_file)? != mtime_before);
                if really_saved {
                    set_mtime_ms(&state_file, base + t * gran)?;
                }
            }
            "BeginSnapshot" => {
                ws.reload()?; // a new process
                locked = Some(ws.tw.workspace.working_copy().start_mutation().block_on().map_err(|e| e.to_string())?);
            }
            "SnapStat" => {
                let l = locked.as_mut().ok_or("SnapStat without command")?;
                let (tree, _stats) = l
                    .snapshot(&empty_snapshot_options())
                    .block_on()
                    .map_err(|e| format!("snapshot: {e}"))?;
                o["seen"] = json!(tree_version(&tree));
            }
            other => return Err(format!("unknown action {other}")),
        }
        o["disk"] = json!(version);
        obs.push(o);
    }
    drop(locked);
    Ok(obs)
}

pub fn replay(opts: &Opts) -> Result<(), String> {
    jjconf::util::quiet_panics();
    let behaviours = read_ndjson(&opts.str("in", "behaviours.ndjson"))?;
    let mut out = Out::create(&opts.str("out", "obs.ndjson"))?;
    let grans: Vec<i64> = opts.str("gran", "1,1000,2000").split(',').filter_map(|s| s.parse().ok()).collect();
    for (i, b) in behaviours.iter().enumerate() {
        let steps: Vec<Value> = b.as_array().ok_or("behaviour is not an array")?.clone();
        // only what the judge needs: action names and ticks
        let slim: Vec<Value> = steps.iter().map(|s| json!({"a": s["a"], "t": s["t"]})).collect();
        for &g in &grans {
            let steps2 = steps.clone();
            match catch(move || replay_one(&steps2, g)) {
                Ok(Ok(obs)) => out.emit(&json!({"op":"mtime","case":i,"gran":g,"steps":slim,"obs":obs})),
                Ok(Err(e)) => return Err(format!("behaviour {i} gran {g}: {e}")),
                Err(p) => out.emit(&json!({"op":"panic","case":i,"gran":g,"steps":slim,"msg":p})),
            }
        }
    }
    out.finish();
    Ok(())
}
