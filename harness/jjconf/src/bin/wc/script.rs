//! C23/C24/C25/C27 (spec/WorkingCopy.tla): script interpreter on a real
//! `LocalWorkingCopy` in a temp dir.
//!
//! A script is a list of model actions (user edits, Snapshot, CheckOut,
//! SetSparse).  `replay` executes TLC-generated scripts (S->I), `random`
//! executes scripts drawn by a seeded driver (I->S).  After EVERY action the
//! real state is projected to the model's vocabulary (value of every universe
//! path on disk and in the working-copy tree, recorded file states, sparse
//! patterns, the sentinel directory outside the workspace) and logged.  Every
//! jj action runs in a workspace loaded afresh from disk, as a new process
//! would.  Nothing is decided here: TLC (Trace_WorkingCopy) judges.
use std::os::unix::fs::PermissionsExt as _;
use std::path::Path;
use std::path::PathBuf;

use jj_lib::backend::TreeValue;
use jj_lib::conflict_labels::ConflictLabels;
use jj_lib::conflicts::MIN_CONFLICT_MARKER_LEN;
use jj_lib::conflicts::parse_conflict;
use jj_lib::local_working_copy::FileType;
use jj_lib::local_working_copy::LocalWorkingCopy;
use jj_lib::merge::Merge;
use jj_lib::merged_tree::MergedTree;
use jj_lib::object_id::ObjectId as _;
use jj_lib::repo_path::RepoPathBuf;
use jj_lib::working_copy::CheckoutStats;
use jjconf::util::Opts;
use jjconf::util::Out;
use jjconf::util::Rng;
use jjconf::util::catch;
use jjconf::util::read_ndjson;
use pollster::FutureExt as _;
use serde_json::Value;
use serde_json::json;
use testutils::TestTreeBuilder;
use testutils::commit_with_tree;
use testutils::empty_snapshot_options;

use crate::common::Ws;

/// The path universe, in jj's tree order ("gi" stands for ".gitignore").
pub const PATHS: [&[&str]; 7] =
    [&["gi"], &["d"], &["d", "gi"], &["d", "x"], &["d", "x", "z"], &["d", "y"], &["f"]];

/// Ignore-file vocabulary: id (1-based) -> lines [neg, anchored, dir-only, name].
pub const VOCAB: [&[(bool, bool, bool, &str)]; 7] = [
    &[(false, false, false, "f")],                            // 1  f
    &[(false, false, true, "d")],                             // 2  d/
    &[(false, false, false, "x")],                            // 3  x
    &[(false, false, false, "*"), (true, false, false, "x")], // 4  * !x
    &[(true, false, false, "x")],                             // 5  !x
    &[(false, true, false, "y")],                             // 6  /y
    &[(false, false, false, "d")],                            // 7  d
];

fn real_comp(c: &str) -> &str {
    if c == "gi" { ".gitignore" } else { c }
}

fn vocab_text(id: usize) -> String {
    let mut s = String::new();
    for &(neg, anch, dironly, name) in VOCAB[id - 1] {
        if neg {
            s.push('!');
        }
        if anch {
            s.push('/');
        }
        s.push_str(real_comp(name));
        if dironly {
            s.push('/');
        }
        s.push('\n');
    }
    s
}

fn vocab_json() -> Value {
    json!(
        VOCAB
            .iter()
            .map(|pats| pats
                .iter()
                .map(|&(neg, anch, dironly, name)| json!({"neg":neg,"anch":anch,"dironly":dironly,"name":name}))
                .collect::<Vec<_>>())
            .collect::<Vec<_>>()
    )
}

fn is_ignore_path(p: &[&str]) -> bool {
    p.last() == Some(&"gi")
}

fn content_bytes(p: &[&str], c: i64) -> Vec<u8> {
    if is_ignore_path(p) { vocab_text(c as usize).into_bytes() } else { format!("c{c}\n").into_bytes() }
}

fn content_id(p: &[&str], bytes: &[u8]) -> Option<i64> {
    if is_ignore_path(p) {
        (1..=VOCAB.len()).find(|&i| vocab_text(i).as_bytes() == bytes).map(|i| i as i64)
    } else {
        let s = std::str::from_utf8(bytes).ok()?;
        let n: i64 = s.strip_prefix('c')?.strip_suffix('\n')?.parse().ok()?;
        (n >= 1).then_some(n)
    }
}

fn repo_path(p: &[&str]) -> RepoPathBuf {
    RepoPathBuf::from_internal_string(p.iter().map(|c| real_comp(c)).collect::<Vec<_>>().join("/")).unwrap()
}

fn val(k: &str, c: i64, x: bool, t: &str, m: Vec<i64>) -> Value {
    json!({"k":k,"c":c,"x":x,"t":t,"m":m})
}

fn absent() -> Value {
    val("absent", 0, false, "", vec![])
}

struct Env {
    ws: Ws,
    root: PathBuf,
    outside: PathBuf,
    /// last mtime (ms) given to a user-written file
    edit_clock: i64,
}

impl Env {
    fn new(xp: &str) -> Self {
        let ws = Ws::new(&format!("working-copy.exec-bit-change = \"{xp}\"\n"));
        let root = ws.root();
        // the sentinel directory outside the workspace
        let outside = ws.tw.env.root().join("outside");
        // pre-populated with the same sub-paths as the workspace's directory d:
        // x/ and x/z = "precious" (content 1)
        std::fs::create_dir(&outside).unwrap();
        std::fs::create_dir(outside.join("x")).unwrap();
        std::fs::write(outside.join("x").join("z"), b"c1\n").unwrap();
        Self { ws, root, outside, edit_clock: 0 }
    }

    /// The WorkingCopy model abstracts time away: every user edit is visible to the next
    /// snapshot.  A real edit lands in a later millisecond than jj's own write of the file;
    /// the harness is fast enough to hit the same millisecond, and then a state save by a
    /// command that does not snapshot (check-out, set-sparse) moves own_mtime past the racy
    /// edit.  That window is WcMtime's (C26) subject, so here every written file gets a
    /// fresh, strictly increasing mtime.
    fn stamp(&mut self, path: &Path) {
        let now = std::time::SystemTime::now()
            .duration_since(std::time::UNIX_EPOCH)
            .map(|d| d.as_millis() as i64)
            .unwrap_or(0);
        self.edit_clock = std::cmp::max(now, self.edit_clock) + 3;
        crate::common::set_mtime_ms(path, self.edit_clock).ok();
    }

    fn fs_path(&self, p: &[&str]) -> PathBuf {
        let mut q = self.root.clone();
        for c in p {
            q.push(real_comp(c));
        }
        q
    }

    fn target_to_disk(&self, t: &str) -> PathBuf {
        if t == "out" {
            self.outside.clone()
        } else if t == "out/x" {
            self.outside.join("x")
        } else {
            PathBuf::from(t)
        }
    }

    fn target_from_disk(&self, t: &Path) -> String {
        if t == self.outside {
            "out".to_string()
        } else if t == self.outside.join("x") {
            "out/x".to_string()
        } else {
            t.to_string_lossy().into_owned()
        }
    }

    /// value of a file-system entry in the model vocabulary
    fn project_entry(&self, p: &[&str], path: &Path) -> Value {
        let Ok(md) = std::fs::symlink_metadata(path) else {
            return absent();
        };
        if md.is_dir() {
            return val("dir", 0, false, "", vec![]);
        }
        if md.file_type().is_symlink() {
            let t = std::fs::read_link(path).unwrap();
            return val("symlink", 0, false, &self.target_from_disk(&t), vec![]);
        }
        if !md.is_file() {
            // fifo, socket, ...: exists, but is neither file, symlink nor directory
            return val("special", 0, false, "", vec![]);
        }
        let x = md.permissions().mode() & 0o111 != 0;
        let bytes = std::fs::read(path).unwrap_or_default();
        if let Some(c) = content_id(p, &bytes) {
            return val("file", c, x, "", vec![]);
        }
        // not a plain model content: decode conflict markers with jj's parser
        // (that materialise/parse are inverse is C05's subject)
        if let Some(m) = decode_conflict(p, &bytes) {
            return val("file", label_id_in(&bytes), x, "", m);
        }
        if let Some(m) = self.decode_description(p, &bytes) {
            return val("file", label_id_in(&bytes), x, "", m);
        }
        val("file", -1, x, "", vec![])
    }

    /// terms of the conflict a `MergedTreeValue::describe` text stands for ("Conflict:",
    /// then the present removes, then the present adds, each with the id of the file or
    /// symlink): the ids are mapped back through the store.  Only conflicts whose two adds
    /// are both present are used by the model, so the positions are unambiguous.
    fn decode_description(&self, p: &[&str], bytes: &[u8]) -> Option<Vec<i64>> {
        let text = std::str::from_utf8(bytes).ok()?;
        let mut lines = text.lines();
        if lines.next()? != "Conflict:" {
            return None;
        }
        let store = self.ws.store();
        let rp = repo_path(p);
        let mut known: Vec<(String, i64)> = vec![];
        for c in 1..=2i64 {
            let id = store.write_file(&rp, &mut content_bytes(p, c).as_slice()).block_on().ok()?;
            known.push((format!("file with id {}", id.hex()), c));
        }
        let sid = store.write_symlink(&rp, "f").block_on().ok()?;
        known.push((format!("symlink with id {}", sid.hex()), -1));
        let (mut removes, mut adds) = (vec![], vec![]);
        for line in lines {
            let line = line.trim_start();
            let (list, rest) = if let Some(r) = line.strip_prefix("Removing ") {
                (&mut removes, r)
            } else if let Some(r) = line.strip_prefix("Adding ") {
                (&mut adds, r)
            } else {
                return None;
            };
            let rest = rest.strip_prefix("executable ").unwrap_or(rest);
            let term = known.iter().find(|(k, _)| rest == k || rest.starts_with(&format!("{k} (")))?.1;
            list.push(term);
        }
        if adds.len() != 2 || removes.len() > 1 {
            return None;
        }
        Some(vec![adds[0], removes.first().copied().unwrap_or(0), adds[1]])
    }

    fn project_disk(&self) -> Vec<Value> {
        PATHS
            .iter()
            .map(|p| {
                // a path below something that is not a real directory does not exist
                // (never resolve through a symlinked parent)
                let parent_is_dir = (1..p.len())
                    .all(|n| std::fs::symlink_metadata(self.fs_path(&p[..n])).is_ok_and(|m| m.is_dir()));
                if parent_is_dir { self.project_entry(p, &self.fs_path(p)) } else { absent() }
            })
            .collect()
    }

    /// the sentinel directory: value of every universe path below d, relative to the
    /// sentinel (gi, x, x/z, y), in PATHS order
    fn project_outside(&self) -> Value {
        let vals: Vec<Value> = PATHS
            .iter()
            .filter(|p| p.len() > 1)
            .map(|p| {
                let rel = &p[1..];
                let mut q = self.outside.clone();
                for c in rel {
                    q.push(real_comp(c));
                }
                let parents_ok = (1..rel.len()).all(|n| {
                    let mut a = self.outside.clone();
                    for c in &rel[..n] {
                        a.push(real_comp(c));
                    }
                    std::fs::symlink_metadata(a).is_ok_and(|m| m.is_dir())
                });
                if parents_ok { self.project_entry(p, &q) } else { absent() }
            })
            .collect();
        json!(vals)
    }

    /// names on disk that are not in the universe (none expected)
    fn extra_entries(&self) -> Vec<String> {
        fn walk(dir: &Path, rel: &mut Vec<String>, out: &mut Vec<String>) {
            let Ok(rd) = std::fs::read_dir(dir) else { return };
            for e in rd.flatten() {
                let n = e.file_name().to_string_lossy().into_owned();
                if rel.is_empty() && n == ".jj" {
                    continue;
                }
                rel.push(if n == ".gitignore" { "gi".to_string() } else { n });
                let known = PATHS.iter().any(|p| p.len() == rel.len() && p.iter().zip(rel.iter()).all(|(a, b)| a == b));
                if !known {
                    out.push(rel.join("/"));
                } else if e.file_type().is_ok_and(|t| t.is_dir()) {
                    walk(&e.path(), rel, out);
                }
                rel.pop();
            }
        }
        let mut out = vec![];
        walk(&self.root, &mut vec![], &mut out);
        // the sentinel mirrors the paths below d
        let mut rel = vec!["d".to_string()];
        let mut o2 = vec![];
        walk(&self.outside, &mut rel, &mut o2);
        out.extend(o2.into_iter().map(|e| format!("outside:{e}")));
        out.sort();
        out
    }
}

/// content ids of the terms of the conflict a marker file decodes to
fn decode_conflict(p: &[&str], bytes: &[u8]) -> Option<Vec<i64>> {
    let hunks = parse_conflict(bytes, 2, MIN_CONFLICT_MARKER_LEN)?;
    let n = 3;
    let mut terms: Vec<Vec<u8>> = vec![vec![]; n];
    for h in &hunks {
        if let Some(r) = h.as_resolved() {
            for t in &mut terms {
                t.extend_from_slice(r);
            }
        } else {
            if h.as_slice().len() != n {
                return None;
            }
            for (t, part) in terms.iter_mut().zip(h.as_slice()) {
                t.extend_from_slice(part);
            }
        }
    }
    terms.iter().map(|t| if t.is_empty() { Some(0) } else { content_id(p, t) }).collect()
}

fn project_tree_value(env: &Env, tree: &MergedTree, p: &[&str]) -> Value {
    let rp = repo_path(p);
    let v = match tree.path_value(&rp).block_on() {
        Ok(v) => v,
        Err(_) => return val("error", 0, false, "", vec![]),
    };
    let store = tree.store();
    let term_val = |tv: &Option<TreeValue>| -> Value {
        match tv {
            None => absent(),
            Some(TreeValue::File { id, executable, .. }) => {
                let bytes = testutils::read_file(store, &rp, id);
                match content_id(p, &bytes) {
                    Some(c) => val("file", c, *executable, "", vec![]),
                    None => val("file", -1, *executable, "", vec![]),
                }
            }
            Some(TreeValue::Symlink(id)) => {
                let t = store.read_symlink(&rp, id).block_on().unwrap_or_default();
                val("symlink", 0, false, &env.target_from_disk(Path::new(&t)), vec![])
            }
            Some(TreeValue::Tree(_)) => val("tree", 0, false, "", vec![]),
            Some(_) => val("other", 0, false, "", vec![]),
        }
    };
    let v = match v.resolve_trivial(jj_lib::merge::SameChange::Accept) {
        Some(tv) => Merge::resolved(tv.clone()),
        None => v,
    };
    if let Some(tv) = v.as_resolved() {
        let r = term_val(tv);
        // a directory in the tree is "absent" as a file path
        if r["k"] == "tree" { absent() } else { r }
    } else if v.iter().all(|t| matches!(t, None | Some(TreeValue::Tree(_)))) {
        // a directory whose contents differ between the sides: not a file path
        absent()
    } else {
        let m: Vec<i64> = v
            .iter()
            .map(|t| {
                let tvj = term_val(t);
                if tvj["k"] == "file" {
                    tvj["c"].as_i64().unwrap()
                } else if tvj["k"] == "absent" || tvj["k"] == "tree" {
                    0
                } else if tvj["k"] == "symlink" && tvj["t"] == "f" {
                    -1
                } else {
                    -2
                }
            })
            .collect();
        let l = label_id_in(tree.labels().as_slice().join("\n").as_bytes());
        val("conflict", l, false, "", m)
    }
}

fn project_tree(env: &Env, tree: &MergedTree) -> Vec<Value> {
    PATHS.iter().map(|p| project_tree_value(env, tree, p)).collect()
}

/// build the MergedTree a model tree (values in PATHS order) denotes
fn build_tree(env: &Env, tree: &[Value]) -> Result<MergedTree, String> {
    let store = env.ws.store();
    let conflicted = tree.iter().any(|v| v["k"] == "conflict");
    let nterms = if conflicted { 3 } else { 1 };
    let mut builders: Vec<TestTreeBuilder> = (0..nterms).map(|_| TestTreeBuilder::new(store.clone())).collect();
    for (p, v) in PATHS.iter().zip(tree) {
        let rp = repo_path(p);
        match v["k"].as_str().unwrap_or("") {
            "absent" => {}
            "file" => {
                for b in &mut builders {
                    b.file(&rp, content_bytes(p, v["c"].as_i64().unwrap())).executable(v["x"].as_bool().unwrap_or(false));
                }
            }
            "symlink" => {
                let t = env.target_to_disk(v["t"].as_str().unwrap());
                for b in &mut builders {
                    b.symlink(&rp, t.to_str().unwrap());
                }
            }
            "conflict" => {
                let m = v["m"].as_array().ok_or("conflict without terms")?;
                if m.len() != 3 {
                    return Err("only 3-term conflicts".into());
                }
                for (b, t) in builders.iter_mut().zip(m) {
                    let c = t.as_i64().unwrap();
                    if c > 0 {
                        b.file(&rp, content_bytes(p, c));
                    } else if c == -1 {
                        b.symlink(&rp, "f"); // a term that is a symlink
                    }
                }
            }
            k => return Err(format!("bad tree value kind {k}")),
        }
    }
    let ids: Vec<_> = builders.into_iter().map(|b| b.write_single_tree().id().clone()).collect();
    Ok(if ids.len() == 1 {
        MergedTree::resolved(store, ids[0].clone())
    } else {
        // the label set of the tree is the one carried by its conflict values
        let l = tree.iter().filter(|v| v["k"] == "conflict").map(|v| v["c"].as_i64().unwrap_or(0)).max().unwrap_or(0);
        MergedTree::new(store, Merge::from_vec(ids), labels_for(l))
    })
}

/// conflict label sets of the model: id 1, 2 (0 = unlabelled)
fn labels_for(l: i64) -> ConflictLabels {
    if l == 0 {
        ConflictLabels::unlabeled()
    } else {
        ConflictLabels::from_vec(vec![format!("L{l}-side1"), format!("L{l}-base"), format!("L{l}-side2")])
    }
}

/// label set id embedded in a materialised conflict (marker file or description)
fn label_id_in(bytes: &[u8]) -> i64 {
    let has = |pat: &[u8]| bytes.windows(pat.len()).any(|w| w == pat);
    if has(b"L1-") { 1 } else if has(b"L2-") { 2 } else { 0 }
}

fn stats_json(s: &CheckoutStats) -> Value {
    json!({"added": s.added_files, "updated": s.updated_files, "removed": s.removed_files, "skipped": s.skipped_files})
}

fn comps(v: &Value) -> Vec<String> {
    v.as_array().map(|a| a.iter().map(|c| c.as_str().unwrap_or("").to_string()).collect()).unwrap_or_default()
}

/// executes one step; returns (stats, error)
fn exec_step(env: &mut Env, st: &Value) -> Result<Value, String> {
    let a = st["a"].as_str().ok_or("step without a")?;
    let pc = comps(&st["p"]);
    let p: Vec<&str> = pc.iter().map(|s| s.as_str()).collect();
    let path = env.fs_path(&p);
    let io = |e: std::io::Error| format!("{a} {}: {e}", path.display());
    let no_stats = json!({"added":0,"updated":0,"removed":0,"skipped":0});
    match a {
        "Write" => {
            // "old": the file is replaced by an OLDER copy (cp -p, rsync -t, tar x): its mtime
            // goes 2 s back from what it was instead of forward
            let prev = if st["old"] == true { crate::common::mtime_ms(&path).ok() } else { None };
            std::fs::write(&path, content_bytes(&p, st["c"].as_i64().ok_or("Write without c")?)).map_err(io)?;
            match prev {
                Some(m) => crate::common::set_mtime_ms(&path, m - 2000)?,
                None => env.stamp(&path),
            }
            Ok(no_stats)
        }
        "Chmod" => {
            let md = std::fs::metadata(&path).map_err(io)?;
            let mode = if md.permissions().mode() & 0o111 != 0 { 0o644 } else { 0o755 };
            std::fs::set_permissions(&path, std::fs::Permissions::from_mode(mode)).map_err(io)?;
            Ok(no_stats)
        }
        "Symlink" => {
            if std::fs::symlink_metadata(&path).is_ok() {
                std::fs::remove_file(&path).map_err(io)?;
            }
            std::os::unix::fs::symlink(env.target_to_disk(st["t"].as_str().ok_or("Symlink without t")?), &path).map_err(io)?;
            Ok(no_stats)
        }
        "Delete" => {
            std::fs::remove_file(&path).map_err(io)?;
            Ok(no_stats)
        }
        "Mkfifo" => {
            if std::fs::symlink_metadata(&path).is_ok() {
                std::fs::remove_file(&path).map_err(io)?;
            }
            let c = std::ffi::CString::new(path.as_os_str().as_encoded_bytes()).map_err(|e| e.to_string())?;
            // SAFETY: plain libc call with a valid C string
            if unsafe { libc::mkfifo(c.as_ptr(), 0o644) } != 0 {
                return Err(format!("mkfifo {}: {}", path.display(), std::io::Error::last_os_error()));
            }
            Ok(no_stats)
        }
        "FileToDir" => {
            if std::fs::symlink_metadata(&path).is_ok() {
                std::fs::remove_file(&path).map_err(io)?;
            }
            std::fs::create_dir(&path).map_err(io)?;
            Ok(no_stats)
        }
        "RmTree" => {
            std::fs::remove_dir_all(&path).map_err(io)?;
            Ok(no_stats)
        }
        "DirToSymlink" => {
            std::fs::remove_dir_all(&path).map_err(io)?;
            std::os::unix::fs::symlink(env.target_to_disk(st["t"].as_str().ok_or("DirToSymlink without t")?), &path)
                .map_err(io)?;
            Ok(no_stats)
        }
        "DirToFile" => {
            std::fs::remove_dir_all(&path).map_err(io)?;
            std::fs::write(&path, content_bytes(&p, st["c"].as_i64().ok_or("DirToFile without c")?)).map_err(io)?;
            env.stamp(&path);
            Ok(no_stats)
        }
        "Snapshot" => {
            env.ws.reload()?;
            let op = env.ws.repo().op_id().clone();
            let mut locked = env.ws.tw.workspace.working_copy().start_mutation().block_on().map_err(|e| e.to_string())?;
            locked.snapshot(&empty_snapshot_options()).block_on().map_err(|e| format!("jj-error snapshot: {e}"))?;
            locked.finish(op).block_on().map_err(|e| format!("jj-error finish: {e}"))?;
            Ok(no_stats)
        }
        "CheckOut" => {
            env.ws.reload()?;
            let op = env.ws.repo().op_id().clone();
            let tree = build_tree(env, st["tree"].as_array().ok_or("CheckOut without tree")?)?;
            let commit = commit_with_tree(&env.ws.store(), tree);
            let mut locked = env.ws.tw.workspace.working_copy().start_mutation().block_on().map_err(|e| e.to_string())?;
            let stats = locked.check_out(&commit).block_on().map_err(|e| format!("jj-error check_out: {e}"))?;
            locked.finish(op).block_on().map_err(|e| format!("jj-error finish: {e}"))?;
            Ok(stats_json(&stats))
        }
        "SetSparse" => {
            env.ws.reload()?;
            let op = env.ws.repo().op_id().clone();
            let pats: Vec<RepoPathBuf> = st["sp"]
                .as_array()
                .ok_or("SetSparse without sp")?
                .iter()
                .map(|q| {
                    let c = comps(q);
                    if c.is_empty() { RepoPathBuf::root() } else { repo_path(&c.iter().map(|s| s.as_str()).collect::<Vec<_>>()) }
                })
                .collect();
            let mut locked = env.ws.tw.workspace.working_copy().start_mutation().block_on().map_err(|e| e.to_string())?;
            let stats = locked.set_sparse_patterns(pats).block_on().map_err(|e| format!("jj-error set_sparse: {e}"))?;
            locked.finish(op).block_on().map_err(|e| format!("jj-error finish: {e}"))?;
            Ok(stats_json(&stats))
        }
        other => Err(format!("unknown action {other}")),
    }
}

/// projection after a user edit: jj's state files were not touched, so the jj part of
/// the previous observation is reused and only the disk is projected again
fn observe_after_edit(env: &mut Env, prev: Option<&Value>) -> Result<Value, String> {
    let Some(prev) = prev else {
        return observe(env, json!({"added":0,"updated":0,"removed":0,"skipped":0}), "");
    };
    let mut o = prev.clone();
    o["disk"] = json!(env.project_disk());
    o["out"] = env.project_outside();
    o["stats"] = json!({"added":0,"updated":0,"removed":0,"skipped":0});
    let n_foreign_states = prev["nfs"].as_u64().unwrap_or(0) as usize;
    o["extra"] = json!(env.extra_entries().len() + n_foreign_states);
    Ok(o)
}

fn is_edit(st: &Value) -> bool {
    !matches!(st["a"].as_str(), Some("Snapshot" | "CheckOut" | "SetSparse"))
}

/// projection of the whole state after a step
fn observe(env: &mut Env, stats: Value, err: &str) -> Result<Value, String> {
    env.ws.reload()?;
    let wc: &LocalWorkingCopy =
        env.ws.tw.workspace.working_copy().downcast_ref().ok_or("not a LocalWorkingCopy")?;
    let tree = jj_lib::working_copy::WorkingCopy::tree(wc).map_err(|e| e.to_string())?.clone();
    let states = wc.file_states().map_err(|e| e.to_string())?;
    let fs: Vec<Value> = PATHS
        .iter()
        .map(|p| match states.get(&repo_path(p)) {
            None => json!({"k":"none","x":false}),
            Some(s) => match s.file_type {
                FileType::Normal { .. } => json!({"k":"file","x": states.get_exec_bit(&repo_path(p)).is_some_and(|b| format!("{b:?}").contains("true"))}),
                FileType::Symlink => json!({"k":"symlink","x":false}),
                FileType::GitSubmodule => json!({"k":"submodule","x":false}),
            },
        })
        .collect();
    let n_states = states.iter().count();
    let n_states_universe = fs.iter().filter(|f| f["k"] != "none").count();
    let sparse: Vec<Vec<String>> = jj_lib::working_copy::WorkingCopy::sparse_patterns(wc)
        .map_err(|e| e.to_string())?
        .iter()
        .map(|p| p.components().map(|c| if c.as_internal_str() == ".gitignore" { "gi".to_string() } else { c.as_internal_str().to_string() }).collect())
        .collect();
    let tree_ids: Vec<String> = tree.tree_ids().iter().map(|id| id.hex()).collect();
    Ok(json!({
        "disk": env.project_disk(),
        "out": env.project_outside(),
        "tree": project_tree(env, &tree),
        "fs": fs,
        "sparse": sparse,
        "stats": stats,
        "err": err,
        "extra": env.extra_entries().len() + (n_states - n_states_universe),
        "nfs": n_states - n_states_universe,
        "tid": tree_ids.join(","),
    }))
}

fn exec_caught(env: &mut Env, st: &Value) -> Result<Result<Value, String>, String> {
    catch(std::panic::AssertUnwindSafe(|| exec_step(env, st)))
}

fn run_script(script: &Value) -> Result<Value, String> {
    let xp = script["xp"].as_str().unwrap_or("respect").to_string();
    let steps = script["steps"].as_array().ok_or("script without steps")?.clone();
    let mut env = Env::new(&xp);
    let mut obs = vec![];
    let mut done_steps = vec![];
    let mut truncated = String::new();
    for st in &steps {
        // A generated user edit presupposes the disk the MODEL expects.  If the real disk
        // does not admit it (jj left something else behind), the script ends here: the
        // judge has the observation of the jj step that made the difference.
        if is_edit(st) && !edit_applicable(&env, st) {
            truncated = format!("edit not applicable on the real disk: {st}");
            break;
        }
        let r = exec_caught(&mut env, st);
        done_steps.push(st.clone());
        let no_stats = json!({"added":0,"updated":0,"removed":0,"skipped":0});
        match r {
            Ok(Ok(_)) if is_edit(st) => {
                let o = observe_after_edit(&mut env, obs.last())?;
                obs.push(o);
            }
            Ok(Ok(stats)) => obs.push(observe(&mut env, stats, "")?),
            Ok(Err(e)) if e.starts_with("jj-error") => {
                obs.push(observe(&mut env, no_stats, "error")?);
                let n = obs.len();
                obs[n - 1]["msg"] = json!(e);
                break;
            }
            Ok(Err(e)) => return Err(format!("harness could not perform step {st}: {e}")),
            Err(p) => {
                // a panic inside jj: the process would die here; what a new process sees is data
                obs.push(observe(&mut env, no_stats, "panic")?);
                let n = obs.len();
                obs[n - 1]["msg"] = json!(p);
                break;
            }
        }
    }
    Ok(json!({"op":"wc","xp":xp,"steps":done_steps,"obs":obs,"truncated":truncated}))
}

fn paths_json() -> Value {
    json!(PATHS.iter().map(|p| p.to_vec()).collect::<Vec<_>>())
}

pub fn replay(opts: &Opts) -> Result<(), String> {
    jjconf::util::quiet_panics();
    let scripts = read_ndjson(&opts.str("in", "scripts.ndjson"))?;
    let mut out = Out::create(&opts.str("out", "obs.ndjson"))?;
    out.emit(&json!({"op":"universe","paths":paths_json(),"vocab":vocab_json()}));
    for (i, s) in scripts.iter().enumerate() {
        let mut r = run_script(s).map_err(|e| format!("script {i}: {e}"))?;
        r["case"] = json!(i);
        out.emit(&r);
    }
    out.finish();
    Ok(())
}

// ---------------------------------------------------------------------------
// I->S: seeded random scripts.  The driver draws twice as many steps as needed
// and drops the user edits the real disk does not admit (the file system's own
// enabling conditions); it predicts nothing about jj.

#[derive(Clone, Copy, PartialEq)]
enum K {
    Absent,
    File,
    Symlink,
    Dir,
    Special,
}

fn idx(p: &[&str]) -> usize {
    PATHS.iter().position(|q| *q == p).unwrap()
}

fn random_tree(rng: &mut Rng, conflicts: bool) -> Vec<Value> {
    let mut t: Vec<Value> = PATHS.iter().map(|_| absent()).collect();
    let leaf = |rng: &mut Rng, p: &[&str], conflicts: bool| -> Value {
        if is_ignore_path(p) {
            return val("file", rng.range(1, VOCAB.len()) as i64, false, "", vec![]);
        }
        match rng.below(if conflicts { 8 } else { 7 }) {
            0..=3 => val("file", rng.range(1, 2) as i64, rng.chance(1, 3), "", vec![]),
            4 => val("symlink", 0, false, if rng.chance(1, 2) { "f" } else { "out" }, vec![]),
            5 | 6 => val("file", rng.range(1, 2) as i64, false, "", vec![]),
            _ => {
                let perms: [[i64; 3]; 6] = [[1, 0, 2], [2, 0, 1], [1, 2, 0], [0, 2, 1], [2, 1, 0], [0, 1, 2]];
                let nonfile: [[i64; 3]; 4] = [[1, 2, -1], [-1, 0, 2], [2, 0, -1], [-1, 1, 2]];
                let m = if rng.chance(1, 3) { rng.pick(&nonfile).to_vec() } else { rng.pick(&perms).to_vec() };
                val("conflict", 0, false, "", m)
            }
        }
    };
    if rng.chance(1, 3) {
        t[idx(&["gi"])] = leaf(rng, &["gi"], false);
    }
    if rng.chance(2, 3) {
        t[idx(&["f"])] = leaf(rng, &["f"], conflicts);
    }
    match rng.below(4) {
        0 => {}
        1 => t[idx(&["d"])] = leaf(rng, &["d"], conflicts),
        _ => {
            let deep = rng.chance(1, 3);
            let dx: &[&str] = if deep { &["d", "x", "z"] } else { &["d", "x"] };
            for p in [&["d", "gi"][..], dx, &["d", "y"][..]] {
                let pr = if is_ignore_path(p) { 4 } else { 2 };
                if rng.chance(1, pr) {
                    t[idx(p)] = leaf(rng, p, conflicts);
                }
            }
        }
    }
    // one label set per tree
    let l = *rng.pick(&[0i64, 0, 1, 2]);
    for v in &mut t {
        if v["k"] == "conflict" {
            v["c"] = json!(l);
        }
    }
    t
}

fn random_script(rng: &mut Rng, len: usize, focus: &str) -> Value {
    let mut steps = vec![];
    let sparse_sets: Vec<Vec<Vec<&str>>> =
        vec![vec![vec![]], vec![vec!["d"]], vec![vec!["f"]], vec![vec!["d", "x"], vec!["f"]], vec![vec!["gi"], vec!["d", "y"]], vec![]];
    if focus == "snapshot" && rng.chance(1, 3) {
        // a tracked path one or two levels inside a directory that is ignored as a whole,
        // replaced by an empty directory / a directory with a new child / a special file
        let deep = rng.chance(1, 2);
        let tp: &[&str] = if deep { &["d", "x", "z"] } else { &["d", "x"] };
        let mut t: Vec<Value> = PATHS.iter().map(|_| absent()).collect();
        t[idx(&["gi"])] = val("file", *rng.pick(&[2i64, 7, 4]), false, "", vec![]);
        t[idx(tp)] = val("file", rng.range(1, 2) as i64, rng.chance(1, 3), "", vec![]);
        if rng.chance(1, 2) {
            t[idx(&["d", "y"])] = val("file", 1, false, "", vec![]);
        }
        steps.push(json!({"a":"CheckOut","tree":t}));
        if rng.chance(1, 3) {
            steps.push(json!({"a":"Snapshot"}));
        }
        match rng.below(4) {
            0 => steps.push(json!({"a":"Mkfifo","p":tp})),
            1 if !deep => {
                steps.push(json!({"a":"FileToDir","p":tp}));
                steps.push(json!({"a":"Write","p":["d","x","z"],"c":1}));
            }
            _ => steps.push(json!({"a":"FileToDir","p":tp})),
        }
        steps.push(json!({"a":"Snapshot"}));
    }
    if focus == "checkout" && rng.chance(1, 3) {
        // a directory at some depth replaced by a symlink to the outside sentinel (which has
        // the same sub-paths), then check-outs that modify / remove / add paths below it
        let mut t: Vec<Value> = PATHS.iter().map(|_| absent()).collect();
        t[idx(&["d", "x", "z"])] = val("file", rng.range(1, 2) as i64, rng.chance(1, 3), "", vec![]);
        if rng.chance(1, 2) {
            t[idx(&["d", "y"])] = val("file", 1, false, "", vec![]);
        }
        steps.push(json!({"a":"CheckOut","tree":t.clone()}));
        if rng.chance(1, 4) {
            steps.push(json!({"a":"Snapshot"}));
        }
        if rng.chance(2, 3) {
            steps.push(json!({"a":"DirToSymlink","p":["d"],"t":"out"}));
        } else {
            steps.push(json!({"a":"DirToSymlink","p":["d","x"],"t":"out/x"}));
        }
        for _ in 0..rng.range(1, 2) {
            match rng.below(4) {
                0 | 1 => {
                    // modify d/x/z in place (content or exec bit)
                    let old = t[idx(&["d", "x", "z"])].clone();
                    let c = 3 - old["c"].as_i64().unwrap_or(1).clamp(1, 2);
                    t[idx(&["d", "x", "z"])] = val("file", c, rng.chance(1, 3), "", vec![]);
                }
                2 => t[idx(&["d", "x", "z"])] = absent(),
                _ => t[idx(&["d", "y"])] = val("file", 2, false, "", vec![]),
            }
            steps.push(json!({"a":"CheckOut","tree":t.clone()}));
        }
    }
    let mut tries = 0;
    while steps.len() < len && tries < 1000 {
        tries += 1;
        let jj_weight = match focus {
            "snapshot" => (25, 4, 0),
            "checkout" => (15, 30, 0),
            "sparse" => (15, 10, 20),
            _ => (20, 15, 8),
        };
        let r = rng.below(100);
        if r < jj_weight.0 {
            steps.push(json!({"a":"Snapshot"}));
            continue;
        }
        if r < jj_weight.0 + jj_weight.1 {
            let with_conflicts = focus != "snapshot" || rng.chance(1, 4);
            let t = random_tree(rng, with_conflicts);
            // often switch to the same tree under another conflict-label set right away
            let relabel = t.iter().any(|v| v["k"] == "conflict") && rng.chance(1, 2);
            steps.push(json!({"a":"CheckOut","tree":t.clone()}));
            if relabel {
                let mut t2 = t.clone();
                for v in &mut t2 {
                    if v["k"] == "conflict" {
                        v["c"] = json!(v["c"].as_i64().unwrap_or(0) % 2 + 1);
                    }
                }
                steps.push(json!({"a":"CheckOut","tree":t2}));
            }
            continue;
        }
        if r < jj_weight.0 + jj_weight.1 + jj_weight.2 {
            steps.push(json!({"a":"SetSparse","sp": rng.pick(&sparse_sets)}));
            continue;
        }
        // a user edit; validity is checked against the real disk by the executor (see
        // `random`), so here we only draw the shape
        let p = *rng.pick(&PATHS);
        let c = if is_ignore_path(p) { rng.range(1, VOCAB.len()) } else { rng.range(1, 2) } as i64;
        // directories: mostly d, sometimes any other path (an empty directory where a file was)
        let dp: &[&str] = if rng.chance(1, 2) { &["d"] } else { *rng.pick(&[&["d", "x"][..], &["d", "x", "z"][..], &["d", "y"][..], &["f"][..], &["d"][..]]) };
        let cd = rng.range(1, 2) as i64;
        let e = match rng.below(14) {
            0..=3 => json!({"a":"Write","p":p,"c":c}),
            4 => json!({"a":"Write","p":p,"c":c,"old":true}),
            5 => json!({"a":"Chmod","p":p}),
            6 => json!({"a":"Symlink","p":p,"t": *rng.pick(&["f", "out", "out", "out/x"])}),
            7 | 8 => json!({"a":"Delete","p":p}),
            9 => json!({"a":"FileToDir","p":dp}),
            10 => json!({"a":"DirToSymlink","p":dp,"t": *rng.pick(&["out", "out/x"])}),
            11 => json!({"a":"DirToFile","p":dp,"c":cd}),
            12 => json!({"a":"Mkfifo","p":p}),
            _ => json!({"a":"RmTree","p":dp}),
        };
        steps.push(e);
    }
    json!({"steps": steps})
}

/// is the user edit applicable to the real disk right now? (the file system's own rules,
/// the same enabling conditions as the model's Can* predicates)
fn edit_applicable(env: &Env, st: &Value) -> bool {
    let a = st["a"].as_str().unwrap_or("");
    let pc = comps(&st["p"]);
    let p: Vec<&str> = pc.iter().map(|s| s.as_str()).collect();
    if p.is_empty() {
        return true;
    }
    let kind = |q: &[&str]| -> K {
        match std::fs::symlink_metadata(env.fs_path(q)) {
            Err(_) => K::Absent,
            Ok(m) if m.is_dir() => K::Dir,
            Ok(m) if m.file_type().is_symlink() => K::Symlink,
            Ok(m) if m.is_file() => K::File,
            Ok(_) => K::Special,
        }
    };
    let parent_ok = (1..p.len()).all(|n| kind(&p[..n]) == K::Dir);
    if !parent_ok {
        // below something that is not a real directory nothing exists (and the
        // "user" never reaches through a symlinked directory)
        return false;
    }
    let k = kind(&p);
    match a {
        "Write" => parent_ok && (k == K::Absent || k == K::File),
        "Chmod" => k == K::File && !is_ignore_path(&p),
        "Symlink" => matches!(k, K::Absent | K::File | K::Symlink) && !is_ignore_path(&p),
        "Delete" => matches!(k, K::File | K::Symlink | K::Special),
        "Mkfifo" => matches!(k, K::Absent | K::File | K::Symlink) && !is_ignore_path(&p),
        "FileToDir" => k != K::Dir && !is_ignore_path(&p),
        "RmTree" | "DirToFile" => k == K::Dir,
        "DirToSymlink" => k == K::Dir && !is_ignore_path(&p),
        _ => true,
    }
}

pub fn random(opts: &Opts) -> Result<(), String> {
    jjconf::util::quiet_panics();
    let mut out = Out::create(&opts.str("out", "obs.ndjson"))?;
    let seed = opts.u64("seed", 0);
    let n = opts.usize("n", 100);
    let len = opts.usize("len", 12);
    let focus = opts.str("focus", "mixed");
    let mut rng = Rng::new(seed ^ 0x5eed_0000);
    out.emit(&json!({"op":"universe","paths":paths_json(),"vocab":vocab_json()}));
    for i in 0..n {
        let xp = if rng.chance(1, 5) { "ignore" } else { "respect" };
        let draft = random_script(&mut rng, len * 2, &focus);
        // execute step by step, dropping user edits the real disk does not admit
        let mut env = Env::new(xp);
        let mut obs = vec![];
        let mut done = vec![];
        for st in draft["steps"].as_array().unwrap() {
            if done.len() >= len {
                break;
            }
            if !edit_applicable(&env, st) {
                continue;
            }
            let r = exec_caught(&mut env, st);
            done.push(st.clone());
            let no_stats = json!({"added":0,"updated":0,"removed":0,"skipped":0});
            match r {
                Ok(Ok(_)) if is_edit(st) => {
                    let o = observe_after_edit(&mut env, obs.last())?;
                    obs.push(o);
                }
                Ok(Ok(stats)) => obs.push(observe(&mut env, stats, "")?),
                Ok(Err(e)) if e.starts_with("jj-error") => {
                    let mut o = observe(&mut env, no_stats, "error")?;
                    o["msg"] = json!(e);
                    obs.push(o);
                    break;
                }
                Ok(Err(e)) => return Err(format!("random script {i}: harness could not perform {st}: {e}")),
                Err(p) => {
                    let mut o = observe(&mut env, no_stats, "panic")?;
                    o["msg"] = json!(p);
                    obs.push(o);
                    break;
                }
            }
        }
        out.emit(&json!({"op":"wc","case":i,"xp":xp,"steps":done,"obs":obs}));
    }
    out.finish();
    Ok(())
}
