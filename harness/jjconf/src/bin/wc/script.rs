use jjconf::util::Opts;
pub fn replay(_opts: &Opts) -> Result<(), String> { Err("todo".into()) }
pub fn random(_opts: &Opts) -> Result<(), String> { Err("todo".into()) }
