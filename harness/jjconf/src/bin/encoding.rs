//! `encoding` binary: C16 / C17 / C43 replayers (spec/Encoding.tla, spec/SecureConfig.tla).
//!
//! S→I: TLC (MC_Encoding / MC_SecureConfig) generates abstract values /
//! behaviours; this binary concretises them, runs the REAL jj code
//! (SimpleOpStore, Store + Git/Simple backends, SecureConfig), projects what
//! came back into the spec's vocabulary and logs it.  It decides nothing: the
//! trace judges (Trace_Encoding, Trace_SecureConfig) do.
use std::process::ExitCode;

use jjconf::util;

#[path = "encoding/abs.rs"]
mod abs;
#[path = "encoding/commits.rs"]
mod commits;
#[path = "encoding/secure.rs"]
mod secure;
#[path = "encoding/views.rs"]
mod views;

fn main() -> ExitCode {
    let args: Vec<String> = std::env::args().collect();
    if args.len() < 2 {
        eprintln!("usage: encoding <views|commits|secure> [--key value]...");
        return ExitCode::from(2);
    }
    let opts = util::Opts::parse(&args[2..]);
    util::quiet_panics();
    let r = match args[1].as_str() {
        "views" => views::run(&opts),
        "commits" => commits::run(&opts),
        "secure" => secure::run(&opts),
        m => Err(format!("unknown mode {m}")),
    };
    match r {
        Ok(()) => ExitCode::SUCCESS,
        Err(e) => {
            eprintln!("encoding: {e}");
            ExitCode::from(2)
        }
    }
}
