//! `paths` binary: group "fn" (C30 Matchers, C31 Fileset, C32 Paths,
//! C33 RefNames, C35 Quote, C36 Grammar).  Every mode replays cases that TLC
//! generated from the spec (S->I) through the REAL jj functions and logs what
//! they returned; the Trace_* specs judge the log.  Nothing is decided here.
use std::process::ExitCode;

use jjconf::util;

#[path = "paths/matchers.rs"]
mod matchers;
#[path = "paths/fileset.rs"]
mod fileset;
#[path = "paths/fspaths.rs"]
mod fspaths;
#[path = "paths/refnames.rs"]
mod refnames;
#[path = "paths/quote.rs"]
mod quote;
#[path = "paths/chartab.rs"]
mod chartab;
#[path = "paths/parse_worker.rs"]
mod parse_worker;
#[path = "paths/parse_lib.rs"]
mod parse_lib;
#[path = "paths/grammar_text.rs"]
mod grammar_text;

fn main() -> ExitCode {
    let args: Vec<String> = std::env::args().collect();
    if args.len() < 2 {
        eprintln!("usage: paths <mode> [--key value]...");
        return ExitCode::from(2);
    }
    let opts = util::Opts::parse(&args[2..]);
    let r = match args[1].as_str() {
        "matchers" => matchers::run(&opts),
        "fileset" => fileset::run(&opts),
        "fspaths" => fspaths::run(&opts),
        "refnames" => refnames::run(&opts),
        "quote" => quote::run(&opts),
        "parse-supervise" => parse_worker::supervise(&args[2..], "parse-worker"),
        "parse-worker" => parse_worker::worker(&args[2..], parse_lib::parse_case),
        m => Err(format!("unknown mode {m}")),
    };
    match r {
        Ok(()) => ExitCode::SUCCESS,
        Err(e) => {
            eprintln!("paths: {e}");
            ExitCode::from(2)
        }
    }
}
