//! `dump` binary (group "cli": C09, C40, C41, C42): projects the on-disk
//! state of a jj repository to JSON.  It decides nothing.
//!
//!   dump state --ws <workspace root> [--extra-ws <root>,<root>...] [--digest-all]
//!
//! prints one JSON object:
//!   op_heads   ids of the current operation heads
//!   ops        every operation reachable from the heads (children before parents):
//!              id, parents, desc, snapshot, ws, and the view: heads, bookmarks,
//!              tags, remotes, wc (workspace name -> commit id)
//!   commits    every commit reachable from any of those views: change id,
//!              description, parents, tree (tree ids, "+"-joined when conflicted),
//!              empty (tree equals the merged parent tree is NOT computed; only
//!              tree==single parent's tree), and `digest`: a digest of the files
//!              as the working copy would materialise them (for working-copy
//!              commits, or for all commits with --digest-all)
//!   wcstate    per workspace root given: workspace name, operation id and
//!              tree/digest recorded in .jj/working_copy
//!
//! The file digest is FNV-1a-64 over, for every path in byte order,
//!   path "\0" kind "\0" len "\0" bytes "\n"     kind = "x" | "-" | "l"
//! which checks/cli_driver.py computes identically for a directory on disk.
use std::collections::BTreeMap;
use std::collections::HashMap;
use std::collections::HashSet;
use std::path::Path;
use std::process::ExitCode;
use std::sync::Arc;

use jj_lib::backend::CommitId;
use jj_lib::backend::TreeValue;
use jj_lib::conflicts::ConflictMarkerStyle;
use jj_lib::conflicts::ConflictMaterializeOptions;
use jj_lib::conflicts::MaterializedTreeValue;
use jj_lib::conflicts::choose_materialized_conflict_marker_len;
use jj_lib::conflicts::materialize_merge_result_to_bytes;
use jj_lib::conflicts::materialize_tree_value;
use jj_lib::default_backend_factories::default_backend_factories;
use jj_lib::default_backend_factories::default_working_copy_factories;
use jj_lib::merged_tree::MergedTree;
use jj_lib::object_id::ObjectId as _;
use jj_lib::op_store::RefTarget;
use jj_lib::operation::Operation;
use jj_lib::settings::UserSettings;
use jj_lib::store::Store;
use jj_lib::workspace::Workspace;
use jjconf::util::Opts;
use pollster::block_on;
use serde_json::Value;
use serde_json::json;

fn fnv(h: &mut u64, bytes: &[u8]) {
    for b in bytes {
        *h ^= u64::from(*b);
        *h = h.wrapping_mul(0x0000_0100_0000_01B3);
    }
}

fn target_json(t: &RefTarget) -> Value {
    Value::Array(
        t.as_merge()
            .iter()
            .map(|x| match x {
                Some(id) => json!(id.hex()),
                None => json!(""),
            })
            .collect(),
    )
}

fn tree_key(tree: &MergedTree) -> String {
    tree.tree_ids()
        .iter()
        .map(|id| id.hex())
        .collect::<Vec<_>>()
        .join("+")
}

fn tree_digest(
    store: &Arc<Store>,
    style: ConflictMarkerStyle,
    tree: &MergedTree,
) -> Result<String, String> {
    let mut h: u64 = 0xcbf2_9ce4_8422_2325;
    let mut entries: Vec<(String, &'static str, Vec<u8>)> = vec![];
    for (path, value) in tree.entries() {
        let value = value.map_err(|e| e.to_string())?;
        let m = block_on(materialize_tree_value(store, &path, value, tree.labels()))
            .map_err(|e| e.to_string())?;
        let p = path.as_internal_file_string().to_owned();
        match m {
            MaterializedTreeValue::Absent => {}
            MaterializedTreeValue::AccessDenied(e) => return Err(e.to_string()),
            MaterializedTreeValue::File(mut f) => {
                let bytes = block_on(f.read_all(&path)).map_err(|e| e.to_string())?;
                entries.push((p, if f.executable { "x" } else { "-" }, bytes));
            }
            MaterializedTreeValue::Symlink { target, .. } => {
                entries.push((p, "l", target.into_bytes()));
            }
            MaterializedTreeValue::FileConflict(file) => {
                let len = choose_materialized_conflict_marker_len(&file.contents);
                let options = ConflictMaterializeOptions {
                    marker_style: style,
                    marker_len: Some(len),
                    merge: store.merge_options().clone(),
                };
                let bytes =
                    materialize_merge_result_to_bytes(&file.contents, &file.labels, &options);
                let exec = file.executable.unwrap_or(false);
                entries.push((p, if exec { "x" } else { "-" }, bytes.into()));
            }
            MaterializedTreeValue::OtherConflict { id, labels } => {
                entries.push((p, "-", id.describe(&labels).into_bytes()));
            }
            MaterializedTreeValue::GitSubmodule(_) => entries.push((p, "s", vec![])),
            MaterializedTreeValue::Tree(_) => return Err("tree entry".to_string()),
        }
    }
    entries.sort();
    for (p, k, bytes) in entries {
        fnv(&mut h, p.as_bytes());
        fnv(&mut h, b"\0");
        fnv(&mut h, k.as_bytes());
        fnv(&mut h, b"\0");
        fnv(&mut h, bytes.len().to_string().as_bytes());
        fnv(&mut h, b"\0");
        fnv(&mut h, &bytes);
        fnv(&mut h, b"\n");
    }
    Ok(format!("{h:016x}"))
}

/// per-path listing of a tree: path -> "kind:fnv(content)" or "conflict:<n terms>"
fn tree_paths(store: &Arc<Store>, tree: &MergedTree) -> Result<Value, String> {
    let mut out = serde_json::Map::new();
    for (path, value) in tree.entries() {
        let value = value.map_err(|e| e.to_string())?;
        let p = path.as_internal_file_string().to_owned();
        let v = match value.as_resolved() {
            Some(Some(TreeValue::File { id, executable, .. })) => {
                format!("{}:{}", if *executable { "x" } else { "-" }, &id.hex()[..12])
            }
            Some(Some(TreeValue::Symlink(id))) => format!("l:{}", &id.hex()[..12]),
            Some(Some(_)) => "other".to_string(),
            Some(None) => continue,
            None => {
                // normal form of a conflict: simplified, adds and removes sorted
                let simp = value.clone().simplify();
                let tok = |t: &Option<TreeValue>| match t {
                    None => "absent".to_string(),
                    Some(TreeValue::File { id, executable, .. }) => {
                        format!("{}:{}", if *executable { "x" } else { "-" }, &id.hex()[..12])
                    }
                    Some(TreeValue::Symlink(id)) => format!("l:{}", &id.hex()[..12]),
                    Some(_) => "other".to_string(),
                };
                let mut adds: Vec<String> = simp.adds().map(tok).collect();
                let mut removes: Vec<String> = simp.removes().map(tok).collect();
                adds.sort();
                removes.sort();
                format!("conflict:+{}:-{}", adds.join("+"), removes.join("-"))
            }
        };
        out.insert(p, json!(v));
    }
    let _ = store;
    Ok(Value::Object(out))
}

fn load_ws(settings: &UserSettings, path: &str) -> Result<Workspace, String> {
    Workspace::load(
        settings,
        Path::new(path),
        &default_backend_factories(),
        &default_working_copy_factories(),
    )
    .map_err(|e| format!("load workspace {path}: {e}"))
}

fn run(opts: &Opts) -> Result<Value, String> {
    let settings = testutils::user_settings();
    let style: ConflictMarkerStyle = settings
        .get("ui.conflict-marker-style")
        .map_err(|e| e.to_string())?;
    let ws_path = opts.get("ws").ok_or("--ws required")?.to_string();
    let ws = load_ws(&settings, &ws_path)?;
    let loader = ws.repo_loader();
    let store = loader.store().clone();
    let op_store = loader.op_store().clone();
    let head_ids = block_on(loader.op_heads_store().get_op_heads()).map_err(|e| e.to_string())?;
    let mut head_hex: Vec<String> = head_ids.iter().map(|id| id.hex()).collect();
    head_hex.sort();

    // all operations reachable from the heads (DFS; emit children before parents)
    let mut ops: Vec<Operation> = vec![];
    let mut seen = HashSet::new();
    let mut stack = vec![];
    for id in &head_ids {
        let data = block_on(op_store.read_operation(id)).map_err(|e| e.to_string())?;
        stack.push(Operation::new(op_store.clone(), id.clone(), data));
    }
    while let Some(op) = stack.pop() {
        if !seen.insert(op.id().clone()) {
            continue;
        }
        for p in block_on(op.parents()).map_err(|e| e.to_string())? {
            stack.push(p);
        }
        ops.push(op);
    }
    // order: by end time descending, then id (stable, newest first)
    ops.sort_by(|a, b| {
        b.metadata()
            .time
            .end
            .timestamp
            .cmp(&a.metadata().time.end.timestamp)
            .then_with(|| a.id().hex().cmp(&b.id().hex()))
    });

    let mut ops_json = vec![];
    let mut roots: Vec<CommitId> = vec![];
    let mut wc_commits: HashSet<CommitId> = HashSet::new();
    for op in &ops {
        let view = block_on(op.view()).map_err(|e| e.to_string())?;
        let v = view.store_view();
        let mut heads: Vec<String> = v.head_ids.iter().map(|id| id.hex()).collect();
        heads.sort();
        roots.extend(v.head_ids.iter().cloned());
        let mut bookmarks = serde_json::Map::new();
        for (name, t) in &v.local_bookmarks {
            bookmarks.insert(name.as_str().to_owned(), target_json(t));
            roots.extend(t.added_ids().cloned());
            roots.extend(t.removed_ids().cloned());
        }
        let mut tags = serde_json::Map::new();
        for (name, t) in &v.local_tags {
            tags.insert(name.as_str().to_owned(), target_json(t));
            roots.extend(t.added_ids().cloned());
            roots.extend(t.removed_ids().cloned());
        }
        let mut remotes = serde_json::Map::new();
        for (remote, rv) in &v.remote_views {
            for (name, r) in &rv.bookmarks {
                remotes.insert(
                    format!("{}@{}", name.as_str(), remote.as_str()),
                    json!({"target": target_json(&r.target), "tracked": r.is_tracked()}),
                );
            }
            for (name, r) in &rv.tags {
                remotes.insert(
                    format!("tag:{}@{}", name.as_str(), remote.as_str()),
                    json!({"target": target_json(&r.target), "tracked": r.is_tracked()}),
                );
            }
        }
        let mut wc = serde_json::Map::new();
        for (name, id) in &v.wc_commit_ids {
            wc.insert(name.as_str().to_owned(), json!(id.hex()));
            roots.push(id.clone());
            wc_commits.insert(id.clone());
        }
        let md = op.metadata();
        ops_json.push(json!({
            "id": op.id().hex(),
            "parents": op.parent_ids().iter().map(|p| p.hex()).collect::<Vec<_>>(),
            "desc": md.description,
            "snapshot": md.is_snapshot,
            "ws": md.workspace_name.as_ref().map(|n| n.as_str().to_owned()).unwrap_or_default(),
            "view": {"heads": heads, "bookmarks": bookmarks, "tags": tags, "remotes": remotes, "wc": wc},
        }));
    }

    // all commits reachable from those views
    let digest_all = opts.flag("digest-all");
    let with_paths = opts.flag("paths");
    let mut commits = serde_json::Map::new();
    let mut digests: HashMap<String, String> = HashMap::new();
    let mut done = HashSet::new();
    let mut stack = roots;
    while let Some(id) = stack.pop() {
        if !done.insert(id.clone()) {
            continue;
        }
        let c = store.get_commit(&id).map_err(|e| e.to_string())?;
        let tree = c.tree();
        let key = tree_key(&tree);
        let mut j = json!({
            "change": c.change_id().reverse_hex(),
            "desc": c.description(),
            "parents": c.parent_ids().iter().map(|p| p.hex()).collect::<Vec<_>>(),
            "tree": key,
            "conflict": c.has_conflict(),
        });
        if digest_all || wc_commits.contains(&id) {
            let d = match digests.get(&key) {
                Some(d) => d.clone(),
                None => {
                    let d = tree_digest(&store, style, &tree)?;
                    digests.insert(key.clone(), d.clone());
                    d
                }
            };
            j["digest"] = json!(d);
        }
        if with_paths {
            let paths = tree_paths(&store, &tree)?;
            // token of the tree modulo the representation of conflicts
            let mut h: u64 = 0xcbf2_9ce4_8422_2325;
            fnv(&mut h, paths.to_string().as_bytes());
            j["norm"] = json!(format!("{h:016x}"));
            j["paths"] = paths;
        }
        commits.insert(id.hex(), j);
        stack.extend(c.parent_ids().iter().cloned());
    }

    // working-copy state files
    let mut wcstate = serde_json::Map::new();
    let mut ws_paths = vec![ws_path.clone()];
    if let Some(extra) = opts.get("extra-ws") {
        ws_paths.extend(extra.split(',').filter(|s| !s.is_empty()).map(String::from));
    }
    for p in ws_paths {
        let w = if p == ws_path { None } else { Some(load_ws(&settings, &p)?) };
        let w = w.as_ref().unwrap_or(&ws);
        let wc = w.working_copy();
        let tree = wc.tree().map_err(|e| e.to_string())?;
        let key = tree_key(tree);
        let d = match digests.get(&key) {
            Some(d) => d.clone(),
            None => tree_digest(&store, style, tree)?,
        };
        wcstate.insert(
            p,
            json!({"name": wc.workspace_name().as_str(), "op": wc.operation_id().hex(),
                   "tree": key, "digest": d}),
        );
    }
    let _: BTreeMap<(), ()> = BTreeMap::new();
    Ok(json!({"op_heads": head_hex, "ops": ops_json, "commits": commits, "wcstate": wcstate}))
}

fn main() -> ExitCode {
    let args: Vec<String> = std::env::args().collect();
    if args.len() < 2 || args[1] != "state" {
        eprintln!("usage: dump state --ws <root> [--extra-ws a,b] [--digest-all] [--paths]");
        return ExitCode::from(2);
    }
    let opts = Opts::parse(&args[2..]);
    match run(&opts) {
        Ok(v) => {
            println!("{v}");
            ExitCode::SUCCESS
        }
        Err(e) => {
            eprintln!("dump: {e}");
            ExitCode::from(2)
        }
    }
}
