//! `index` binary: recorders/replayers for the index group
//! (C18 IndexSegments, C19 Revset, C20 IdPrefix, C22 ChangedPaths, C39 GraphLog).
//! Every mode executes the REAL jj code and logs what it answered; the TLA+
//! trace specs under /verif/spec judge the logs.
use std::process::ExitCode;

use jjconf::util;

#[path = "index/world.rs"]
mod world;
#[path = "index/hist.rs"]
mod hist;
#[path = "index/revset.rs"]
mod revset;
#[path = "index/graph.rs"]
mod graph;
#[path = "index/prefix.rs"]
mod prefix;

fn run(mode: &str, opts: &util::Opts) -> Result<(), String> {
    match mode {
        // C18
        "hist" => hist::replay(opts, hist::Want::Graph),
        "long" => hist::long(opts, hist::Want::Graph),
        // C22
        "cp-hist" => hist::replay(opts, hist::Want::Paths),
        "cp-long" => hist::long(opts, hist::Want::Paths),
        // C19
        "revset-replay" => revset::replay(opts),
        "revset-random" => revset::random(opts),
        // C39
        "graph-replay" => graph::replay(opts),
        "graph-random" => graph::random(opts),
        // C20
        "prefix" => prefix::record(opts),
        m => Err(format!("index: unknown mode {m}")),
    }
}

fn main() -> ExitCode {
    // testutils' TestBackend owns one tokio runtime per loaded store; with the
    // default of one worker per CPU every reload spawns a thread pool.
    if std::env::var_os("TOKIO_WORKER_THREADS").is_none() {
        // SAFETY: single-threaded at this point
        unsafe { std::env::set_var("TOKIO_WORKER_THREADS", "1") };
    }
    let args: Vec<String> = std::env::args().collect();
    if args.len() < 2 {
        eprintln!("usage: index <mode> [--key value]...");
        return ExitCode::from(2);
    }
    let opts = util::Opts::parse(&args[2..]);
    match run(&args[1], &opts) {
        Ok(()) => ExitCode::SUCCESS,
        Err(e) => {
            eprintln!("index: {e}");
            ExitCode::from(2)
        }
    }
}
