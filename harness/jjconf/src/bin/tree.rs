//! `tree` binary: recorders / replayers for the "tree" group
//!   C07  tree merge        (spec/Tree.tla)      `tree merge`
//!   C08  rebase laws       (spec/Tree.tla)      `tree rebase`
//!   C37  bisection         (spec/Bisect.tla)    `tree bisect`
//!   C38  annotate          (spec/Annotate.tla)  `tree annotate`
//! Every mode reads cases (TLC-generated ndjson, or its own seeded generator),
//! runs the REAL jj-lib code and writes one record per case.  It decides nothing.
use std::process::ExitCode;

use jjconf::util;

#[path = "tree/common.rs"]
mod common;
#[path = "tree/c07.rs"]
mod c07;
#[path = "tree/c08.rs"]
mod c08;
#[path = "tree/c37.rs"]
mod c37;
#[path = "tree/c38.rs"]
mod c38;

fn main() -> ExitCode {
    let args: Vec<String> = std::env::args().collect();
    if args.len() < 2 {
        eprintln!("usage: tree <merge|rebase|bisect|annotate> [--key value]...");
        return ExitCode::from(2);
    }
    let opts = util::Opts::parse(&args[2..]);
    util::quiet_panics();
    let r = match args[1].as_str() {
        "merge" => c07::run(&opts),
        "rebase" => c08::run(&opts),
        "bisect" => c37::run(&opts),
        "annotate" => c38::run(&opts),
        m => Err(format!("unknown mode {m}")),
    };
    match r {
        Ok(()) => ExitCode::SUCCESS,
        Err(e) => {
            eprintln!("tree: {e}");
            ExitCode::from(2)
        }
    }
}
