//! `gitsync` binary: C34 (spec/GitSync.tla), C45 (spec/GitPush.tla), C28
//! (spec/GitIgnore.tla).  Replayer / recorder only: it executes model actions
//! against the real jj code and real `git`, projects the resulting state to
//! the model's vocabulary and logs it.  It decides nothing; TLC judges.
//!
//!   gitsync sync   --out t.ndjson [--replay beh.ndjson] [--random N --seed S ...]
//!   gitsync push   --out t.ndjson [--replay beh.ndjson] [--random N --seed S ...]
//!   gitsync ignore --vocab vocab.json --out t.ndjson ...
use std::process::ExitCode;

use jjconf::util;

#[path = "gitsync/common.rs"]
mod common;
#[path = "gitsync/ignore.rs"]
mod ignore;
#[path = "gitsync/push.rs"]
mod push;
#[path = "gitsync/sync.rs"]
mod sync;

fn main() -> ExitCode {
    let args: Vec<String> = std::env::args().collect();
    if args.len() < 2 {
        eprintln!("usage: gitsync <sync|push|ignore> [--key value]...");
        return ExitCode::from(2);
    }
    let opts = util::Opts::parse(&args[2..]);
    testutils::hermetic_git();
    common::hermetic_env();
    let r = match args[1].as_str() {
        "sync" => sync::run(&opts),
        "push" => push::run(&opts),
        "ignore" => ignore::run(&opts),
        other => Err(format!("unknown mode {other}")),
    };
    match r {
        Ok(()) => ExitCode::SUCCESS,
        Err(e) => {
            eprintln!("gitsync: {e}");
            ExitCode::from(2)
        }
    }
}
