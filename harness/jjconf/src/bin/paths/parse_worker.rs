//! C36 case runner shared by `paths` (revset, fileset) and `jjcli`
//! (template).  std + serde_json only.
//!
//! `supervise`: splits the case file into contiguous shards and runs one
//! *child process* per shard (`<exe> <worker-cmd> --cases f --from a --to b`),
//! restarting the child after the case it died on.  A case therefore ends in
//! exactly one observed outcome:
//!   ok | err          the parser returned                       (in child)
//!   panic             the parser panicked (caught in the child)
//!   timeout           the case exceeded the per-case limit; child exited(3)
//!   signal            the child was killed (stack overflow -> SIGABRT/SIGSEGV)
//!   exit              the child exited with an unexpected status
//! `worker`: runs cases on a thread with a fixed 8 MiB stack (the size of a
//! default main-thread stack), under a watchdog.
//!
//! Output (one record per case, or per batch of plain sentences):
//!   {"i":idx,"case":{...},"outcome":"ok","kind":"","detail":""}
//!   {"batch":true,"lang":L,"from":i,"n":k,"outcomes":{"ok":n1,"err":n2}}
//! Sentence cases ("t":"sent") whose outcome is ok/err are only counted in
//! batch records; every other case and every other outcome is written out.
use std::collections::BTreeMap;
use std::io::BufRead as _;
use std::io::Write as _;
use std::os::unix::process::ExitStatusExt as _;
use std::sync::Arc;
use std::sync::Mutex;
use std::sync::atomic::AtomicU64;
use std::sync::atomic::Ordering;
use std::time::Duration;
use std::time::Instant;

use serde_json::Value;
use serde_json::json;

pub const STACK_BYTES: usize = 8 << 20;

fn arg<'a>(args: &'a [String], key: &str) -> Option<&'a str> {
    args.iter().position(|a| a == key).and_then(|i| args.get(i + 1)).map(|s| s.as_str())
}

fn arg_num(args: &[String], key: &str, default: u64) -> u64 {
    arg(args, key).and_then(|s| s.parse().ok()).unwrap_or(default)
}

fn read_lines(path: &str) -> Result<Vec<String>, String> {
    let f = std::fs::File::open(path).map_err(|e| format!("open {path}: {e}"))?;
    let mut out = vec![];
    for line in std::io::BufReader::new(f).lines() {
        let line = line.map_err(|e| e.to_string())?;
        if !line.trim().is_empty() {
            out.push(line);
        }
    }
    Ok(out)
}

/// Result of the parser under test on one case: (outcome, kind, detail).
pub type Outcome = (String, String, String);

/// Child: run cases [from, to) and append one line per case to --out:
///   {"i":idx,"outcome":..,"kind":..,"detail":..}
pub fn worker(args: &[String], parse_case: fn(&Value) -> Outcome) -> Result<(), String> {
    let lines = read_lines(arg(args, "--cases").ok_or("--cases")?)?;
    let from = arg_num(args, "--from", 0) as usize;
    let to = (arg_num(args, "--to", lines.len() as u64) as usize).min(lines.len());
    let timeout = Duration::from_millis(arg_num(args, "--timeout-ms", 5000));
    let out_path = arg(args, "--out").ok_or("--out")?.to_string();
    let out = std::fs::OpenOptions::new()
        .create(true)
        .append(true)
        .open(&out_path)
        .map_err(|e| format!("open {out_path}: {e}"))?;
    let out = Arc::new(Mutex::new(out));
    // (case index + 1, start time in ms since t0); 0 = idle
    let current = Arc::new(AtomicU64::new(0));
    let started = Arc::new(AtomicU64::new(0));
    let t0 = Instant::now();
    std::panic::set_hook(Box::new(|_| {}));
    let (out2, current2, started2) = (out.clone(), current.clone(), started.clone());
    let handle = std::thread::Builder::new()
        .stack_size(STACK_BYTES)
        .spawn(move || {
            for (i, line) in lines.iter().enumerate().take(to).skip(from) {
                let case: Value = match serde_json::from_str(line) {
                    Ok(v) => v,
                    Err(e) => {
                        let mut f = out2.lock().unwrap();
                        let _ = writeln!(f, "{}", json!({"i": i, "outcome": "harness-error", "kind": "", "detail": e.to_string()}));
                        continue;
                    }
                };
                started2.store(t0.elapsed().as_millis() as u64, Ordering::SeqCst);
                current2.store(i as u64 + 1, Ordering::SeqCst);
                let r = std::panic::catch_unwind(|| parse_case(&case));
                current2.store(0, Ordering::SeqCst);
                let (outcome, kind, detail) = match r {
                    Ok(o) => o,
                    Err(e) => {
                        let msg = if let Some(s) = e.downcast_ref::<&str>() {
                            s.to_string()
                        } else if let Some(s) = e.downcast_ref::<String>() {
                            s.clone()
                        } else {
                            "panic".to_string()
                        };
                        ("panic".to_string(), String::new(), msg)
                    }
                };
                let mut f = out2.lock().unwrap();
                let _ = writeln!(f, "{}", json!({"i": i, "outcome": outcome, "kind": kind, "detail": detail}));
            }
        })
        .map_err(|e| e.to_string())?;
    // watchdog
    loop {
        if handle.is_finished() {
            return handle.join().map_err(|_| "worker thread panicked".to_string());
        }
        let cur = current.load(Ordering::SeqCst);
        if cur != 0 {
            let since = (t0.elapsed().as_millis() as u64).saturating_sub(started.load(Ordering::SeqCst));
            if since > timeout.as_millis() as u64 && current.load(Ordering::SeqCst) == cur {
                let mut f = out.lock().unwrap();
                let _ = writeln!(f, "{}", json!({"i": cur - 1, "outcome": "timeout", "kind": "", "detail": format!("> {} ms", timeout.as_millis())}));
                let _ = f.flush();
                std::process::exit(3);
            }
        }
        std::thread::sleep(Duration::from_millis(20));
    }
}

fn run_shard(
    exe: &std::path::Path,
    worker_cmd: &str,
    cases_path: &str,
    shard_out: &str,
    from: usize,
    to: usize,
    timeout_ms: u64,
) -> Result<Vec<Value>, String> {
    let _ = std::fs::remove_file(shard_out);
    let mut next = from;
    let mut results: Vec<Value> = vec![];
    while next < to {
        let child = std::process::Command::new(exe)
            .arg(worker_cmd)
            .args(["--cases", cases_path, "--out", shard_out])
            .args(["--from", &next.to_string(), "--to", &to.to_string()])
            .args(["--timeout-ms", &timeout_ms.to_string()])
            .env("RUST_BACKTRACE", "0")
            .stdin(std::process::Stdio::null())
            .stdout(std::process::Stdio::null())
            .stderr(std::process::Stdio::piped())
            .output()
            .map_err(|e| format!("spawn worker: {e}"))?;
        let done: Vec<Value> = read_lines(shard_out)
            .unwrap_or_default()
            .iter()
            .filter_map(|l| serde_json::from_str(l).ok())
            .collect();
        let _ = std::fs::remove_file(shard_out);
        let mut expect = next;
        for r in done {
            if r["i"].as_u64() != Some(expect as u64) {
                return Err(format!("worker wrote case {} where {expect} was expected", r["i"]));
            }
            results.push(r);
            expect += 1;
        }
        next = expect;
        let status = child.status;
        if status.success() {
            if next < to {
                return Err(format!("worker exited early at case {next} of {to}"));
            }
        } else if status.code() == Some(3) {
            // the timeout record was written by the watchdog; continue after it.  An alias
            // case is tiny: a timeout there means non-termination unless the machine stalled,
            // so it is run once more, alone, with six times the limit.
            let is_alias = results.last().is_some_and(|r| r["outcome"] == "timeout")
                && read_lines(cases_path)?
                    .get(next - 1)
                    .and_then(|l| serde_json::from_str::<Value>(l).ok())
                    .is_some_and(|c| c["t"] == "alias");
            if is_alias && timeout_ms < 1_000_000 {
                let again = run_shard(exe, worker_cmd, cases_path, &format!("{shard_out}.retry"), next - 1, next, timeout_ms * 6)?;
                if let (Some(slot), Some(r)) = (results.last_mut(), again.into_iter().next()) {
                    *slot = r;
                }
            }
        } else if status.code() == Some(2) {
            // the worker itself failed (unreadable case file, ...): tool trouble, not an outcome
            return Err(format!("worker error: {}", String::from_utf8_lossy(&child.stderr)));
        } else if next < to {
            let stderr = String::from_utf8_lossy(&child.stderr);
            let tail: String = stderr.chars().rev().take(300).collect::<Vec<_>>().into_iter().rev().collect();
            let (outcome, kind) = match status.signal() {
                Some(sig) => (
                    "signal",
                    if stderr.contains("stack overflow") || stderr.contains("overflowed its stack") {
                        "stack-overflow".to_string()
                    } else {
                        format!("signal-{sig}")
                    },
                ),
                None => ("exit", format!("code-{}", status.code().unwrap_or(-1))),
            };
            results.push(json!({"i": next, "outcome": outcome, "kind": kind, "detail": tail}));
            next += 1;
        } else {
            return Err(format!("worker failed after its last case: {status}"));
        }
    }
    Ok(results)
}

/// Parent: `--cases f --out g [--jobs n] [--timeout-ms t] [--batch k]`.
pub fn supervise(args: &[String], worker_cmd: &str) -> Result<(), String> {
    let cases_path = arg(args, "--cases").ok_or("--cases")?.to_string();
    let out_path = arg(args, "--out").ok_or("--out")?.to_string();
    let jobs = arg_num(args, "--jobs", 4).max(1) as usize;
    let timeout_ms = arg_num(args, "--timeout-ms", 5000);
    let batch = arg_num(args, "--batch", 1000).max(1) as usize;
    let lines = read_lines(&cases_path)?;
    let n = lines.len();
    let exe = std::env::current_exe().map_err(|e| e.to_string())?;
    let per = n.div_ceil(jobs).max(1);
    let mut handles = vec![];
    for j in 0..jobs {
        let (from, to) = ((j * per).min(n), ((j + 1) * per).min(n));
        if from >= to {
            continue;
        }
        let (exe, cases_path, worker_cmd) = (exe.clone(), cases_path.clone(), worker_cmd.to_string());
        let shard_out = format!("{out_path}.shard{j}");
        handles.push(std::thread::spawn(move || {
            run_shard(&exe, &worker_cmd, &cases_path, &shard_out, from, to, timeout_ms)
        }));
    }
    let mut results: Vec<Value> = vec![];
    for h in handles {
        results.extend(h.join().map_err(|_| "supervisor thread panicked".to_string())??);
    }
    if results.len() != n {
        return Err(format!("{} results for {n} cases", results.len()));
    }
    let mut out = std::io::BufWriter::new(std::fs::File::create(&out_path).map_err(|e| e.to_string())?);
    // batch the uneventful sentence cases
    let mut pending: Option<(String, usize, usize, BTreeMap<String, u64>)> = None; // lang, from, n, counts
    let flush = |p: &mut Option<(String, usize, usize, BTreeMap<String, u64>)>, out: &mut dyn std::io::Write| {
        if let Some((lang, from, n, counts)) = p.take() {
            let _ = writeln!(out, "{}", json!({"batch": true, "lang": lang, "from": from, "n": n, "outcomes": counts}));
        }
    };
    for (i, r) in results.iter().enumerate() {
        let case: Value = serde_json::from_str(&lines[i]).map_err(|e| e.to_string())?;
        let outcome = r["outcome"].as_str().unwrap_or("?");
        let plain = case["t"].as_str() == Some("sent") && (outcome == "ok" || outcome == "err");
        if plain {
            let lang = case["lang"].as_str().unwrap_or("?").to_string();
            let same = matches!(&pending, Some((l, _, k, _)) if *l == lang && *k < batch);
            if !same {
                flush(&mut pending, &mut out);
                pending = Some((lang, i, 0, BTreeMap::new()));
            }
            let p = pending.as_mut().unwrap();
            p.2 += 1;
            *p.3.entry(outcome.to_string()).or_insert(0) += 1;
        } else {
            flush(&mut pending, &mut out);
            writeln!(out, "{}", json!({"batch": false, "i": i, "case": case, "outcome": outcome,
                "kind": r["kind"], "detail": r["detail"]}))
            .map_err(|e| e.to_string())?;
        }
    }
    flush(&mut pending, &mut out);
    out.flush().map_err(|e| e.to_string())
}
