pub fn supervise(_opts: &jjconf::util::Opts) -> Result<(), String> { Err("todo".into()) }
pub fn worker(_opts: &jjconf::util::Opts, _f: &dyn Fn(&serde_json::Value) -> serde_json::Value) -> Result<(), String> { Err("todo".into()) }
