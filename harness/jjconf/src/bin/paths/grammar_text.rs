//! Concretisation of the C36 cases of spec/Grammar.tla: token names ->
//! text per language, nesting generators, alias graphs.  std + serde_json
//! only (also included by harness/jjcli/src/verif_parse.rs).
use serde_json::Value;

/// Text of a token of the sentence alphabet in language `lang`
/// ("revset" | "fileset" | "template").
pub fn token_text(lang: &str, tok: &str) -> Option<&'static str> {
    Some(match (tok, lang) {
        ("x", _) => "x",
        ("f", _) => "f",
        ("lp", _) => "(",
        ("rp", _) => ")",
        ("comma", _) => ",",
        ("pre", "template") => "!",
        ("pre", _) => "~",
        ("post", "revset") => "-",
        ("post", "fileset") => "*",
        ("post", _) => ".f()",
        ("inf", "revset") => "|",
        ("inf", "fileset") => "&",
        ("inf", _) => "++",
        ("inf2", "revset") => "::",
        ("inf2", "fileset") => "~",
        ("inf2", _) => "||",
        ("at", _) => "@",
        ("colon", _) => ":",
        ("str", _) => "\"a\"",
        ("ustr", _) => "\"a",
        ("escstr", _) => "\"\\x41\\n\\e\\0\\\\\"",
        ("badesc", _) => "\"\\q\"",
        ("raw", _) => "'a'",
        ("uraw", _) => "'a",
        ("uni", _) => "\u{fc}",
        ("usym", _) => "\u{2192}",
        ("sp", _) => " ",
        ("dot", _) => ".",
        ("int", _) => "0",
        ("pipe", _) => "|",
        ("eq", _) => "=",
        _ => return None,
    })
}

fn strs(v: &Value) -> Vec<String> {
    v.as_array()
        .map(|a| a.iter().map(|t| t.as_str().unwrap_or("?").to_string()).collect())
        .unwrap_or_default()
}

pub fn sentence_text(lang: &str, toks: &[String]) -> Result<String, String> {
    let mut s = String::new();
    for t in toks {
        s.push_str(token_text(lang, t).ok_or_else(|| format!("unknown token {t}"))?);
    }
    Ok(s)
}

/// Nest(kind, n).
pub fn nest_text(lang: &str, kind: &str, n: usize) -> Result<String, String> {
    let t = |tok: &str| token_text(lang, tok).unwrap();
    Ok(match kind {
        "prefix" => format!("{}x", t("pre").repeat(n)),
        "call" => format!("{}x{}", "f(".repeat(n), ")".repeat(n)),
        "paren" => format!("{}x{}", "(".repeat(n), ")".repeat(n)),
        "postfix" => format!("x{}", t("post").repeat(n)),
        "infix" => format!("x{}", format!(" {} x", t("inf")).repeat(n)),
        "infix2" => format!("x{}", format!(" {} x", t("inf2")).repeat(n)),
        "list" => format!("f(x{})", ", x".repeat(n)),
        "string" => format!("\"{}\"", "a\\n".repeat(n)),
        k => return Err(format!("unknown nest kind {k}")),
    })
}

/// Body AST of the alias model -> text.
///   {"k":"id","n":name} {"k":"call","f":name,"args":[...]} {"k":"or","a":..,"b":..} {"k":"bad"}
pub fn body_text(lang: &str, b: &Value) -> Result<String, String> {
    Ok(match b["k"].as_str().ok_or("body without k")? {
        "id" => b["n"].as_str().ok_or("id without n")?.to_string(),
        "call" => {
            let args: Vec<String> =
                b["args"].as_array().ok_or("call without args")?.iter().map(|a| body_text(lang, a)).collect::<Result<_, _>>()?;
            format!("{}({})", b["f"].as_str().ok_or("call without f")?, args.join(", "))
        }
        "or" => format!(
            "{} {} {}",
            body_text(lang, &b["a"])?,
            token_text(lang, "inf").unwrap(),
            body_text(lang, &b["b"])?
        ),
        "bad" => "(".to_string(),
        k => return Err(format!("unknown body kind {k}")),
    })
}

/// (expression text, [(declaration, definition)]) of any case.
pub fn materialise(case: &Value) -> Result<(String, Vec<(String, String)>), String> {
    let lang = case["lang"].as_str().ok_or("case without lang")?;
    match case["t"].as_str().ok_or("case without t")? {
        "sent" | "derived" => Ok((sentence_text(lang, &strs(&case["toks"]))?, vec![])),
        "nest" => Ok((
            nest_text(lang, case["kind"].as_str().ok_or("nest without kind")?, case["n"].as_u64().ok_or("nest without n")? as usize)?,
            vec![],
        )),
        "alias" => {
            let mut defs = vec![];
            for d in case["defs"].as_array().ok_or("alias without defs")? {
                defs.push((d["decl"].as_str().ok_or("def without decl")?.to_string(), body_text(lang, &d["body"])?));
            }
            Ok((body_text(lang, &case["expr"])?, defs))
        }
        t => Err(format!("unknown case type {t}")),
    }
}
