//! C32: replay TLC-generated path cases (spec/MC_Paths) through the real
//! `RepoPathBuf::parse_fs_path`, `RepoPath::to_fs_path` and
//! `RepoPathUiConverter`; log results as token sequences for Trace_Paths.
use std::path::Path;
use std::path::PathBuf;

use jj_lib::repo_path::RepoPath;
use jj_lib::repo_path::RepoPathBuf;
use jj_lib::repo_path::RepoPathUiConverter;
use jjconf::util::Opts;
use jjconf::util::Out;
use jjconf::util::catch;
use jjconf::util::read_ndjson;
use serde_json::Value;
use serde_json::json;

use crate::matchers::comps_of;

/// Token "uu" stands for a non-ASCII file name (TLC state strings must stay ASCII).
fn text_of(tok: &str) -> &str {
    if tok == "uu" { "\u{fc}" } else { tok }
}

fn tok_of(text: &str) -> String {
    if text == "\u{fc}" { "uu".to_string() } else { text.to_string() }
}

fn rel_text(comps: &[String]) -> String {
    comps.iter().map(|c| text_of(c)).collect::<Vec<_>>().join("/")
}

fn abs_text(comps: &[String]) -> String {
    format!("/{}", rel_text(comps))
}

fn repo_comps(p: &RepoPath) -> Vec<String> {
    p.components().map(|c| tok_of(c.as_internal_str())).collect()
}

fn parse_result<E>(r: Result<RepoPathBuf, E>) -> Value {
    match r {
        Ok(p) => json!({"ok": true, "out": repo_comps(&p)}),
        Err(_) => json!({"ok": false, "out": []}),
    }
}

/// Raw split of an absolute path text (no normalisation: ".", "..", "" stay visible).
fn fs_tokens(p: &Path) -> Value {
    let s = p.to_string_lossy().to_string();
    match s.strip_prefix('/') {
        Some("") => json!({"abs": true, "toks": []}),
        Some(rest) => json!({"abs": true, "toks": rest.split('/').map(tok_of).collect::<Vec<_>>()}),
        None if s.is_empty() => json!({"abs": false, "toks": []}),
        None => json!({"abs": false, "toks": s.split('/').map(tok_of).collect::<Vec<_>>()}),
    }
}

fn one(case: &Value, base: &Path) -> Value {
    let cwd_c = comps_of(&case["cwd"]);
    let toks = comps_of(&case["toks"]);
    let cwd = PathBuf::from(abs_text(&cwd_c));
    let kind = case["kind"].as_str().unwrap_or("?");
    match kind {
        "rel" | "abs" => {
            let text = if kind == "abs" { abs_text(&toks) } else { rel_text(&toks) };
            let r = RepoPathBuf::parse_fs_path(&cwd, base, &text);
            json!({"op":"parse","cwd":cwd_c,"abs":kind == "abs","toks":toks,"text":text,"r":parse_result(r)})
        }
        "repo" => {
            let text = rel_text(&toks);
            let none = json!({"ok": false, "out": []});
            let Ok(p) = RepoPath::from_internal_string(&text) else {
                return json!({"op":"repo","cwd":cwd_c,"toks":toks,"internal_ok":false,"pc":[],
                    "fs":{"ok":false,"abs":true,"toks":[]},"back":none,"ui":{"abs":false,"toks":[]},"back_ui":none});
            };
            let conv = RepoPathUiConverter::Fs { cwd: cwd.clone(), base: base.to_owned() };
            let (fs, back) = match p.to_fs_path(base) {
                Ok(f) => {
                    let mut v = fs_tokens(&f);
                    v["ok"] = json!(true);
                    (v, parse_result(RepoPathBuf::parse_fs_path(&cwd, base, &f)))
                }
                Err(_) => (json!({"ok":false,"abs":true,"toks":[]}), none.clone()),
            };
            let ui = conv.format_file_path(p);
            let back_ui = parse_result(conv.parse_file_path(&ui));
            json!({"op":"repo","cwd":cwd_c,"toks":toks,"internal_ok":true,"pc":repo_comps(p),
                "fs":fs,"back":back,"ui":fs_tokens(Path::new(&ui)),"back_ui":back_ui})
        }
        k => json!({"op":"harness-error","msg":format!("unknown kind {k}")}),
    }
}

pub fn run(opts: &Opts) -> Result<(), String> {
    jjconf::util::quiet_panics();
    let cases = read_ndjson(&opts.str("cases", "cases.ndjson"))?;
    let mut out = Out::create(&opts.str("out", "trace.ndjson"))?;
    let base_c: Vec<String> = opts.str("base", "a").split(',').map(|s| s.to_string()).collect();
    let base = PathBuf::from(abs_text(&base_c));
    for c in &cases {
        let (cc, bb) = (c.clone(), base.clone());
        match catch(move || one(&cc, &bb)) {
            Ok(v) => out.emit(&v),
            Err(msg) => out.emit(&json!({"op":"panic","case":c,"msg":msg})),
        }
    }
    out.finish();
    Ok(())
}
