//! Character tokens of spec/Quote.tla <-> concrete characters.  std only:
//! this file is also included by harness/jjcli/src/verif_parse.rs.

pub const TABLE: &[(&str, char)] = &[
    ("a", 'a'),
    ("n", 'n'),
    ("uid", '\u{fc}'),   // ü: XID_Continue
    ("usym", '\u{2192}'), // →: not an identifier character
    ("star", '*'),
    ("slash", '/'),
    ("dot", '.'),
    ("plus", '+'),
    ("dash", '-'),
    ("dq", '"'),
    ("bs", '\\'),
    ("sq", '\''),
    ("nl", '\n'),
    ("tab", '\t'),
    ("cr", '\r'),
    ("nul", '\0'),
    ("esc", '\x1b'),
    ("ctl", '\x01'),
    ("del", '\x7f'),
    ("at", '@'),
    ("sp", ' '),
    ("pipe", '|'),
    // only in escaped texts
    ("t", 't'),
    ("r", 'r'),
    ("e", 'e'),
    ("x", 'x'),
    ("0", '0'),
    ("1", '1'),
    ("7", '7'),
    ("b", 'b'),
    ("f", 'f'),
];

pub fn concretise(tokens: &[String]) -> Result<String, String> {
    tokens
        .iter()
        .map(|t| {
            TABLE
                .iter()
                .find(|(name, _)| name == t)
                .map(|(_, c)| *c)
                .ok_or_else(|| format!("unknown character token {t}"))
        })
        .collect()
}

/// Projection of a real string to tokens; a character outside the table
/// becomes "?<hex>", which no spec string contains.
pub fn tokens(text: &str) -> Vec<String> {
    text.chars()
        .map(|c| {
            TABLE
                .iter()
                .find(|(_, tc)| *tc == c)
                .map(|(name, _)| name.to_string())
                .unwrap_or_else(|| format!("?{:x}", c as u32))
        })
        .collect()
}
