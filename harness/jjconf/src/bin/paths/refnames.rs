//! C33: replay TLC-generated symbols / ref names (spec/MC_RefNames) through
//! the real jj code.  `parse_git_ref` is public.  `to_git_ref_name` and
//! `validate_remote_name` are private, so they are observed through the
//! public operations that call them first: `git::export_refs` on a Git-backed
//! test repo (the ref it records for a single bookmark/tag is
//! `to_git_ref_name`'s answer; `InvalidGitName` is its `None`) and
//! `git::add_remote` (a `RemoteName` error is `validate_remote_name`'s Err).
//! See notes/fn-hook.diff for the direct wrappers.
use std::sync::Arc;

use jj_lib::backend::CommitId;
use jj_lib::git;
use jj_lib::git::FailedRefExportReason;
use jj_lib::git::GitRefKind;
use jj_lib::git::GitRemoteManagementError;
use jj_lib::op_store::RefTarget;
use jj_lib::op_store::RemoteRef;
use jj_lib::op_store::RemoteRefState;
use jj_lib::ref_name::GitRefName;
use jj_lib::ref_name::RefName;
use jj_lib::ref_name::RemoteName;
use jj_lib::ref_name::RemoteRefSymbol;
use jj_lib::repo::ReadonlyRepo;
use jj_lib::repo::Repo as _;
use jjconf::util::Opts;
use jjconf::util::Out;
use jjconf::util::catch;
use jjconf::util::read_ndjson;
use pollster::FutureExt as _;
use serde_json::Value;
use serde_json::json;
use testutils::TestRepo;
use testutils::TestRepoBackend;
use testutils::write_random_commit;

use crate::matchers::comps_of;

struct Env {
    _test_repo: TestRepo,
    repo: Arc<ReadonlyRepo>,
    commit: CommitId,
}

impl Env {
    fn new() -> Result<Self, String> {
        let test_repo = TestRepo::init_with_backend(TestRepoBackend::Git);
        let mut tx = test_repo.repo.start_transaction();
        let commit = write_random_commit(tx.repo_mut());
        let repo = tx.commit("setup").block_on().map_err(|e| e.to_string())?;
        Ok(Self {
            _test_repo: test_repo,
            repo,
            commit: commit.id().clone(),
        })
    }
}

fn split(s: &str) -> Vec<String> {
    s.split('/').map(|c| c.to_string()).collect()
}

fn kind_str(k: GitRefKind) -> &'static str {
    match k {
        GitRefKind::Bookmark => "bookmark",
        GitRefKind::Tag => "tag",
    }
}

fn sym_json(p: Option<(GitRefKind, RemoteRefSymbol<'_>)>) -> Value {
    match p {
        None => json!({"some": false}),
        Some((k, s)) => json!({"some": true, "kind": kind_str(k),
            "name": split(s.name.as_str()), "remote": split(s.remote.as_str())}),
    }
}

/// What `to_git_ref_name(kind, name@remote)` answers, observed through export_refs.
/// Returns {"obs": bool, "some": bool, "ref": [...]} (+ "why" when not observable).
fn observe_to_ref(env: &Env, kind: &str, name: &str, remote: &str) -> Result<Value, String> {
    let unobservable = |why: &str| Ok(json!({"obs": false, "some": false, "ref": [], "why": why}));
    let mut tx = env.repo.start_transaction();
    let target = RefTarget::normal(env.commit.clone());
    let set = |mut_repo: &mut jj_lib::repo::MutableRepo, target: RefTarget| -> bool {
        let symbol = RemoteRefSymbol {
            name: RefName::new(name),
            remote: RemoteName::new(remote),
        };
        match (kind, remote == "git") {
            ("bookmark", true) => mut_repo.set_local_bookmark_target(RefName::new(name), target),
            ("bookmark", false) => mut_repo.set_remote_bookmark(
                symbol,
                RemoteRef {
                    target,
                    state: RemoteRefState::Tracked,
                },
            ),
            ("tag", true) => mut_repo.set_local_tag_target(RefName::new(name), target),
            _ => return false, // remote tags are never exported: Git has no such concept
        }
        true
    };
    if !set(tx.repo_mut(), target) {
        return unobservable("remote tags are not exported");
    }
    let stats = git::export_refs(tx.repo_mut()).map_err(|e| format!("export_refs: {e}"))?;
    let failed: Vec<&FailedRefExportReason> = stats
        .failed_bookmarks
        .iter()
        .chain(&stats.failed_tags)
        .map(|(_, reason)| reason)
        .collect();
    let refs: Vec<String> = tx.repo().view().git_refs().keys().map(|k| k.as_str().to_string()).collect();
    let obs = match (failed.as_slice(), refs.as_slice()) {
        ([], [r]) => json!({"obs": true, "some": true, "ref": split(r)}),
        ([FailedRefExportReason::InvalidGitName], []) => json!({"obs": true, "some": false, "ref": []}),
        ([reason], []) => json!({"obs": false, "some": false, "ref": [], "why": format!("{reason:?}")}),
        _ => json!({"obs": false, "some": false, "ref": [], "why": format!("failed={failed:?} refs={refs:?}")}),
    };
    // undo the on-disk ref so that the next case starts clean
    set(tx.repo_mut(), RefTarget::absent());
    let _ = git::export_refs(tx.repo_mut()).map_err(|e| format!("export_refs(cleanup): {e}"))?;
    if !tx.repo().view().git_refs().is_empty() {
        return Err(format!("cleanup left git refs for {kind} {name}@{remote}"));
    }
    Ok(obs)
}

fn opt_ref(r: &Value) -> Value {
    if r["some"].as_bool() == Some(true) {
        json!({"some": true, "ref": r["ref"]})
    } else {
        json!({"some": false})
    }
}

fn observe_remote(env: &Env, remote: &str) -> Result<Value, String> {
    let mut tx = env.repo.start_transaction();
    let name = RemoteName::new(remote);
    match git::add_remote(tx.repo_mut(), name, "https://example.invalid/repo.git", None) {
        Ok(()) => {
            // the remote is now in the on-disk Git config: the caller drops this scratch repo
            Ok(json!({"obs": true, "valid": true, "dirty": true}))
        }
        Err(GitRemoteManagementError::RemoteName(e)) => Ok(json!({"obs": true, "valid": false, "why": e.to_string()})),
        Err(e) => Ok(json!({"obs": false, "valid": false, "why": e.to_string()})),
    }
}

fn one(env: &Env, case: &Value) -> Result<Value, String> {
    match case["t"].as_str().unwrap_or("?") {
        "sym" => {
            let s = &case["s"];
            let kind = s["kind"].as_str().unwrap_or("?");
            let (name, remote) = (comps_of(&s["name"]).join("/"), comps_of(&s["remote"]).join("/"));
            let r = observe_to_ref(env, kind, &name, &remote)?;
            let back = if r["some"].as_bool() == Some(true) {
                let text = comps_of(&r["ref"]).join("/");
                sym_json(git::parse_git_ref(GitRefName::new(&text)))
            } else {
                json!({"some": false})
            };
            Ok(json!({"op":"export","s":s,"obs":r["obs"],"why":r.get("why").cloned().unwrap_or(json!("")),
                "ref":opt_ref(&r),"back":back}))
        }
        "ref" => {
            let text = comps_of(&case["r"]).join("/");
            let gref = GitRefName::new(&text);
            let parsed = git::parse_git_ref(gref);
            let sym = sym_json(parsed);
            let r2 = match parsed {
                Some((k, s)) => observe_to_ref(env, kind_str(k), s.name.as_str(), s.remote.as_str())?,
                None => json!({"obs": true, "some": false, "ref": []}),
            };
            Ok(json!({"op":"import","r":case["r"],"sym":sym,"obs":r2["obs"],
                "why":r2.get("why").cloned().unwrap_or(json!("")),"ref2":opt_ref(&r2)}))
        }
        "remote" => {
            let remote = comps_of(&case["r"]).join("/");
            let r = observe_remote(env, &remote)?;
            Ok(json!({"op":"remote","r":case["r"],"obs":r["obs"],"valid":r["valid"],
                "dirty":r.get("dirty").cloned().unwrap_or(json!(false)),
                "why":r.get("why").cloned().unwrap_or(json!(""))}))
        }
        t => Err(format!("unknown case type {t}")),
    }
}

pub fn run(opts: &Opts) -> Result<(), String> {
    jjconf::util::quiet_panics();
    let cases = read_ndjson(&opts.str("cases", "cases.ndjson"))?;
    let mut out = Out::create(&opts.str("out", "trace.ndjson"))?;
    let mut env = Env::new()?;
    for c in &cases {
        let r = {
            let env_ref = std::panic::AssertUnwindSafe(&env);
            let cc = c.clone();
            catch(move || one(&env_ref, &cc))
        };
        match r {
            Ok(Ok(v)) => {
                out.emit(&v);
                if v["dirty"].as_bool() == Some(true) {
                    env = Env::new()?;
                }
            }
            Ok(Err(e)) => {
                // the scratch repo is in an unknown state: report and start over
                out.emit(&json!({"op":"skipped","case":c,"why":e}));
                env = Env::new()?;
            }
            Err(msg) => {
                out.emit(&json!({"op":"panic","case":c,"msg":msg}));
                env = Env::new()?;
            }
        }
    }
    out.finish();
    Ok(())
}
