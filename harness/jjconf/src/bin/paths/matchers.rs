//! C30: build the real matcher for each TLC-generated expression
//! (spec/MC_Matchers) and record `matches` over the path universe and
//! `visit` at every directory.  Trace_Matchers judges the records.
use jj_lib::fileset::FilePattern;
use jj_lib::matchers::DifferenceMatcher;
use jj_lib::matchers::EverythingMatcher;
use jj_lib::matchers::FilesMatcher;
use jj_lib::matchers::GlobsMatcher;
use jj_lib::matchers::IntersectionMatcher;
use jj_lib::matchers::Matcher;
use jj_lib::matchers::NothingMatcher;
use jj_lib::matchers::PrefixMatcher;
use jj_lib::matchers::UnionMatcher;
use jj_lib::matchers::Visit;
use jj_lib::matchers::VisitDirs;
use jj_lib::matchers::VisitFiles;
use jj_lib::repo_path::RepoPathBuf;
use jjconf::util::Opts;
use jjconf::util::Out;
use jjconf::util::catch;
use jjconf::util::read_ndjson;
use serde_json::Value;
use serde_json::json;

pub fn comps_of(v: &Value) -> Vec<String> {
    v.as_array()
        .map(|a| a.iter().map(|c| c.as_str().unwrap_or("?").to_string()).collect())
        .unwrap_or_default()
}

pub fn repo_path(v: &Value) -> Result<RepoPathBuf, String> {
    RepoPathBuf::from_internal_string(comps_of(v).join("/")).map_err(|e| e.to_string())
}

/// All non-empty component sequences of length <= depth, and all directories
/// (sequences of length < depth, root included).
pub fn universe(comps: &[String], depth: usize) -> (Vec<Vec<String>>, Vec<Vec<String>>) {
    let mut levels: Vec<Vec<Vec<String>>> = vec![vec![vec![]]];
    for _ in 0..depth {
        let mut next = vec![];
        for p in levels.last().unwrap() {
            for c in comps {
                let mut q = p.clone();
                q.push(c.clone());
                next.push(q);
            }
        }
        levels.push(next);
    }
    let paths = levels[1..].iter().flatten().cloned().collect();
    let dirs = levels[..depth].iter().flatten().cloned().collect();
    (paths, dirs)
}

/// The `Glob` of one model pattern, obtained through the public fileset API
/// (the glob constructor itself is crate-private).
fn glob_pattern(pat: &[String], prefix: bool, icase: bool) -> Result<FilePattern, String> {
    let text = pat.join("/");
    let p = match (prefix, icase) {
        (false, false) => FilePattern::root_file_glob(&text),
        (false, true) => FilePattern::root_file_glob_i(&text),
        (true, false) => FilePattern::root_prefix_glob(&text),
        (true, true) => FilePattern::root_prefix_glob_i(&text),
    }
    .map_err(|e| format!("glob {text}: {e}"))?;
    match &p {
        FilePattern::FileGlob { dir, .. } | FilePattern::PrefixGlob { dir, .. } if dir.is_root() => Ok(p),
        _ => Err(format!("pattern {text} must start with a glob segment")),
    }
}

pub fn build(m: &Value) -> Result<Box<dyn Matcher>, String> {
    let k = m["k"].as_str().ok_or("no k")?;
    Ok(match k {
        "all" => Box::new(EverythingMatcher),
        "none" => Box::new(NothingMatcher),
        "files" | "prefix" => {
            let ps: Vec<RepoPathBuf> =
                m["ps"].as_array().ok_or("no ps")?.iter().map(repo_path).collect::<Result<_, _>>()?;
            if k == "files" {
                Box::new(FilesMatcher::new(&ps))
            } else {
                Box::new(PrefixMatcher::new(&ps))
            }
        }
        "glob" => {
            let pm = m["pm"].as_bool().ok_or("no pm")?;
            let mut owned: Vec<(RepoPathBuf, FilePattern)> = vec![];
            for g in m["gs"].as_array().ok_or("no gs")? {
                let ic = g.get("ic").and_then(|v| v.as_bool()).unwrap_or(false);
                owned.push((repo_path(&g["dir"])?, glob_pattern(&comps_of(&g["pat"]), pm, ic)?));
            }
            let mut builder = GlobsMatcher::builder().prefix_paths(pm);
            for (dir, fp) in &owned {
                match fp {
                    FilePattern::FileGlob { pattern, .. } | FilePattern::PrefixGlob { pattern, .. } => {
                        builder.add(dir, pattern);
                    }
                    _ => unreachable!(),
                }
            }
            Box::new(builder.build())
        }
        "union" => Box::new(UnionMatcher::new(build(&m["a"])?, build(&m["b"])?)),
        "inter" => Box::new(IntersectionMatcher::new(build(&m["a"])?, build(&m["b"])?)),
        "diff" => Box::new(DifferenceMatcher::new(build(&m["a"])?, build(&m["b"])?)),
        k => return Err(format!("unknown matcher kind {k}")),
    })
}

pub fn visit_json(dir: &[String], v: &Visit) -> Value {
    match v {
        Visit::AllRecursively => json!({"d": dir, "t": "all"}),
        Visit::Nothing => json!({"d": dir, "t": "nothing"}),
        Visit::Specific { dirs, files } => {
            let (da, mut ds) = match dirs {
                VisitDirs::All => (true, vec![]),
                VisitDirs::Set(s) => (false, s.iter().map(|c| c.as_internal_str().to_string()).collect()),
            };
            let (fa, mut fs) = match files {
                VisitFiles::All => (true, vec![]),
                VisitFiles::Set(s) => (false, s.iter().map(|c| c.as_internal_str().to_string()).collect()),
            };
            ds.sort();
            fs.sort();
            json!({"d": dir, "t": "spec", "da": da, "dirs": ds, "fa": fa, "files": fs})
        }
    }
}

/// matches() over the universe and visit() at every directory.
pub fn observe(
    matcher: &dyn Matcher,
    paths: &[Vec<String>],
    dirs: &[Vec<String>],
) -> Result<(Vec<Vec<String>>, Vec<Value>), String> {
    let mut matched = vec![];
    for p in paths {
        let rp = RepoPathBuf::from_internal_string(p.join("/")).map_err(|e| e.to_string())?;
        if matcher.matches(&rp) {
            matched.push(p.clone());
        }
    }
    let mut visits = vec![];
    for d in dirs {
        let rd = RepoPathBuf::from_internal_string(d.join("/")).map_err(|e| e.to_string())?;
        visits.push(visit_json(d, &matcher.visit(&rd)));
    }
    Ok((matched, visits))
}

pub fn run(opts: &Opts) -> Result<(), String> {
    jjconf::util::quiet_panics();
    let cases = read_ndjson(&opts.str("cases", "cases.ndjson"))?;
    let mut out = Out::create(&opts.str("out", "trace.ndjson"))?;
    let comps: Vec<String> = opts.str("comps", "a,ab,A").split(',').map(|s| s.to_string()).collect();
    let (paths, dirs) = universe(&comps, opts.usize("maxdepth", 3));
    for m in &cases {
        let mm = m.clone();
        let (paths, dirs) = (paths.clone(), dirs.clone());
        let r = catch(move || {
            let matcher = build(&mm)?;
            observe(matcher.as_ref(), &paths, &dirs)
        });
        match r {
            Ok(Ok((matched, visits))) => out.emit(&json!({"op":"matcher","m":m,"matched":matched,"visits":visits})),
            Ok(Err(e)) => return Err(format!("cannot build {m}: {e}")),
            Err(msg) => out.emit(&json!({"op":"panic","m":m,"msg":msg})),
        }
    }
    out.finish();
    Ok(())
}
