//! C35: replay TLC-generated strings / (name, remote) pairs (spec/MC_Quote)
//! through the real escaping/formatting functions and back through the real
//! revset and fileset parsers (the template parser lives in the cli crate:
//! `jjcli verif-quote-template` adds that part).  Trace_Quote judges.
use std::path::PathBuf;

use jj_lib::dsl_util;
use jj_lib::fileset;
use jj_lib::fileset::FilePattern;
use jj_lib::fileset::FilesetAliasesMap;
use jj_lib::fileset::FilesetDiagnostics;
use jj_lib::fileset::FilesetExpression;
use jj_lib::fileset::FilesetParseContext;
use jj_lib::repo_path::RepoPathUiConverter;
use jj_lib::revset;
use jj_lib::revset::ExpressionKind;
use jjconf::util::Opts;
use jjconf::util::Out;
use jjconf::util::catch;
use jjconf::util::read_ndjson;
use serde_json::Value;
use serde_json::json;

use crate::chartab::concretise;
use crate::chartab::tokens;
use crate::matchers::comps_of;

fn bad() -> Value {
    json!({"ok": false, "val": []})
}

fn revset_value(text: &str) -> Value {
    match revset::parse_program(text) {
        Ok(node) => match &node.kind {
            ExpressionKind::String(v) => json!({"ok": true, "val": tokens(v), "node": "string"}),
            ExpressionKind::Identifier(v) => json!({"ok": true, "val": tokens(v), "node": "identifier"}),
            _ => json!({"ok": false, "val": [], "node": "other"}),
        },
        Err(_) => bad(),
    }
}

fn fileset_value(quoted: &str) -> Value {
    let aliases_map = FilesetAliasesMap::new();
    let path_converter = RepoPathUiConverter::Fs {
        cwd: PathBuf::from("/w"),
        base: PathBuf::from("/w"),
    };
    let ctx = FilesetParseContext {
        aliases_map: &aliases_map,
        path_converter: &path_converter,
    };
    let text = format!("root-file:{quoted}");
    match fileset::parse(&mut FilesetDiagnostics::new(), &text, &ctx) {
        Ok(FilesetExpression::Pattern(FilePattern::FilePath(p))) => {
            json!({"ok": true, "val": tokens(p.as_internal_file_string())})
        }
        _ => bad(),
    }
}

fn one(case: &Value, i: usize) -> Result<Value, String> {
    match case["t"].as_str().unwrap_or("?") {
        "str" => {
            let s = comps_of(&case["s"]);
            let text = concretise(&s)?;
            let escaped = dsl_util::escape_string(&text);
            let quoted = revset::format_string(&text);
            let symbol = revset::format_symbol(&text);
            let sym = match revset::parse_symbol(&symbol) {
                Ok(v) => json!({"ok": true, "val": tokens(&v)}),
                Err(_) => bad(),
            };
            Ok(json!({"op":"str","i":i,"s":s,
                "escaped":tokens(&escaped),
                "revset":revset_value(&quoted),
                "fileset":fileset_value(&quoted),
                "symtext":tokens(&symbol),
                "sym":sym,
                "symexpr":revset_value(&symbol)}))
        }
        "pair" => {
            let (n, r) = (comps_of(&case["n"]), comps_of(&case["r"]));
            let text = revset::format_remote_symbol(&concretise(&n)?, &concretise(&r)?);
            let back = match revset::parse_program(&text) {
                Ok(node) => match &node.kind {
                    ExpressionKind::RemoteSymbol(sym) => json!({"ok": true,
                        "name": tokens(sym.name.as_str()), "remote": tokens(sym.remote.as_str())}),
                    _ => json!({"ok": false, "name": [], "remote": []}),
                },
                Err(_) => json!({"ok": false, "name": [], "remote": []}),
            };
            Ok(json!({"op":"pair","i":i,"n":n,"r":r,"text":tokens(&text),"back":back}))
        }
        t => Err(format!("unknown case type {t}")),
    }
}

pub fn run(opts: &Opts) -> Result<(), String> {
    jjconf::util::quiet_panics();
    let cases = read_ndjson(&opts.str("cases", "cases.ndjson"))?;
    let mut out = Out::create(&opts.str("out", "trace.ndjson"))?;
    for (i, c) in cases.iter().enumerate() {
        let cc = c.clone();
        match catch(move || one(&cc, i)) {
            Ok(Ok(v)) => out.emit(&v),
            Ok(Err(e)) => return Err(e),
            Err(msg) => out.emit(&json!({"op":"panic","i":i,"case":c,"msg":msg})),
        }
    }
    out.finish();
    Ok(())
}
