//! C31: render each TLC-generated fileset expression (spec/MC_Fileset) to
//! text, parse it with the real `fileset::parse` from the given cwd, build
//! the matcher and record which universe paths it matches.
use std::path::PathBuf;

use jj_lib::fileset;
use jj_lib::fileset::FilesetAliasesMap;
use jj_lib::fileset::FilesetDiagnostics;
use jj_lib::fileset::FilesetParseContext;
use jj_lib::repo_path::RepoPathUiConverter;
use jjconf::util::Opts;
use jjconf::util::Out;
use jjconf::util::catch;
use jjconf::util::read_ndjson;
use serde_json::Value;
use serde_json::json;

use crate::matchers::comps_of;
use crate::matchers::observe;
use crate::matchers::universe;

/// Concrete syntax of an expression.  Pattern texts only contain the spec's
/// tokens (letters, ".", "*", "?") joined by "/", so quoting needs no escapes.
pub fn render(e: &Value) -> Result<String, String> {
    let k = e["k"].as_str().ok_or("no k")?;
    Ok(match k {
        "all" => "all()".to_string(),
        "none" => "none()".to_string(),
        "pat" => {
            let text = comps_of(&e["toks"]).join("/");
            if text.contains(['"', '\\']) {
                return Err(format!("unexpected character in pattern {text}"));
            }
            match e["kind"].as_str().ok_or("no kind")? {
                "bare" => format!("\"{text}\""),
                kind => format!("{kind}:\"{text}\""),
            }
        }
        "not" => format!("~({})", render(&e["a"])?),
        "and" => format!("({}) & ({})", render(&e["a"])?, render(&e["b"])?),
        "diff" => format!("({}) ~ ({})", render(&e["a"])?, render(&e["b"])?),
        "or" => format!("({}) | ({})", render(&e["a"])?, render(&e["b"])?),
        k => return Err(format!("unknown expression kind {k}")),
    })
}

pub fn run(opts: &Opts) -> Result<(), String> {
    jjconf::util::quiet_panics();
    let cases = read_ndjson(&opts.str("cases", "cases.ndjson"))?;
    let mut out = Out::create(&opts.str("out", "trace.ndjson"))?;
    let comps: Vec<String> = opts.str("comps", "a,ab,A").split(',').map(|s| s.to_string()).collect();
    let (paths, dirs) = universe(&comps, opts.usize("maxdepth", 3));
    let aliases_map = FilesetAliasesMap::new();
    for c in &cases {
        let text = render(&c["e"])?;
        let cwd_c = comps_of(&c["cwd"]);
        let path_converter = RepoPathUiConverter::Fs {
            cwd: PathBuf::from(format!("/w/{}", cwd_c.join("/"))),
            base: PathBuf::from("/w"),
        };
        let r = {
            let ctx = FilesetParseContext {
                aliases_map: &aliases_map,
                path_converter: &path_converter,
            };
            let (text, paths, dirs) = (text.clone(), &paths, &dirs);
            let ctx = std::panic::AssertUnwindSafe(ctx);
            catch(move || match fileset::parse(&mut FilesetDiagnostics::new(), &text, &ctx) {
                Ok(expr) => {
                    let matcher = expr.to_matcher();
                    let (matched, visits) = observe(matcher.as_ref(), paths, dirs)?;
                    Ok::<_, String>(json!({"ok": true, "matched": matched, "visits": visits}))
                }
                Err(err) => Ok(json!({"ok": false, "matched": [], "visits": [], "err": err.kind().to_string()})),
            })
        };
        match r {
            Ok(Ok(v)) => out.emit(&json!({"op":"fileset","e":c["e"],"cwd":cwd_c,"text":text,"out":v})),
            Ok(Err(e)) => return Err(e),
            Err(msg) => out.emit(&json!({"op":"panic","e":c["e"],"cwd":cwd_c,"text":text,"msg":msg})),
        }
    }
    out.finish();
    Ok(())
}
