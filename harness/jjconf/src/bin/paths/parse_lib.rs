//! C36: the revset and fileset parsers (jj-lib) on one case.
use std::error::Error as StdError;
use std::path::PathBuf;

use jj_lib::dsl_util;
use jj_lib::fileset;
use jj_lib::fileset::FilesetAliasesMap;
use jj_lib::fileset::FilesetDiagnostics;
use jj_lib::fileset::FilesetParseContext;
use jj_lib::fileset::FilesetParseError;
use jj_lib::fileset::FilesetParseErrorKind;
use jj_lib::repo_path::RepoPathUiConverter;
use jj_lib::revset;
use jj_lib::revset::RevsetAliasesMap;
use jj_lib::revset::RevsetParseError;
use jj_lib::revset::RevsetParseErrorKind;
use serde_json::Value;

use crate::grammar_text::materialise;
use crate::parse_worker::Outcome;

fn err(kind: &str, detail: String) -> Outcome {
    ("err".to_string(), kind.to_string(), detail.chars().take(200).collect())
}

fn ok() -> Outcome {
    ("ok".to_string(), String::new(), String::new())
}

/// The innermost error of the language's own type decides the kind.
fn revset_kind(e: &RevsetParseError) -> &'static str {
    let mut kind = "other";
    let mut cur: Option<&(dyn StdError + 'static)> = Some(e);
    while let Some(x) = cur {
        if let Some(r) = x.downcast_ref::<RevsetParseError>() {
            kind = match r.kind() {
                RevsetParseErrorKind::RecursiveAlias(_) => "recursive",
                RevsetParseErrorKind::InvalidFunctionArguments { .. } => "args",
                RevsetParseErrorKind::SyntaxError => "parse",
                RevsetParseErrorKind::InAliasExpansion(_) | RevsetParseErrorKind::InParameterExpansion(_) => kind,
                _ => "other",
            };
        }
        cur = x.source();
    }
    kind
}

fn fileset_kind(e: &FilesetParseError) -> &'static str {
    let mut kind = "other";
    let mut cur: Option<&(dyn StdError + 'static)> = Some(e);
    while let Some(x) = cur {
        if let Some(r) = x.downcast_ref::<FilesetParseError>() {
            kind = match r.kind() {
                FilesetParseErrorKind::RecursiveAlias(_) => "recursive",
                FilesetParseErrorKind::InvalidArguments { .. } => "args",
                FilesetParseErrorKind::SyntaxError => "parse",
                FilesetParseErrorKind::NoSuchFunction { .. } => "nosuchfunction",
                FilesetParseErrorKind::InAliasExpansion(_) => kind,
                _ => "other",
            };
        }
        cur = x.source();
    }
    kind
}

pub fn parse_case(case: &Value) -> Outcome {
    let (text, defs) = match materialise(case) {
        Ok(x) => x,
        Err(e) => return ("harness-error".to_string(), String::new(), e),
    };
    match case["lang"].as_str().unwrap_or("?") {
        "revset" => {
            let mut map = RevsetAliasesMap::new();
            for (decl, defn) in &defs {
                if let Err(e) = map.insert(decl, defn.clone(), None) {
                    return ("harness-error".to_string(), String::new(), format!("alias decl {decl}: {e}"));
                }
            }
            let r = revset::parse_program(&text).and_then(|node| dsl_util::expand_aliases(node, &map));
            match r {
                Ok(_) => ok(),
                Err(e) => err(revset_kind(&e), e.kind().to_string()),
            }
        }
        "fileset" => {
            let mut map = FilesetAliasesMap::new();
            for (decl, defn) in &defs {
                if let Err(e) = map.insert(decl, defn.clone(), None) {
                    return ("harness-error".to_string(), String::new(), format!("alias decl {decl}: {e}"));
                }
            }
            let path_converter = RepoPathUiConverter::Fs {
                cwd: PathBuf::from("/w"),
                base: PathBuf::from("/w"),
            };
            let ctx = FilesetParseContext {
                aliases_map: &map,
                path_converter: &path_converter,
            };
            match fileset::parse(&mut FilesetDiagnostics::new(), &text, &ctx) {
                Ok(_) => ok(),
                Err(e) => err(fileset_kind(&e), e.kind().to_string()),
            }
        }
        l => ("harness-error".to_string(), String::new(), format!("language {l} is not handled by this binary")),
    }
}
