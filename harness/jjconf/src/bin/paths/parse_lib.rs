pub fn parse_case(_c: &serde_json::Value) -> serde_json::Value { serde_json::Value::Null }
