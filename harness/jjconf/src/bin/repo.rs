//! `repo` binary: C12 (spec/RefTarget.tla) and C10/C11/C13/C46 (spec/Repo.tla).
//!   repo refmerge --out f [--tier t] [--seed s]     I->S recorder for merge_ref_targets
//!   repo record   --out f --seed s --n k            I->S random transaction driver
//!   repo replay   --behaviours f --out g            S->I replayer of TLC behaviours
use std::process::ExitCode;

use jjconf::util;

#[path = "repo/c12.rs"]
mod c12;
#[path = "repo/world.rs"]
mod world;
#[path = "repo/driver.rs"]
mod driver;
#[path = "repo/replay.rs"]
mod replay;

fn main() -> ExitCode {
    let args: Vec<String> = std::env::args().collect();
    if args.len() < 2 {
        eprintln!("usage: repo <refmerge|record|replay> [--key value]...");
        return ExitCode::from(2);
    }
    let opts = util::Opts::parse(&args[2..]);
    let r = match args[1].as_str() {
        "refmerge" => c12::run(&opts),
        "record" => driver::run(&opts),
        "replay" => replay::run(&opts),
        m => Err(format!("repo: unknown mode {m}")),
    };
    match r {
        Ok(()) => ExitCode::SUCCESS,
        Err(e) => {
            eprintln!("repo: {e}");
            ExitCode::from(2)
        }
    }
}
