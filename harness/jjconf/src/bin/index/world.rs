//! A scratch repository whose commits are named by small model integers.
//!
//! Model commit 0 is the root commit; commits 1..n are created by the harness
//! with model-chosen parents, change id, committer time and (optionally) tree.
//! Everything that leaves this module towards the trace is expressed in model
//! ids, so the TLA+ judge never sees a hash (except for C20, where the hex
//! digits of the ids are the subject matter).
use std::collections::BTreeMap;
use std::collections::HashMap;
use std::sync::Arc;

use jj_lib::backend::ChangeId;
use jj_lib::backend::CommitId;
use jj_lib::backend::MillisSinceEpoch;
use jj_lib::backend::Signature;
use jj_lib::backend::Timestamp;
use jj_lib::commit::Commit;
use jj_lib::default_index::DefaultReadonlyIndex;
use jj_lib::merged_tree::MergedTree;
use jj_lib::operation::Operation;
use jj_lib::repo::MutableRepo;
use jj_lib::repo::ReadonlyRepo;
use jj_lib::repo::Repo;
use jj_lib::repo::RepoLoader;
use jj_lib::settings::UserSettings;
use pollster::FutureExt as _;
use testutils::TestRepo;
use testutils::repo_path;

/// What the model says about one commit.
#[derive(Clone, Debug)]
pub struct CommitSpec {
    pub id: usize,
    pub parents: Vec<usize>,
    /// 32 hex digits (values 0..15) of the change id
    pub change: Vec<u8>,
    /// committer/author time (seconds); distinct per commit when it matters
    pub ts: i64,
    /// path -> content token (absent = not in the tree); None = empty tree
    pub tree: Option<BTreeMap<String, u8>>,
}

pub struct World {
    pub test_repo: TestRepo,
    pub settings: UserSettings,
    /// written commits by model id (index 0 = root)
    pub commits: Vec<Option<Commit>>,
    pub specs: Vec<Option<CommitSpec>>,
    pub model_of: HashMap<CommitId, usize>,
    pub tag: String,
}

pub fn digits_of_small_change(k: usize) -> Vec<u8> {
    // change k (>= 1): first byte k, rest 0x11.., never the root change id (all zero)
    let mut d = vec![1u8; 32];
    d[0] = ((k >> 4) & 15) as u8;
    d[1] = (k & 15) as u8;
    d
}

pub fn change_id_from_digits(d: &[u8]) -> ChangeId {
    assert_eq!(d.len(), 32);
    let bytes: Vec<u8> = d.chunks(2).map(|p| (p[0] << 4) | p[1]).collect();
    ChangeId::new(bytes)
}

pub fn hex_digits(bytes: &[u8]) -> Vec<u8> {
    bytes.iter().flat_map(|b| [b >> 4, b & 15]).collect()
}

pub fn signature(ts: i64) -> Signature {
    Signature {
        name: "V".to_string(),
        email: "v@example.com".to_string(),
        timestamp: Timestamp {
            timestamp: MillisSinceEpoch(ts * 1000),
            tz_offset: 0,
        },
    }
}

impl World {
    pub fn new(tag: &str) -> Self {
        let settings = testutils::user_settings();
        let test_repo = TestRepo::init_with_settings(&settings);
        let root = test_repo.repo.store().root_commit();
        let mut model_of = HashMap::new();
        model_of.insert(root.id().clone(), 0);
        Self {
            test_repo,
            settings,
            commits: vec![Some(root)],
            specs: vec![None],
            model_of,
            tag: tag.to_string(),
        }
    }

    pub fn initial_repo(&self) -> Arc<ReadonlyRepo> {
        self.test_repo.repo.clone()
    }

    pub fn commit(&self, id: usize) -> &Commit {
        self.commits[id].as_ref().expect("commit not written yet")
    }

    pub fn cid(&self, id: usize) -> CommitId {
        self.commit(id).id().clone()
    }

    pub fn is_written(&self, id: usize) -> bool {
        self.commits.get(id).is_some_and(|c| c.is_some())
    }

    #[allow(dead_code)]
    pub fn n_written(&self) -> usize {
        self.commits.iter().filter(|c| c.is_some()).count() - 1
    }

    pub fn model(&self, id: &CommitId) -> i64 {
        self.model_of.get(id).map(|&m| m as i64).unwrap_or(-1)
    }

    pub fn models(&self, ids: &[CommitId]) -> Vec<i64> {
        ids.iter().map(|id| self.model(id)).collect()
    }

    fn build_tree(&self, repo: &Arc<ReadonlyRepo>, spec: &CommitSpec) -> MergedTree {
        match &spec.tree {
            None => repo.store().empty_merged_tree(),
            Some(t) => testutils::create_tree_with(repo, |b| {
                for (p, v) in t {
                    // one distinct line per value: content merges can never resolve
                    // what the trivial (cancellation) rule does not resolve
                    b.file(repo_path(p), format!("value-{v}\n"));
                }
            }),
        }
    }

    /// Writes a new commit inside the open transaction (becomes a visible head).
    pub fn write_commit(&mut self, mut_repo: &mut MutableRepo, spec: &CommitSpec) -> Commit {
        let base = mut_repo.base_repo().clone();
        let tree = self.build_tree(&base, spec);
        let parents: Vec<CommitId> = spec.parents.iter().map(|&p| self.cid(p)).collect();
        let sig = signature(spec.ts);
        let commit = mut_repo
            .new_commit(parents, tree)
            .set_change_id(change_id_from_digits(&spec.change))
            .set_description(format!("{}-c{}", self.tag, spec.id))
            .set_author(sig.clone())
            .set_committer(sig)
            .write()
            .block_on()
            .unwrap();
        self.record(spec, commit.clone());
        commit
    }

    pub fn record(&mut self, spec: &CommitSpec, commit: Commit) {
        while self.commits.len() <= spec.id {
            self.commits.push(None);
            self.specs.push(None);
        }
        self.model_of.insert(commit.id().clone(), spec.id);
        self.commits[spec.id] = Some(commit);
        self.specs[spec.id] = Some(spec.clone());
    }

    /// A brand-new loader reading everything (index included) from disk.
    pub fn fresh_loader(&self) -> RepoLoader {
        RepoLoader::init_from_file_system(
            &self.settings,
            self.test_repo.repo_path(),
            &self.test_repo.env.default_backend_factories(),
        )
        .unwrap()
    }

    pub fn reload_from_disk(&self, op: &Operation) -> Arc<ReadonlyRepo> {
        let loader = self.fresh_loader();
        let op = loader.load_operation(op.id()).block_on().unwrap();
        loader.load_at(&op).block_on().unwrap()
    }

    /// `par` array for the trace: par[i-1] = parents of commit i, for all written commits.
    pub fn par_json(&self) -> Vec<Vec<usize>> {
        (1..self.commits.len())
            .map(|i| self.specs[i].as_ref().map(|s| s.parents.clone()).unwrap_or_default())
            .collect()
    }
}

pub fn readonly_index(repo: &ReadonlyRepo) -> &DefaultReadonlyIndex {
    repo.readonly_index().downcast_ref().expect("default index")
}

pub fn levels(repo: &ReadonlyRepo) -> Vec<u32> {
    readonly_index(repo).stats().commit_levels.iter().map(|l| l.num_commits).collect()
}

pub fn view_heads(world: &World, repo: &dyn Repo) -> Vec<i64> {
    let mut v: Vec<i64> = repo.view().heads().iter().map(|id| world.model(id)).collect();
    v.sort();
    v
}
