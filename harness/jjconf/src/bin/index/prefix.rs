//! C20: shortest unique id prefixes.  The harness builds a repository with many
//! commits spread over several index segments (model-chosen change ids with long
//! shared prefixes, commit ids steered towards shared prefixes by choosing among
//! candidate descriptions, divergent and hidden commits, bookmarks/tags whose
//! names look like id prefixes), then logs what the real code answers:
//! `Index::{shortest_unique_commit_id_prefix_len, resolve_commit_id_prefix}`,
//! `Repo::{shortest_unique_change_id_prefix_len, resolve_change_id_prefix}` and
//! `IdPrefixIndex::{shortest_*_prefix_len, resolve_*_prefix}` with and without a
//! disambiguation set.  One `ids` record (the id tables) is followed by the
//! queries made against that state; TLC (Trace_IdPrefix) judges.
use std::collections::BTreeSet;
use std::collections::HashSet;
use std::sync::Arc;

use jj_lib::backend::ChangeId;
use jj_lib::backend::CommitId;
use jj_lib::commit::Commit;
use jj_lib::hex_util;
use jj_lib::id_prefix::IdPrefixContext;
use jj_lib::id_prefix::IdPrefixIndex;
use jj_lib::index::ResolvedChangeState;
use jj_lib::index::ResolvedChangeTargets;
use jj_lib::object_id::HexPrefix;
use jj_lib::object_id::ObjectId as _;
use jj_lib::object_id::PrefixResolution;
use jj_lib::op_store::RefTarget;
use jj_lib::ref_name::RefName;
use jj_lib::repo::ReadonlyRepo;
use jj_lib::repo::Repo;
use jj_lib::revset::RevsetExpression;
use jjconf::util::Opts;
use jjconf::util::Out;
use jjconf::util::Rng;
use jjconf::util::catch;
use pollster::FutureExt as _;
use serde_json::Value;
use serde_json::json;

use crate::revset::random_dag;
use crate::world::CommitSpec;
use crate::world::World;
use crate::world::change_id_from_digits;
use crate::world::hex_digits;
use crate::world::signature;
use crate::world::view_heads;

fn hex_string(d: &[u8]) -> String {
    d.iter().map(|&x| char::from_digit(x as u32, 16).unwrap()).collect()
}

fn prefix_of(d: &[u8]) -> HexPrefix {
    HexPrefix::try_from_hex(hex_string(d)).expect("hex prefix")
}

fn common_len(a: &[u8], b: &[u8]) -> usize {
    a.iter().zip(b).take_while(|(x, y)| x == y).count()
}

/// A fresh change id sharing a prefix with an existing one.
fn new_change(rng: &mut Rng, existing: &[Vec<u8>]) -> Vec<u8> {
    loop {
        let mut d: Vec<u8> = (0..32).map(|_| rng.below(16) as u8).collect();
        if !existing.is_empty() && rng.chance(4, 5) {
            let other = rng.pick(existing).clone();
            let l = rng.range(0, 7);
            d[..l].copy_from_slice(&other[..l]);
            // small alphabet right after the shared part: neighbours cluster
            d[l] = rng.below(3) as u8;
        }
        if d.iter().all(|&x| x == 0) || existing.contains(&d) {
            continue;
        }
        return d;
    }
}

fn res_commit(world: &World, r: PrefixResolution<CommitId>) -> Value {
    match r {
        PrefixResolution::NoMatch => json!({"kind":"none","c":-1,"t":[]}),
        PrefixResolution::AmbiguousMatch => json!({"kind":"amb","c":-1,"t":[]}),
        PrefixResolution::SingleMatch(id) => json!({"kind":"single","c":world.model(&id),"t":[]}),
    }
}

fn res_change(world: &World, r: PrefixResolution<ResolvedChangeTargets>) -> Value {
    match r {
        PrefixResolution::NoMatch => json!({"kind":"none","c":-1,"t":[]}),
        PrefixResolution::AmbiguousMatch => json!({"kind":"amb","c":-1,"t":[]}),
        PrefixResolution::SingleMatch(t) => {
            let ts: Vec<Value> = t
                .targets
                .iter()
                .map(|(id, st)| json!([world.model(id), *st == ResolvedChangeState::Visible]))
                .collect();
            json!({"kind":"single","c":-1,"t":ts})
        }
    }
}

/// Interesting prefixes of an id: around its boundary lengths plus mutated ones.
fn probe_prefixes(rng: &mut Rng, id: &[u8], upto: usize) -> Vec<Vec<u8>> {
    let mut v = vec![];
    for l in 1..=upto.min(id.len()) {
        v.push(id[..l].to_vec());
    }
    // a prefix with its last digit changed (usually matches something else or nothing)
    for _ in 0..2 {
        let l = rng.range(1, upto.min(id.len()));
        let mut p = id[..l].to_vec();
        p[l - 1] = (p[l - 1] + 1 + rng.below(15) as u8) % 16;
        v.push(p);
    }
    v
}

fn build_case(case: usize, rng: &mut Rng, n: usize) -> (World, Arc<ReadonlyRepo>, Vec<Vec<u8>>, Vec<Vec<u8>>) {
    let mut world = World::new(&format!("p{case}"));
    let mut repo = world.initial_repo();
    let par = random_dag(rng, n);
    // changes: about 2/3 distinct, the rest share a change id with an earlier commit
    let mut changes: Vec<Vec<u8>> = vec![];
    let mut change_of: Vec<Vec<u8>> = vec![];
    for _ in 0..n {
        if !changes.is_empty() && rng.chance(1, 4) {
            change_of.push(rng.pick(&changes).clone());
        } else {
            let d = new_change(rng, &changes);
            changes.push(d.clone());
            change_of.push(d);
        }
    }
    // transactions: geometric-ish sizes so that several segments survive squashing
    let mut c = 1usize;
    let mut remaining = n;
    let mut known_ids: Vec<Vec<u8>> = vec![vec![0u8; 20]];
    while remaining > 0 {
        let size = if rng.chance(1, 3) { 1 } else { (remaining / 2).max(1).min(rng.range(1, remaining)) };
        let mut tx = repo.start_transaction();
        for _ in 0..size {
            let spec = CommitSpec {
                id: c,
                parents: par[c - 1].clone(),
                change: change_of[c - 1].clone(),
                ts: 2_000_000 + c as i64,
                tree: None,
            };
            // steer the commit id: among candidate descriptions keep the one whose
            // hash shares the longest prefix with an already indexed id
            let parents: Vec<CommitId> = spec.parents.iter().map(|&p| world.cid(p)).collect();
            let sig = signature(spec.ts);
            let mut builder = tx
                .repo_mut()
                .new_commit(parents, repo.store().empty_merged_tree())
                .set_change_id(change_id_from_digits(&spec.change))
                .set_author(sig.clone())
                .set_committer(sig)
                .detach();
            let tries = if rng.chance(1, 2) { 48 } else { 1 };
            let mut best: Option<(usize, Commit)> = None;
            for t in 0..tries {
                builder.set_description(format!("p{case}-c{c}-v{t}"));
                let cand = builder.write_hidden().block_on().unwrap();
                let d = hex_digits(cand.id().as_bytes());
                let score = known_ids.iter().map(|k| common_len(k, &d)).max().unwrap_or(0);
                if best.as_ref().is_none_or(|(s, _)| score > *s) {
                    best = Some((score, cand));
                }
            }
            let commit = best.unwrap().1;
            tx.repo_mut().add_head(&commit).block_on().unwrap();
            known_ids.push(hex_digits(commit.id().as_bytes()));
            world.record(&spec, commit);
            c += 1;
        }
        repo = tx.commit(format!("p{case}-tx")).block_on().unwrap();
        remaining -= size;
    }
    // hide a few heads, add bookmarks/tags that look like prefixes
    let mut tx = repo.start_transaction();
    let heads: Vec<CommitId> = tx.repo_mut().view().heads().iter().cloned().collect();
    let mut hidden = 0;
    for h in &heads {
        if heads.len() - hidden > 1 && rng.chance(1, 3) {
            tx.repo_mut().remove_head(h);
            hidden += 1;
        }
    }
    let mut crefs: Vec<Vec<u8>> = vec![];
    let mut chrefs: Vec<Vec<u8>> = vec![];
    for _ in 0..rng.range(2, 6) {
        let cidx = rng.range(1, n);
        let target = RefTarget::normal(world.cid(rng.range(1, n)));
        if rng.chance(1, 2) {
            let d = known_ids[cidx].clone();
            // half of the names are exactly some commit's shortest prefix (input
            // generation only: makes disambiguate_prefix_with_refs lengthen it)
            let l = if rng.chance(1, 2) {
                repo.index().shortest_unique_commit_id_prefix_len(&world.cid(cidx)).block_on().unwrap().clamp(1, 6)
            } else {
                rng.range(1, 4)
            };
            let name = hex_string(&d[..l]);
            if rng.chance(1, 2) {
                tx.repo_mut().set_local_bookmark_target(RefName::new(&name), target);
            } else {
                tx.repo_mut().set_local_tag_target(RefName::new(&name), target);
            }
            crefs.push(d[..l].to_vec());
        } else {
            let d = change_of[cidx - 1].clone();
            let l = if rng.chance(1, 2) {
                repo.shortest_unique_change_id_prefix_len(world.commit(cidx).change_id()).block_on().unwrap().clamp(1, 8)
            } else {
                rng.range(1, 4)
            };
            let bytes = change_id_from_digits(&d);
            let rev = hex_util::encode_reverse_hex(bytes.as_bytes());
            let name = &rev[..l];
            if rng.chance(1, 2) {
                tx.repo_mut().set_local_bookmark_target(RefName::new(name), target);
            } else {
                tx.repo_mut().set_local_tag_target(RefName::new(name), target);
            }
            chrefs.push(d[..l].to_vec());
        }
    }
    let repo = tx.commit(format!("p{case}-refs")).block_on().unwrap();
    (world, repo, crefs, chrefs)
}

fn run_case(out: &mut Out, case: usize, rng: &mut Rng, n: usize) {
    let (world, repo, crefs, chrefs) = build_case(case, rng, n);
    let repo = if case % 2 == 1 { world.reload_from_disk(repo.operation()) } else { repo };
    let repo_ref: &dyn Repo = repo.as_ref();
    let index = repo_ref.index();
    let cid: Vec<Vec<u8>> = (0..=n).map(|c| hex_digits(world.cid(c).as_bytes())).collect();
    let chid: Vec<Vec<u8>> = (0..=n).map(|c| hex_digits(world.commit(c).change_id().as_bytes())).collect();
    let levels = crate::world::levels(repo.as_ref());
    // disambiguation sets: none, a small set, a larger set
    let mut dsets: Vec<Option<Vec<usize>>> = vec![None];
    for frac in [8usize, 2usize] {
        let d: Vec<usize> = (0..=n).filter(|_| rng.below(frac) == 0).collect();
        if !d.is_empty() {
            dsets.push(Some(d));
        }
    }
    for (di, dset) in dsets.iter().enumerate() {
        out.emit(&json!({"op":"ids","case":case,"n":n,"par":world.par_json(),"vheads":view_heads(&world, repo_ref),
            "cid":cid,"chid":chid,"has_d":dset.is_some(),"dset":dset.clone().unwrap_or_default(),
            "crefs":crefs,"chrefs":chrefs,"levels":levels}));
        // which commits / prefixes to probe in this round
        let probe: Vec<usize> = if n <= 40 { (0..=n).collect() } else {
            let mut s: BTreeSet<usize> = (0..40).map(|_| rng.below(n + 1)).collect();
            if let Some(d) = dset { s.extend(d.iter().copied().take(15)); }
            s.into_iter().collect()
        };
        if di == 0 {
            // ---- index level (no context) ----
            for &c in &probe {
                let l = index.shortest_unique_commit_id_prefix_len(&world.cid(c)).block_on().unwrap();
                out.emit(&json!({"op":"q","k":"ix_short","id":cid[c],"out":l}));
                for p in probe_prefixes(rng, &cid[c], l + 1) {
                    let r = index.resolve_commit_id_prefix(&prefix_of(&p)).block_on().unwrap();
                    let mut v = res_commit(&world, r);
                    v["op"] = json!("q");
                    v["k"] = json!("ix_resolve");
                    v["p"] = json!(p);
                    out.emit(&v);
                }
                let l = repo_ref.shortest_unique_change_id_prefix_len(world.commit(c).change_id()).block_on().unwrap();
                out.emit(&json!({"op":"q","k":"ch_short","id":chid[c],"out":l}));
                for p in probe_prefixes(rng, &chid[c], l + 1) {
                    let r = repo_ref.resolve_change_id_prefix(&prefix_of(&p)).block_on().unwrap();
                    let mut v = res_change(&world, r);
                    v["op"] = json!("q");
                    v["k"] = json!("ch_resolve");
                    v["p"] = json!(p);
                    out.emit(&v);
                }
            }
            // ids that are not in the index: mutate an existing id at a random digit
            for _ in 0..20 {
                let c = rng.below(n + 1);
                let mut d = cid[c].clone();
                let at = rng.below(6);
                d[at] = (d[at] + 1 + rng.below(15) as u8) % 16;
                if cid.contains(&d) {
                    continue;
                }
                let bytes: Vec<u8> = d.chunks(2).map(|p| (p[0] << 4) | p[1]).collect();
                let l = index.shortest_unique_commit_id_prefix_len(&CommitId::new(bytes)).block_on().unwrap();
                out.emit(&json!({"op":"q","k":"ix_short","id":d,"out":l}));
            }
        }
        // ---- IdPrefixIndex (with refs; with or without a disambiguation set) ----
        let context = match dset {
            None => IdPrefixContext::default(),
            Some(d) => {
                let ids: Vec<CommitId> = d.iter().map(|&c| world.cid(c)).collect();
                IdPrefixContext::default().disambiguate_within(RevsetExpression::commits(ids))
            }
        };
        let pindex: IdPrefixIndex = context.populate(repo_ref).unwrap();
        let mut seen_changes: HashSet<Vec<u8>> = HashSet::new();
        for &c in &probe {
            let l = pindex.shortest_commit_prefix_len(repo_ref, &world.cid(c)).unwrap();
            let le = pindex.shortest_commit_prefix_len_exact(repo_ref, &world.cid(c)).unwrap();
            out.emit(&json!({"op":"q","k":"ctx_short_commit","c":c,"out":l,"exact":le}));
            for p in probe_prefixes(rng, &cid[c], l + 1) {
                let r = pindex.resolve_commit_prefix(repo_ref, &prefix_of(&p)).unwrap();
                let mut v = res_commit(&world, r);
                v["op"] = json!("q");
                v["k"] = json!("ctx_resolve_commit");
                v["p"] = json!(p);
                out.emit(&v);
            }
            if !seen_changes.insert(chid[c].clone()) {
                continue;
            }
            let ch: ChangeId = world.commit(c).change_id().clone();
            let l = pindex.shortest_change_prefix_len(repo_ref, &ch).block_on().unwrap();
            out.emit(&json!({"op":"q","k":"ctx_short_change","c":c,"out":l}));
            for p in probe_prefixes(rng, &chid[c], l + 1) {
                let r = pindex.resolve_change_prefix(repo_ref, &prefix_of(&p)).block_on().unwrap();
                let mut v = res_change(&world, r);
                v["op"] = json!("q");
                v["k"] = json!("ctx_resolve_change");
                v["p"] = json!(p);
                out.emit(&v);
            }
        }
    }
}

/// `index prefix --out trace --n <cases> --min 60 --max 120`
pub fn record(opts: &Opts) -> Result<(), String> {
    jjconf::util::quiet_panics();
    let mut out = Out::create(&opts.str("out", "trace.ndjson"))?;
    let seed = opts.u64("seed", 0);
    let ncases = opts.usize("n", 4);
    let (lo, hi) = (opts.usize("min", 60), opts.usize("max", 120));
    for i in 0..ncases {
        let mut rng = Rng::new(seed.wrapping_mul(65_537).wrapping_add(i as u64));
        // a few tiny repositories too (1-3 commits): boundary of "only one id"
        let n = if i % 5 == 4 { rng.range(1, 4) } else { rng.range(lo, hi) };
        let res = {
            let o = std::panic::AssertUnwindSafe(&mut out);
            let r = std::panic::AssertUnwindSafe(&mut rng);
            catch(move || {
                let (o, r) = (o, r);
                run_case(o.0, i + 1, r.0, n)
            })
        };
        if let Err(msg) = res {
            out.emit(&json!({"op":"panic","case":i + 1,"msg":msg}));
        }
    }
    out.finish();
    Ok(())
}
