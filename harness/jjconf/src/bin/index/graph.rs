//! C39: log graph edges.  A case is a DAG and a subset S of its commits; the
//! harness evaluates `Commits(S)` on the real index and logs the (node, edges)
//! stream of the real graph iterator with and without transitive-edge skipping
//! and through the public `Revset::stream_graph`.  TLC (Trace_GraphLog) judges.
use futures::StreamExt as _;
use jj_lib::backend::CommitId;
use jj_lib::graph::GraphEdgeType;
use jj_lib::graph::GraphNode;
use jj_lib::repo::Repo;
use jj_lib::revset::ResolvedExpression;
use jj_lib::revset::RevsetExpression;
use jjconf::util::Opts;
use jjconf::util::Out;
use jjconf::util::Rng;
use jjconf::util::catch;
use pollster::FutureExt as _;
use serde_json::Value;
use serde_json::json;

use crate::revset::build_world;
use crate::revset::random_dag;
use crate::world::World;
use crate::world::readonly_index;

fn usv(v: &Value) -> Vec<usize> {
    v.as_array().map(|a| a.iter().map(|x| x.as_u64().unwrap() as usize).collect()).unwrap_or_default()
}

fn project(world: &World, nodes: Vec<GraphNode<CommitId>>) -> Value {
    let out: Vec<Value> = nodes
        .into_iter()
        .map(|(id, edges)| {
            let es: Vec<Value> = edges
                .iter()
                .map(|e| {
                    let k = match e.edge_type {
                        GraphEdgeType::Direct => "d",
                        GraphEdgeType::Indirect => "i",
                        GraphEdgeType::Missing => "m",
                    };
                    json!([world.model(&e.target), k])
                })
                .collect();
            json!([world.model(&id), es])
        })
        .collect();
    json!(out)
}

fn run_case(out: &mut Out, case: usize, c: &Value, rng: &mut Rng) {
    let par: Vec<Vec<usize>> = c["par"].as_array().unwrap().iter().map(usv).collect();
    let n = par.len();
    let pad = c["pad"].as_u64().unwrap_or(0) as usize;
    let cuts: Vec<usize> = (0..rng.below(3)).map(|_| rng.range(1, n.max(1))).collect();
    let ts: Vec<i64> = (1..=n as i64).collect();
    let chg: Vec<usize> = (1..=n).collect();
    // everything visible: heads of the whole DAG (jj normalises the list)
    let vh: Vec<usize> = (1..=n).collect();
    let (world, repo) = build_world(&format!("g{case}"), &par, &vh, &ts, &chg, pad, &cuts);
    let repo = if case % 2 == 1 { world.reload_from_disk(repo.operation()) } else { repo };
    for s in c["sets"].as_array().unwrap() {
        let s = usv(s);
        let ids: Vec<CommitId> = s.iter().map(|&x| world.cid(x)).collect();
        let index = readonly_index(repo.as_ref());
        let expression = ResolvedExpression::Commits(ids.clone());
        for skip in [false, true] {
            let revset = index.evaluate_revset_impl(&expression, repo.store()).unwrap();
            let nodes: Vec<GraphNode<CommitId>> = revset.iter_graph_impl(skip).map(|r| r.unwrap()).collect();
            out.emit(&json!({"op":"graph","case":case,"par":par,"s":s,"skip":skip,"api":"impl",
                             "out":project(&world, nodes),"pad":pad}));
        }
        // the public entry point (what `jj log` uses): skips transitive edges
        let revset = RevsetExpression::commits(ids).evaluate(repo.as_ref()).unwrap();
        let nodes: Vec<GraphNode<CommitId>> =
            revset.stream_graph().map(|r| r.unwrap()).collect::<Vec<_>>().block_on();
        out.emit(&json!({"op":"graph","case":case,"par":par,"s":s,"skip":true,"api":"stream",
                         "out":project(&world, nodes),"pad":pad}));
    }
}

fn run_case_guarded(out: &mut Out, case: usize, c: &Value, rng: &mut Rng) {
    let res = {
        let o = std::panic::AssertUnwindSafe(&mut *out);
        let r = std::panic::AssertUnwindSafe(&mut *rng);
        catch(move || {
            let (o, r) = (o, r);
            run_case(o.0, case, c, r.0)
        })
    };
    if let Err(msg) = res {
        out.emit(&json!({"op":"panic","case":case,"msg":msg,"input":c}));
    }
}

/// `index graph-replay --in cases.json --out trace`
pub fn replay(opts: &Opts) -> Result<(), String> {
    jjconf::util::quiet_panics();
    let inp = opts.get("in").ok_or("--in required")?;
    let text = std::fs::read_to_string(inp).map_err(|e| format!("{inp}: {e}"))?;
    let cases: Vec<Value> = serde_json::from_str(&text).map_err(|e| format!("{inp}: {e}"))?;
    let mut out = Out::create(&opts.str("out", "trace.ndjson"))?;
    let mut rng = Rng::new(opts.u64("seed", 0));
    for (i, c) in cases.iter().enumerate() {
        run_case_guarded(&mut out, i + 1, c, &mut rng);
    }
    out.finish();
    Ok(())
}

/// `index graph-random --out trace --n <cases> --sets <per case> --maxn 14`
pub fn random(opts: &Opts) -> Result<(), String> {
    jjconf::util::quiet_panics();
    let mut out = Out::create(&opts.str("out", "trace.ndjson"))?;
    let seed = opts.u64("seed", 0);
    let ncases = opts.usize("n", 50);
    let per = opts.usize("sets", 12);
    let maxn = opts.usize("maxn", 14);
    for i in 0..ncases {
        let mut rng = Rng::new(seed.wrapping_mul(104_729).wrapping_add(i as u64));
        let n = rng.range(4, maxn);
        let par = random_dag(&mut rng, n);
        let pad = if rng.chance(1, 2) { rng.range(50, 66) } else { 0 };
        let mut sets: Vec<Vec<usize>> = vec![];
        for _ in 0..per {
            // sparse subsets, sometimes including the root
            let dens = rng.range(1, 4);
            let mut s: Vec<usize> = (0..=n).filter(|&c| (c > 0 || rng.chance(1, 4)) && rng.chance(dens, 5)).collect();
            if s.is_empty() {
                s.push(rng.range(1, n));
            }
            sets.push(s);
        }
        let c = json!({"par":par,"pad":pad,"sets":sets});
        run_case_guarded(&mut out, 100_000 + i, &c, &mut rng);
    }
    out.finish();
    Ok(())
}
