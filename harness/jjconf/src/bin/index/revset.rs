//! C19: revset evaluation.  A case is a DAG (model ids), the visible heads, the
//! committer-time rank of every commit and a list of expressions (JSON AST shared
//! with spec/Revset.tla).  The harness builds the commits through real
//! transactions, converts each AST into a `ResolvedRevsetExpression`, calls
//! `evaluate` (optimised) and `evaluate_unoptimized` and logs both result lists.
//! TLC (Trace_Revset) compares them with `Eval`.
use std::sync::Arc;

use futures::StreamExt as _;
use jj_lib::backend::CommitId;
use jj_lib::repo::ReadonlyRepo;
use jj_lib::repo::Repo;
use jj_lib::revset::ResolvedRevsetExpression;
use jj_lib::revset::RevsetExpression;
use jjconf::util::Opts;
use jjconf::util::Out;
use jjconf::util::Rng;
use jjconf::util::catch;
use pollster::FutureExt as _;
use serde_json::Value;
use serde_json::json;

use crate::world::CommitSpec;
use crate::world::World;
use crate::world::digits_of_small_change;
use crate::world::view_heads;

pub const INF: u64 = 1000;

type Expr = Arc<ResolvedRevsetExpression>;

fn u(v: &Value) -> u64 {
    v.as_u64().expect("integer")
}

fn gen_range(lo: &Value, hi: &Value) -> std::ops::Range<u64> {
    let (lo, hi) = (u(lo), u(hi));
    lo..(if hi >= INF { u64::MAX } else { hi })
}

fn par_range(lo: &Value, hi: &Value) -> std::ops::Range<u32> {
    let (lo, hi) = (u(lo), u(hi));
    (lo as u32)..(if hi >= INF { u32::MAX } else { hi as u32 })
}

fn ids(world: &World, v: &Value) -> Vec<CommitId> {
    v.as_array().unwrap().iter().map(|x| world.cid(u(x) as usize)).collect()
}

/// JSON AST -> ResolvedRevsetExpression (no symbols, nothing to resolve).
pub fn build(world: &World, e: &Value) -> Expr {
    let t = e["t"].as_str().expect("expression tag");
    let sub = |k: &str| build(world, &e[k]);
    match t {
        "none" => RevsetExpression::none(),
        "all" => RevsetExpression::all(),
        "vheads" => RevsetExpression::visible_heads(),
        "root" => RevsetExpression::root(),
        "commits" => RevsetExpression::commits(ids(world, &e["ids"])),
        "anc" => Arc::new(RevsetExpression::Ancestors {
            heads: sub("x"),
            generation: gen_range(&e["lo"], &e["hi"]),
            parents_range: par_range(&e["plo"], &e["phi"]),
        }),
        "desc" => Arc::new(RevsetExpression::Descendants {
            roots: sub("x"),
            generation: gen_range(&e["lo"], &e["hi"]),
        }),
        "range" => Arc::new(RevsetExpression::Range {
            roots: sub("r"),
            heads: sub("h"),
            generation: gen_range(&e["lo"], &e["hi"]),
            parents_range: par_range(&e["plo"], &e["phi"]),
        }),
        "dagrange" => sub("r").dag_range_to(&sub("h")),
        "connected" => sub("x").connected(),
        "reachable" => sub("s").reachable(&sub("d")),
        "heads" => sub("x").heads(),
        "roots" => sub("x").roots(),
        "forkpoint" => sub("x").fork_point(),
        "mergepoint" => sub("x").merge_point(),
        "forks" => RevsetExpression::forks(),
        "latest" => sub("x").latest(u(&e["n"]) as usize),
        "coalesce" => RevsetExpression::coalesce(&[sub("a"), sub("b")]),
        "not" => sub("x").negated(),
        "union" => sub("a").union(&sub("b")),
        "inter" => sub("a").intersection(&sub("b")),
        "diff" => sub("a").minus(&sub("b")),
        "within" => Arc::new(RevsetExpression::WithinVisibility {
            candidates: sub("x"),
            visible_heads: ids(world, &e["vh"]),
        }),
        other => panic!("unknown expression tag {other}"),
    }
}

fn collect(world: &World, revset: &dyn jj_lib::revset::Revset) -> Result<Vec<i64>, String> {
    let items: Vec<_> = revset.stream().collect::<Vec<_>>().block_on();
    let mut out = vec![];
    for it in items {
        match it {
            Ok(id) => out.push(world.model(&id)),
            Err(e) => return Err(format!("{e}")),
        }
    }
    Ok(out)
}

fn eval_both(world: &World, repo: &dyn Repo, e: &Value) -> (Value, String, Value, String) {
    let expr = build(world, e);
    let (opt, opt_err) = match expr.clone().evaluate(repo) {
        Ok(rs) => match collect(world, rs.as_ref()) {
            Ok(v) => (json!(v), String::new()),
            Err(m) => (json!([]), m),
        },
        Err(err) => (json!([]), format!("{err}")),
    };
    let (unopt, unopt_err) = match expr.evaluate_unoptimized(repo) {
        Ok(rs) => match collect(world, rs.as_ref()) {
            Ok(v) => (json!(v), String::new()),
            Err(m) => (json!([]), m),
        },
        Err(err) => (json!([]), format!("{err}")),
    };
    (opt, opt_err, unopt, unopt_err)
}

/// Builds the case's commits (split over `ntx` transactions, optionally after
/// `pad` hidden padding commits that shift index positions) and makes exactly
/// `vh` (and their ancestors) visible.
pub fn build_world(
    tag: &str,
    par: &[Vec<usize>],
    vh: &[usize],
    ts: &[i64],
    chg: &[usize],
    pad: usize,
    cuts: &[usize],
) -> (World, Arc<ReadonlyRepo>) {
    let mut world = World::new(tag);
    let mut repo = world.initial_repo();
    let n = par.len();
    if pad > 0 {
        // padding commits: children of the root, never made visible, not in the model
        let mut tx = repo.start_transaction();
        let mut pads = vec![];
        for i in 0..pad {
            let c = tx
                .repo_mut()
                .new_commit(vec![world.cid(0)], repo.store().empty_merged_tree())
                .set_description(format!("{tag}-pad{i}"))
                .write()
                .block_on()
                .unwrap();
            pads.push(c);
        }
        for c in &pads {
            tx.repo_mut().remove_head(c.id());
        }
        repo = tx.commit("pad").block_on().unwrap();
    }
    let mut start = 1usize;
    let mut bounds: Vec<usize> = cuts.iter().copied().filter(|&c| c >= 1 && c < n).collect();
    bounds.push(n);
    bounds.sort();
    bounds.dedup();
    for (bi, &end) in bounds.iter().enumerate() {
        let last = bi + 1 == bounds.len();
        let mut tx = repo.start_transaction();
        for c in start..=end {
            let spec = CommitSpec {
                id: c,
                parents: par[c - 1].clone(),
                change: digits_of_small_change(chg.get(c - 1).copied().unwrap_or(c)),
                ts: ts.get(c - 1).copied().unwrap_or(c as i64),
                tree: None,
            };
            world.write_commit(tx.repo_mut(), &spec);
        }
        if last {
            // visibility: drop every head, then add exactly the wanted ones
            let cur: Vec<CommitId> = tx.repo_mut().view().heads().iter().cloned().collect();
            for h in &cur {
                tx.repo_mut().remove_head(h);
            }
            for &v in vh {
                let c = world.commit(v).clone();
                tx.repo_mut().add_head(&c).block_on().unwrap();
            }
            if vh.is_empty() {
                let c = world.commit(0).clone();
                tx.repo_mut().add_head(&c).block_on().unwrap();
            }
        }
        repo = tx.commit(format!("{tag}-tx{bi}")).block_on().unwrap();
        start = end + 1;
    }
    (world, repo)
}

fn usv(v: &Value) -> Vec<usize> {
    v.as_array().map(|a| a.iter().map(|x| u(x) as usize).collect()).unwrap_or_default()
}

fn run_case(out: &mut Out, case: usize, c: &Value, rng: &mut Rng, reload: bool) {
    let par: Vec<Vec<usize>> = c["par"].as_array().unwrap().iter().map(usv).collect();
    let vh = usv(&c["vh"]);
    let n = par.len();
    let ts: Vec<i64> = match c["ts"].as_array() {
        Some(a) => a.iter().map(|x| x.as_i64().unwrap()).collect(),
        None => (1..=n as i64).collect(),
    };
    let pad = c["pad"].as_u64().unwrap_or(0) as usize;
    let cuts: Vec<usize> = (0..rng.below(3)).map(|_| rng.range(1, n.max(1))).collect();
    let chg: Vec<usize> = (1..=n).collect();
    let (world, repo) = build_world(&format!("r{case}"), &par, &vh, &ts, &chg, pad, &cuts);
    let repo = if reload { world.reload_from_disk(repo.operation()) } else { repo };
    let real_vh = view_heads(&world, repo.as_ref());
    for e in c["exprs"].as_array().unwrap() {
        let (opt, opt_err, unopt, unopt_err) = eval_both(&world, repo.as_ref(), e);
        out.emit(&json!({"op":"revset","case":case,"par":par,"vh":real_vh,"ts":ts,"e":e,
                         "opt":opt,"opt_err":opt_err,"unopt":unopt,"unopt_err":unopt_err,"pad":pad}));
    }
}

fn run_case_guarded(out: &mut Out, case: usize, c: &Value, rng: &mut Rng, reload: bool) {
    let res = {
        let o = std::panic::AssertUnwindSafe(&mut *out);
        let r = std::panic::AssertUnwindSafe(&mut *rng);
        catch(move || {
            let (o, r) = (o, r);
            run_case(o.0, case, c, r.0, reload)
        })
    };
    if let Err(msg) = res {
        out.emit(&json!({"op":"panic","case":case,"msg":msg,"input":c}));
    }
}

/// `index revset-replay --in cases.json --out trace`: TLC-enumerated cases.
pub fn replay(opts: &Opts) -> Result<(), String> {
    jjconf::util::quiet_panics();
    let inp = opts.get("in").ok_or("--in required")?;
    let text = std::fs::read_to_string(inp).map_err(|e| format!("{inp}: {e}"))?;
    let cases: Vec<Value> = serde_json::from_str(&text).map_err(|e| format!("{inp}: {e}"))?;
    let mut out = Out::create(&opts.str("out", "trace.ndjson"))?;
    let mut rng = Rng::new(opts.u64("seed", 0));
    for (i, c) in cases.iter().enumerate() {
        run_case_guarded(&mut out, i + 1, c, &mut rng, i % 2 == 1);
    }
    out.finish();
    Ok(())
}

// ---------------------------------------------------------------------------
// random cases (I->S)

pub fn random_dag(rng: &mut Rng, n: usize) -> Vec<Vec<usize>> {
    let mut par: Vec<Vec<usize>> = vec![];
    for c in 1..=n {
        let mut ps: Vec<usize> = vec![];
        if c == 1 || rng.chance(1, 8) {
            ps.push(0);
        } else {
            let np = if rng.chance(1, 10) { 3 } else if rng.chance(1, 3) { 2 } else { 1 };
            for _ in 0..np {
                let p = if rng.chance(1, 2) { c - 1 - rng.below((c - 1).min(3)) } else { rng.range(1, c - 1) };
                if !ps.contains(&p) {
                    ps.push(p);
                }
            }
        }
        par.push(ps);
    }
    par
}

fn random_ids(rng: &mut Rng, n: usize, max: usize) -> Vec<usize> {
    let k = rng.range(1, max);
    let mut v: Vec<usize> = (0..k).map(|_| rng.below(n + 1)).collect();
    v.sort();
    v.dedup();
    v
}

fn random_gen(rng: &mut Rng) -> (u64, u64) {
    match rng.below(10) {
        0 => (0, INF),
        1 => (1, 2),
        2 => (1, INF),
        3 => (0, 2),
        4 => (1, 3),
        5 => (2, 4),
        6 => (2, 3),
        7 => (0, 3),
        8 => {
            let lo = rng.below(3) as u64;
            (lo, lo + 1 + rng.below(3) as u64)
        }
        _ => (rng.below(4) as u64, INF),
    }
}

/// DAG in which index position order (= id order, commits are written in id
/// order) and generation order disagree: long branches are written before
/// short ones from the same base; some merges of branch tips at the end.
pub fn branchy_dag(rng: &mut Rng, n: usize) -> Vec<Vec<usize>> {
    let mut par: Vec<Vec<usize>> = vec![];
    let mut tips: Vec<usize> = vec![];
    let base = if n >= 6 && rng.chance(1, 2) {
        par.push(vec![0]);
        1
    } else {
        0
    };
    let merges = if n >= 5 { rng.below(3) } else { 0 };
    let mut left = n - par.len() - merges;
    let mut len = (left * 2 / 3).max(1);
    while left > 0 {
        let l = len.min(left);
        let mut prev = base;
        for _ in 0..l {
            par.push(vec![prev]);
            prev = par.len();
        }
        tips.push(prev);
        left -= l;
        len = (len / 2).max(1);
    }
    for _ in 0..merges {
        let mut ps: Vec<usize> = vec![];
        for _ in 0..2 {
            let p = *rng.pick(&tips);
            if !ps.contains(&p) {
                ps.push(p);
            }
        }
        if ps.len() == 1 {
            let q = rng.range(1, par.len());
            if q != ps[0] {
                ps.push(q);
            }
        }
        par.push(ps);
        tips.push(par.len());
    }
    par
}

/// Generation-bounded descendants / children / ancestors over a multi-element set.
fn focus_expr(rng: &mut Rng, n: usize) -> Value {
    const RANGES: [(u64, u64); 6] = [(0, 2), (1, 3), (2, 4), (2, 3), (1, 2), (0, 3)];
    let (lo, hi) = *rng.pick(&RANGES);
    let k = rng.range(2, 3.min(n));
    let mut ids: Vec<usize> = (0..k).map(|_| rng.range(1, n)).collect();
    ids.sort();
    ids.dedup();
    let x = if rng.chance(1, 4) {
        json!({"t":"union","a":{"t":"commits","ids":[ids[0]]},"b":{"t":"commits","ids":ids[1..].to_vec()}})
    } else {
        json!({"t":"commits","ids":ids})
    };
    let inner = if rng.chance(2, 3) {
        json!({"t":"desc","x":x,"lo":lo,"hi":hi})
    } else {
        json!({"t":"anc","x":x,"lo":lo,"hi":hi,"plo":0,"phi":INF})
    };
    match rng.below(5) {
        0 => json!({"t":"heads","x":inner}),
        1 => {
            let (l2, h2) = *rng.pick(&RANGES);
            json!({"t":"desc","x":inner,"lo":l2,"hi":h2})
        }
        _ => inner,
    }
}

fn random_parents_range(rng: &mut Rng) -> (u64, u64) {
    match rng.below(8) {
        0 | 1 => (0, 1),
        2 => (1, 2),
        3 => (1, INF),
        _ => (0, INF),
    }
}

pub fn random_expr(rng: &mut Rng, n: usize, depth: usize, forms: &[&str]) -> Value {
    if depth == 0 || rng.chance(1, 6) {
        return match rng.below(9) {
            0 => json!({"t":"all"}),
            1 => json!({"t":"none"}),
            2 => json!({"t":"root"}),
            3 => json!({"t":"vheads"}),
            4 | 5 => json!({"t":"commits","ids":random_ids(rng, n, 1)}),
            _ => json!({"t":"commits","ids":random_ids(rng, n, 4)}),
        };
    }
    let f = *rng.pick(forms);
    let sub = |rng: &mut Rng| random_expr(rng, n, depth - 1, forms);
    match f {
        "anc" => {
            let (lo, hi) = random_gen(rng);
            let (plo, phi) = random_parents_range(rng);
            json!({"t":"anc","x":sub(rng),"lo":lo,"hi":hi,"plo":plo,"phi":phi})
        }
        "desc" => {
            let (lo, hi) = random_gen(rng);
            json!({"t":"desc","x":sub(rng),"lo":lo,"hi":hi})
        }
        "range" => {
            let (lo, hi) = if rng.chance(2, 3) { (0, INF) } else { random_gen(rng) };
            let (plo, phi) = if rng.chance(3, 4) { (0, INF) } else { random_parents_range(rng) };
            json!({"t":"range","r":sub(rng),"h":sub(rng),"lo":lo,"hi":hi,"plo":plo,"phi":phi})
        }
        "dagrange" => json!({"t":"dagrange","r":sub(rng),"h":sub(rng)}),
        "connected" => json!({"t":"connected","x":sub(rng)}),
        "reachable" => json!({"t":"reachable","s":sub(rng),"d":sub(rng)}),
        "heads" | "roots" | "forkpoint" | "mergepoint" | "not" => json!({"t":f,"x":sub(rng)}),
        "forks" => json!({"t":"forks"}),
        "latest" => json!({"t":"latest","x":sub(rng),"n":rng.below(4)}),
        "coalesce" | "union" | "inter" | "diff" => json!({"t":f,"a":sub(rng),"b":sub(rng)}),
        "within" => json!({"t":"within","x":sub(rng),"vh":random_ids(rng, n, 2)}),
        other => panic!("unknown form {other}"),
    }
}

pub const ALL_FORMS: &[&str] = &[
    "anc", "anc", "desc", "desc", "range", "range", "dagrange", "connected", "reachable", "heads", "roots",
    "forkpoint", "mergepoint", "forks", "latest", "coalesce", "not", "union", "inter", "diff", "within",
];

/// `index revset-random --out trace --n <cases> --exprs <per case> --maxn 12 --depth 5`
pub fn random(opts: &Opts) -> Result<(), String> {
    jjconf::util::quiet_panics();
    let mut out = Out::create(&opts.str("out", "trace.ndjson"))?;
    let seed = opts.u64("seed", 0);
    let ncases = opts.usize("n", 50);
    let per = opts.usize("exprs", 40);
    let maxn = opts.usize("maxn", 12);
    let depth = opts.usize("depth", 5);
    let forms_opt = opts.str("forms", "");
    let forms: Vec<&str> =
        if forms_opt.is_empty() { ALL_FORMS.to_vec() } else { forms_opt.split(',').collect() };
    for i in 0..ncases {
        let mut rng = Rng::new(seed.wrapping_mul(7919).wrapping_add(i as u64));
        // the first cases of every run are scripted: a long branch written before a
        // short one (from the root; from a common base with a merge; three branches)
        let scripted: [&[&[usize]]; 3] = [
            &[&[0], &[1], &[2], &[0], &[4], &[5]],
            &[&[0], &[1], &[2], &[3], &[1], &[4, 5]],
            &[&[0], &[1], &[2], &[3], &[4], &[0], &[6], &[7], &[0], &[9], &[5, 8]],
        ];
        let par: Vec<Vec<usize>> = if i < scripted.len() {
            scripted[i].iter().map(|p| p.to_vec()).collect()
        } else if i % 2 == 1 {
            let n = rng.range(4, maxn);
            branchy_dag(&mut rng, n)
        } else {
            let n = rng.range(2, maxn);
            random_dag(&mut rng, n)
        };
        let n = par.len();
        // visible heads: a random set of commits (jj normalises it; the REAL view heads are logged)
        let mut vh: Vec<usize> =
            if i < scripted.len() { (1..=n).collect() } else { (1..=n).filter(|_| rng.chance(1, 3)).collect() };
        if vh.is_empty() {
            vh.push(rng.range(1, n));
        }
        // committer times: a random permutation (distinct), so latest(n) is determined
        let mut ts: Vec<i64> = (1..=n as i64).collect();
        rng.shuffle(&mut ts);
        let pad = if rng.chance(1, 3) { rng.range(55, 70) } else { 0 };
        let exprs: Vec<Value> = (0..per)
            .map(|k| {
                // a third of the expressions (all of them on the scripted shapes' first half)
                // are generation-bounded walks from multi-element sets
                if n >= 2 && (k % 3 == 0 || (i < scripted.len() && k % 2 == 0)) {
                    focus_expr(&mut rng, n)
                } else {
                    let d = rng.range(1, depth);
                    random_expr(&mut rng, n, d, &forms)
                }
            })
            .collect();
        let c = json!({"par":par,"vh":vh,"ts":ts,"pad":pad,"exprs":exprs});
        run_case_guarded(&mut out, 100_000 + i, &c, &mut rng, i % 2 == 1);
    }
    out.finish();
    Ok(())
}
