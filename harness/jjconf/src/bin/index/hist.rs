//! C18 / C22: histories (a DAG plus its split into transactions and concurrent
//! operations) executed through real transactions on the on-disk
//! DefaultIndexStore.  After every step the real index is queried (inside the
//! open transaction, on the committed in-memory repo, after a reload from disk,
//! after merging operations) and the answers are logged in model vocabulary.
//! TLC (Trace_IndexSegments / Trace_ChangedPaths) judges every record against
//! the Dag operators.  Nothing is decided here.
use std::collections::BTreeMap;
use std::collections::BTreeSet;
use std::sync::Arc;

use futures::StreamExt as _;
use jj_lib::backend::CommitId;
use jj_lib::default_index::DefaultIndexStore;
use jj_lib::fileset::FilesetExpression;
use jj_lib::index::ResolvedChangeState;
use jj_lib::repo::ReadonlyRepo;
use jj_lib::repo::Repo;
use jj_lib::revset::ResolvedRevsetExpression;
use jj_lib::revset::RevsetFilterPredicate;
use jj_lib::transaction::Transaction;
use jjconf::util::Opts;
use jjconf::util::Out;
use jjconf::util::Rng;
use jjconf::util::catch;
use pollster::FutureExt as _;
use serde_json::Value;
use serde_json::json;
use testutils::repo_path_buf;

use crate::world::CommitSpec;
use crate::world::World;
use crate::world::change_id_from_digits;
use crate::world::digits_of_small_change;
use crate::world::levels;
use crate::world::readonly_index;
use crate::world::view_heads;

pub const PATHS: [&str; 3] = ["a", "b", "d/c"];

#[derive(Clone, Copy, PartialEq, Eq, Debug)]
pub enum Want {
    /// C18 graph queries
    Graph,
    /// C22 changed paths
    Paths,
}

fn idv(x: &Value) -> usize {
    x.as_u64().expect("integer") as usize
}

fn idvec(x: &Value) -> Vec<usize> {
    x.as_array().map(|a| a.iter().map(idv).collect()).unwrap_or_default()
}

fn subset_by_mask(items: &[usize], mask: usize) -> Vec<usize> {
    items.iter().enumerate().filter(|(i, _)| mask >> i & 1 == 1).map(|(_, &x)| x).collect()
}

fn random_subset(rng: &mut Rng, items: &[usize], max: usize) -> Vec<usize> {
    let k = rng.range(1, max.min(items.len()));
    let mut v = items.to_vec();
    rng.shuffle(&mut v);
    v.truncate(k);
    v
}

/// Which model commits the index knows.
fn known_ids(world: &World, repo: &dyn Repo) -> Vec<usize> {
    (0..world.commits.len())
        .filter(|&i| world.is_written(i))
        .filter(|&i| repo.index().has_id(&world.cid(i)).block_on().unwrap())
        .collect()
}

/// C18 observation: the real index's answers, in model ids.
pub fn observe_graph(
    world: &World,
    repo: &dyn Repo,
    ro: Option<&ReadonlyRepo>,
    rng: &mut Rng,
    base: Value,
) -> Value {
    let index = repo.index();
    let known = known_ids(world, repo);
    let small = known.len() <= 7;
    // is_ancestor
    let mut pairs: Vec<(usize, usize)> = vec![];
    if small {
        for &a in &known {
            for &d in &known {
                pairs.push((a, d));
            }
        }
    } else {
        for _ in 0..60 {
            pairs.push((*rng.pick(&known), *rng.pick(&known)));
        }
        // parent/child and grandparent pairs, both directions
        for _ in 0..30 {
            let c = *rng.pick(&known);
            if c == 0 {
                continue;
            }
            let ps = &world.specs[c].as_ref().unwrap().parents;
            let p = *rng.pick(ps);
            pairs.push((p, c));
            pairs.push((c, p));
        }
    }
    let isanc: Vec<Value> = pairs
        .iter()
        .map(|&(a, d)| {
            let r = index.is_ancestor(&world.cid(a), &world.cid(d)).block_on().unwrap();
            json!([a, d, r])
        })
        .collect();
    // heads of subsets
    let mut subsets: Vec<Vec<usize>> = vec![];
    if known.len() <= 6 {
        for mask in 1..(1usize << known.len()) {
            subsets.push(subset_by_mask(&known, mask));
        }
    } else {
        for _ in 0..(if small { 40 } else { 25 }) {
            subsets.push(random_subset(rng, &known, 6));
        }
    }
    // a few candidate lists with a duplicated element
    for _ in 0..3 {
        let mut s = random_subset(rng, &known, 4);
        s.push(s[0]);
        subsets.push(s);
    }
    let heads: Vec<Value> = subsets
        .iter()
        .map(|s| {
            let ids: Vec<CommitId> = s.iter().map(|&c| world.cid(c)).collect();
            let out = index.heads(&mut ids.iter()).block_on().unwrap();
            json!({"s": s, "out": world.models(&out)})
        })
        .collect();
    // common ancestors
    let mut ca_q: Vec<(Vec<usize>, Vec<usize>)> = vec![];
    if known.len() <= 6 {
        for &a in &known {
            for &b in &known {
                ca_q.push((vec![a], vec![b]));
            }
        }
    }
    for _ in 0..(if small { 12 } else { 30 }) {
        ca_q.push((random_subset(rng, &known, 3), random_subset(rng, &known, 3)));
    }
    let ca: Vec<Value> = ca_q
        .iter()
        .map(|(a, b)| {
            let ia: Vec<CommitId> = a.iter().map(|&c| world.cid(c)).collect();
            let ib: Vec<CommitId> = b.iter().map(|&c| world.cid(c)).collect();
            let out = index.common_ancestors(&ia, &ib).block_on().unwrap();
            json!({"a": a, "b": b, "out": world.models(&out)})
        })
        .collect();
    // change id -> commits (visible / hidden)
    let mut changes: BTreeMap<Vec<u8>, usize> = BTreeMap::new();
    let mut chg_of: Vec<usize> = vec![0; world.commits.len()];
    for &c in &known {
        if c == 0 {
            continue;
        }
        let spec = world.specs[c].as_ref().unwrap();
        let n = changes.len() + 1;
        chg_of[c] = *changes.entry(spec.change.clone()).or_insert(n);
    }
    let mut chgq: Vec<Value> = vec![];
    for (digits, &k) in &changes {
        let r = repo.resolve_change_id(&change_id_from_digits(digits)).block_on().unwrap();
        let out: Vec<Value> = r
            .map(|t| {
                t.targets
                    .iter()
                    .map(|(id, st)| json!([world.model(id), *st == ResolvedChangeState::Visible]))
                    .collect()
            })
            .unwrap_or_default();
        chgq.push(json!({"chg": k, "out": out}));
    }
    // the root's change id
    {
        let root_change = repo.store().root_change_id().clone();
        let r = repo.resolve_change_id(&root_change).block_on().unwrap();
        let out: Vec<Value> = r
            .map(|t| {
                t.targets
                    .iter()
                    .map(|(id, st)| json!([world.model(id), *st == ResolvedChangeState::Visible]))
                    .collect()
            })
            .unwrap_or_default();
        chgq.push(json!({"chg": 0, "out": out}));
    }
    let mut rec = base;
    let o = rec.as_object_mut().unwrap();
    o.insert("op".into(), json!("obs"));
    o.insert("par".into(), json!(world.par_json()));
    o.insert("chg".into(), json!(chg_of[1..].to_vec()));
    o.insert("known".into(), json!(known));
    o.insert("vheads".into(), json!(view_heads(world, repo)));
    o.insert("isanc".into(), json!(isanc));
    o.insert("heads".into(), json!(heads));
    o.insert("ca".into(), json!(ca));
    o.insert("chgq".into(), json!(chgq));
    o.insert("extra".into(), json!(0));
    if let Some(ro) = ro {
        let ix = readonly_index(ro);
        let gens: Vec<Value> = known
            .iter()
            .map(|&c| json!([c, ix.generation_number(&world.cid(c)).map(|g| g as i64).unwrap_or(-1)]))
            .collect();
        o.insert("gen".into(), json!(gens));
        o.insert("levels".into(), json!(levels(ro)));
        o.insert("ncommits".into(), json!(ix.num_commits()));
    } else {
        o.insert("gen".into(), json!([]));
        o.insert("levels".into(), json!([]));
        o.insert("ncommits".into(), json!(0));
    }
    rec
}

fn eval_ids(world: &World, repo: &dyn Repo, e: Arc<ResolvedRevsetExpression>) -> Vec<i64> {
    let revset = e.evaluate(repo).unwrap();
    let ids: Vec<CommitId> = revset.stream().map(|r| r.unwrap()).collect::<Vec<_>>().block_on();
    world.models(&ids)
}

/// C22 observation: recorded changed paths and files() results, plus the trees.
pub fn observe_paths(world: &World, repo: &dyn Repo, base: Value) -> Value {
    let index = repo.index();
    let known = known_ids(world, repo);
    let mut trees: Vec<Vec<u8>> = vec![];
    for i in 1..world.commits.len() {
        let t = world.specs[i].as_ref().and_then(|s| s.tree.clone()).unwrap_or_default();
        trees.push(PATHS.iter().map(|p| t.get(*p).copied().unwrap_or(0)).collect());
    }
    let mut cp: Vec<Value> = vec![];
    for &c in &known {
        let r = index.changed_paths_in_commit(&world.cid(c)).block_on().unwrap();
        match r {
            None => cp.push(json!([c, false, []])),
            Some(paths) => {
                let idx: Vec<i64> = paths
                    .map(|p| {
                        PATHS
                            .iter()
                            .position(|q| *q == p.as_internal_file_string())
                            .map(|k| k as i64 + 1)
                            .unwrap_or(-1)
                    })
                    .collect();
                cp.push(json!([c, true, idx]));
            }
        }
    }
    let mut files: Vec<Value> = vec![];
    for (k, p) in PATHS.iter().enumerate() {
        let e = ResolvedRevsetExpression::filter(RevsetFilterPredicate::File(FilesetExpression::file_path(
            repo_path_buf(*p),
        )));
        files.push(json!({"p": k + 1, "out": eval_ids(world, repo, e)}));
    }
    // every path at once (prefix of the root) and the complement (is_empty)
    {
        let e = ResolvedRevsetExpression::filter(RevsetFilterPredicate::File(FilesetExpression::all()));
        files.push(json!({"p": 0, "out": eval_ids(world, repo, e)}));
    }
    let mut rec = base;
    let o = rec.as_object_mut().unwrap();
    o.insert("op".into(), json!("cpobs"));
    o.insert("par".into(), json!(world.par_json()));
    o.insert("trees".into(), json!(trees));
    o.insert("known".into(), json!(known));
    o.insert("vheads".into(), json!(view_heads(world, repo)));
    o.insert("cp".into(), json!(cp));
    o.insert("files".into(), json!(files));
    rec
}

fn enable_changed_paths(repo: &Arc<ReadonlyRepo>, max_commits: u32) -> Arc<ReadonlyRepo> {
    let store: &DefaultIndexStore = repo.index_store().downcast_ref().unwrap();
    store
        .build_changed_path_index_at_operation(repo.op_id(), repo.store(), max_commits, |_| ())
        .block_on()
        .unwrap();
    repo.reload_at(repo.operation()).block_on().unwrap()
}

fn random_tree(rng: &mut Rng, world: &World, parents: &[usize]) -> BTreeMap<String, u8> {
    let mut t = BTreeMap::new();
    for p in PATHS {
        let v = if rng.chance(3, 5) {
            // inherit from a random parent (keeps merges trivially resolvable often)
            let par = *rng.pick(parents);
            if par == 0 {
                0
            } else {
                world.specs[par].as_ref().and_then(|s| s.tree.as_ref()).and_then(|t| t.get(p).copied()).unwrap_or(0)
            }
        } else {
            rng.below(4) as u8
        };
        if v != 0 {
            t.insert(p.to_string(), v);
        }
    }
    t
}

pub struct Runner<'a> {
    pub out: &'a mut Out,
    pub rng: Rng,
    pub want: Want,
    /// changed-path index mode for this behaviour: 0 never, 1 at the initial
    /// operation, 2 after the k-th commit step (possibly partial), 3 at the end
    pub cp_mode: usize,
    pub cp_at: usize,
    pub cp_max: u32,
    pub obs_mut: bool,
    pub obs_reload: bool,
}

impl Runner<'_> {
    fn emit_obs(&mut self, world: &World, repo: &dyn Repo, ro: Option<&ReadonlyRepo>, base: Value) {
        match self.want {
            Want::Graph => {
                let rec = observe_graph(world, repo, ro, &mut self.rng, base);
                self.out.emit(&rec);
            }
            Want::Paths => {
                let rec = observe_paths(world, repo, base);
                self.out.emit(&rec);
            }
        }
    }

    fn obs_committed(&mut self, world: &World, repo: &Arc<ReadonlyRepo>, base: &Value, step: usize) {
        let mut b = base.clone();
        b["step"] = json!(step);
        b["mode"] = json!("mem");
        self.emit_obs(world, repo.as_ref(), Some(repo.as_ref()), b.clone());
        if self.obs_reload {
            let re = world.reload_from_disk(repo.operation());
            b["mode"] = json!("reload");
            self.emit_obs(world, re.as_ref(), Some(re.as_ref()), b);
        }
    }

    /// Executes one behaviour (the `hist` sequence produced by MC_IndexSegments or
    /// by the long-history driver).
    pub fn run(&mut self, case: usize, steps: &[Value]) {
        let mut world = World::new(&format!("k{case}"));
        let mut ops: Vec<Arc<ReadonlyRepo>> = vec![world.initial_repo()];
        if self.cp_mode == 1 {
            ops[0] = enable_changed_paths(&ops[0], u32::MAX);
        }
        let mut tx: Option<Transaction> = None;
        let mut n_commits = 0usize;
        let mut added = 0usize;
        let mut base_levels: Vec<u32> = vec![];
        for (k, st) in steps.iter().enumerate() {
            let a = st["a"].as_str().unwrap();
            match a {
                "begin" => {
                    let b = idv(&st["base"]);
                    base_levels = levels(&ops[b - 1]);
                    added = 0;
                    tx = Some(ops[b - 1].start_transaction());
                }
                "new" => {
                    let c = idv(&st["c"]);
                    let parents = idvec(&st["ps"]);
                    let tree = if self.want == Want::Paths {
                        Some(random_tree(&mut self.rng, &world, &parents))
                    } else {
                        None
                    };
                    let spec = CommitSpec {
                        id: c,
                        parents,
                        change: digits_of_small_change(idv(&st["chg"])),
                        ts: 1_000_000 + c as i64,
                        tree,
                    };
                    world.write_commit(tx.as_mut().unwrap().repo_mut(), &spec);
                    added += 1;
                }
                "addhead" => {
                    let c = idv(&st["c"]);
                    let commit = world.commit(c).clone();
                    tx.as_mut().unwrap().repo_mut().add_head(&commit).block_on().unwrap();
                }
                "hide" => {
                    let c = idv(&st["c"]);
                    tx.as_mut().unwrap().repo_mut().remove_head(&world.cid(c));
                }
                "commit" | "merge" => {
                    let base = json!({"case": case, "exp_known": st["known"], "exp_levels": st["levels"],
                                      "a": a, "base_levels": base_levels, "added": added});
                    let repo = if a == "commit" {
                        let mut t = tx.take().unwrap();
                        if self.obs_mut {
                            let mut b = base.clone();
                            b["step"] = json!(k + 1);
                            b["mode"] = json!("mut");
                            let mr = t.repo_mut();
                            let mr: &dyn Repo = mr;
                            self.emit_obs(&world, mr, None, b);
                        }
                        t.commit(format!("k{case}-s{k}")).block_on().unwrap()
                    } else {
                        let o1 = ops[idv(&st["o1"]) - 1].operation().clone();
                        let o2 = ops[idv(&st["o2"]) - 1].operation().clone();
                        let loader = ops[0].loader().clone();
                        let (repo, _n) =
                            loader.merge_operations(vec![o1, o2], None, Some("verif merge"), vec![]).block_on().unwrap();
                        repo
                    };
                    n_commits += 1;
                    let repo = if self.cp_mode == 2 && n_commits == self.cp_at {
                        enable_changed_paths(&repo, self.cp_max)
                    } else {
                        repo
                    };
                    self.obs_committed(&world, &repo, &base, k + 1);
                    ops.push(repo);
                }
                other => panic!("unknown step {other}"),
            }
        }
        // whatever operation heads are left: merge them all as `load_at_head` does
        let loader = ops[0].loader().clone();
        let head = loader.load_at_head().block_on().unwrap();
        let head = if self.cp_mode == 3 { enable_changed_paths(&head, self.cp_max) } else { head };
        let base = json!({"case": case, "exp_known": [], "exp_levels": [], "a": "head", "base_levels": [], "added": 0,
                          "step": steps.len() + 1, "mode": "head"});
        self.emit_obs(&world, head.as_ref(), Some(head.as_ref()), base.clone());
        if self.obs_reload {
            let re = world.reload_from_disk(head.operation());
            let mut b = base;
            b["mode"] = json!("head-reload");
            self.emit_obs(&world, re.as_ref(), Some(re.as_ref()), b);
        }
    }
}

fn run_guarded(r: &mut Runner, case: usize, steps: &[Value]) {
    // a panic inside jj is data: log it, the judge reports it
    let res = {
        let rr = std::panic::AssertUnwindSafe(&mut *r);
        catch(move || {
            let rr = rr;
            rr.0.run(case, steps)
        })
    };
    if let Err(msg) = res {
        r.out.emit(&json!({"op":"panic","case":case,"msg":msg,"steps":steps}));
    }
}

fn pick_cp(rng: &mut Rng, want: Want, opts: &Opts, n_commit_steps: usize) -> (usize, usize, u32) {
    if want != Want::Paths {
        return (0, 0, 0);
    }
    let mode = match opts.get("cp") {
        Some("none") => 0,
        Some("start") => 1,
        Some("mid") => 2,
        Some("end") => 3,
        _ => rng.below(4),
    };
    let at = 1 + rng.below(n_commit_steps.max(1));
    // sometimes only part of the history is (re)indexed
    let max = if rng.chance(1, 2) { u32::MAX } else { 1 + rng.below(4) as u32 };
    (mode, at, max)
}

/// `index hist --in <behaviours.json> --out <trace>`: replay TLC-generated behaviours.
pub fn replay(opts: &Opts, want: Want) -> Result<(), String> {
    jjconf::util::quiet_panics();
    let inp = opts.get("in").ok_or("--in required")?;
    let text = std::fs::read_to_string(inp).map_err(|e| format!("{inp}: {e}"))?;
    let behaviours: Vec<Value> = serde_json::from_str(&text).map_err(|e| format!("{inp}: {e}"))?;
    let mut out = Out::create(&opts.str("out", "trace.ndjson"))?;
    let seed = opts.u64("seed", 0);
    for (i, b) in behaviours.iter().enumerate() {
        let steps = b.as_array().ok_or("behaviour must be an array of steps")?;
        let mut rng = Rng::new(seed ^ (i as u64).wrapping_mul(0x9E37));
        let ncs = steps.iter().filter(|s| s["a"] == "commit" || s["a"] == "merge").count();
        let (cp_mode, cp_at, cp_max) = pick_cp(&mut rng, want, opts, ncs);
        let mut r = Runner {
            out: &mut out,
            rng,
            want,
            cp_mode,
            cp_at,
            cp_max,
            obs_mut: want == Want::Graph,
            obs_reload: true,
        };
        run_guarded(&mut r, i + 1, steps);
    }
    out.finish();
    Ok(())
}

/// Random long history: one commit per transaction (deep segment stacks and
/// squashes), occasional concurrent branches that are merged again.
fn long_history(rng: &mut Rng, len: usize, want: Want) -> Vec<Value> {
    let mut steps: Vec<Value> = vec![];
    // model of what each op knows, only to pick valid parents (not an oracle:
    // the judge recomputes everything from `par`)
    let mut par: Vec<Vec<usize>> = vec![vec![]];
    let anc = |par: &Vec<Vec<usize>>, c: usize| -> BTreeSet<usize> {
        let mut s = BTreeSet::new();
        let mut w = vec![c];
        while let Some(x) = w.pop() {
            if s.insert(x) {
                w.extend(par[x].iter().copied());
            }
        }
        s
    };
    let mut op_known: Vec<BTreeSet<usize>> = vec![[0].into_iter().collect()];
    let mut op_heads: Vec<usize> = vec![1];
    let mut n = 0usize;
    let nchg = len / 2 + 1;
    while n < len {
        // mostly extend the newest head; sometimes fork from an older op head
        let merge_now = op_heads.len() >= 2 && rng.chance(1, 3);
        if merge_now {
            let o1 = op_heads[op_heads.len() - 2];
            let o2 = op_heads[op_heads.len() - 1];
            let k: BTreeSet<usize> = op_known[o1 - 1].union(&op_known[o2 - 1]).copied().collect();
            op_known.push(k);
            let new_op = op_known.len();
            op_heads.truncate(op_heads.len() - 2);
            op_heads.push(new_op);
            steps.push(json!({"a":"merge","o1":o1,"o2":o2,"known":[],"levels":[]}));
            continue;
        }
        let base = if op_heads.len() < 3 && op_known.len() > 2 && rng.chance(1, 8) {
            // concurrent operation: start from an older operation
            let b = rng.range(1.max(op_known.len().saturating_sub(6)), op_known.len() - 1);
            b
        } else {
            *op_heads.last().unwrap()
        };
        steps.push(json!({"a":"begin","base":base}));
        let burst = if rng.chance(1, 10) { rng.range(2, 5) } else { 1 };
        let mut known = op_known[base - 1].clone();
        for _ in 0..burst {
            if n >= len {
                break;
            }
            let cands: Vec<usize> = known.iter().copied().collect();
            let np = if rng.chance(1, 12) { 3 } else if rng.chance(1, 4) { 2 } else { 1 };
            let mut ps: Vec<usize> = vec![];
            for _ in 0..np {
                // prefer recent commits so histories get deep
                let p = if rng.chance(2, 3) {
                    cands[cands.len() - 1 - rng.below(cands.len().min(4))]
                } else {
                    *rng.pick(&cands)
                };
                if !ps.contains(&p) {
                    ps.push(p);
                }
            }
            if ps.len() > 1 {
                ps.retain(|&p| p != 0);
            }
            if ps.is_empty() {
                ps.push(0);
            }
            n += 1;
            par.push(ps.clone());
            known.extend(anc(&par, n));
            let chg = if want == Want::Graph && rng.chance(1, 4) { 1 + rng.below(nchg) } else { n };
            steps.push(json!({"a":"new","c":n,"ps":ps,"chg":chg}));
        }
        op_known.push(known);
        let new_op = op_known.len();
        if let Some(i) = op_heads.iter().position(|&h| h == base) {
            op_heads.remove(i);
        }
        op_heads.push(new_op);
        steps.push(json!({"a":"commit","known":[],"levels":[]}));
    }
    steps
}

/// `index long --out <trace> --n <cases> --min 30 --max 60`
pub fn long(opts: &Opts, want: Want) -> Result<(), String> {
    jjconf::util::quiet_panics();
    let mut out = Out::create(&opts.str("out", "trace.ndjson"))?;
    let seed = opts.u64("seed", 0);
    let n = opts.usize("n", 3);
    let (lo, hi) = (opts.usize("min", 30), opts.usize("max", 60));
    for i in 0..n {
        let mut rng = Rng::new(seed.wrapping_mul(1000).wrapping_add(i as u64));
        let len = rng.range(lo, hi);
        let steps = long_history(&mut rng, len, want);
        let ncs = steps.iter().filter(|s| s["a"] == "commit" || s["a"] == "merge").count();
        let (cp_mode, cp_at, cp_max) = pick_cp(&mut rng, want, opts, ncs);
        let mut r = Runner {
            out: &mut out,
            rng,
            want,
            cp_mode,
            cp_at,
            cp_max,
            obs_mut: false,
            obs_reload: false,
        };
        // long histories: observe only every few steps (records are large)
        run_guarded_sparse(&mut r, 100_000 + i, &steps, opts.usize("every", 6));
    }
    out.finish();
    Ok(())
}

fn run_guarded_sparse(r: &mut Runner, case: usize, steps: &[Value], every: usize) {
    let res = {
        let rr = std::panic::AssertUnwindSafe(&mut *r);
        catch(move || {
            let rr = rr;
            run_sparse(rr.0, case, steps, every)
        })
    };
    if let Err(msg) = res {
        r.out.emit(&json!({"op":"panic","case":case,"msg":msg,"steps":steps.len()}));
    }
}

/// Like Runner::run, but observes only every `every`-th committed operation (in
/// memory and after a reload alternately) and always the last one.
fn run_sparse(r: &mut Runner, case: usize, steps: &[Value], every: usize) {
    let mut world = World::new(&format!("L{case}"));
    let mut ops: Vec<Arc<ReadonlyRepo>> = vec![world.initial_repo()];
    if r.cp_mode == 1 {
        ops[0] = enable_changed_paths(&ops[0], u32::MAX);
    }
    let mut tx: Option<Transaction> = None;
    let mut n_commits = 0usize;
    let mut added = 0usize;
    let mut base_levels: Vec<u32> = vec![];
    let total = steps.iter().filter(|s| s["a"] == "commit" || s["a"] == "merge").count();
    for (k, st) in steps.iter().enumerate() {
        let a = st["a"].as_str().unwrap();
        match a {
            "begin" => {
                let b = idv(&st["base"]);
                base_levels = levels(&ops[b - 1]);
                added = 0;
                tx = Some(ops[b - 1].start_transaction());
            }
            "new" => {
                let c = idv(&st["c"]);
                let parents = idvec(&st["ps"]);
                let tree =
                    if r.want == Want::Paths { Some(random_tree(&mut r.rng, &world, &parents)) } else { None };
                let spec = CommitSpec {
                    id: c,
                    parents,
                    change: digits_of_small_change(idv(&st["chg"])),
                    ts: 1_000_000 + c as i64,
                    tree,
                };
                world.write_commit(tx.as_mut().unwrap().repo_mut(), &spec);
                added += 1;
            }
            "commit" | "merge" => {
                let repo = if a == "commit" {
                    tx.take().unwrap().commit(format!("L{case}-s{k}")).block_on().unwrap()
                } else {
                    let o1 = ops[idv(&st["o1"]) - 1].operation().clone();
                    let o2 = ops[idv(&st["o2"]) - 1].operation().clone();
                    let loader = ops[0].loader().clone();
                    loader.merge_operations(vec![o1, o2], None, Some("verif merge"), vec![]).block_on().unwrap().0
                };
                n_commits += 1;
                let repo = if r.cp_mode == 2 && n_commits == r.cp_at {
                    enable_changed_paths(&repo, r.cp_max)
                } else {
                    repo
                };
                if n_commits % every == 0 || n_commits == total || a == "merge" {
                    let base = json!({"case": case, "exp_known": [], "exp_levels": [], "a": a,
                                      "base_levels": base_levels, "added": added, "step": k + 1});
                    let mut b = base.clone();
                    if (n_commits / every) % 2 == 0 {
                        b["mode"] = json!("mem");
                        r.emit_obs(&world, repo.as_ref(), Some(repo.as_ref()), b);
                    } else {
                        let re = world.reload_from_disk(repo.operation());
                        b["mode"] = json!("reload");
                        r.emit_obs(&world, re.as_ref(), Some(re.as_ref()), b);
                    }
                }
                ops.push(repo);
            }
            other => panic!("unknown step {other}"),
        }
    }
    let loader = ops[0].loader().clone();
    let head = loader.load_at_head().block_on().unwrap();
    let head = if r.cp_mode == 3 { enable_changed_paths(&head, r.cp_max) } else { head };
    let re = world.reload_from_disk(head.operation());
    let base = json!({"case": case, "exp_known": [], "exp_levels": [], "a": "head", "base_levels": [], "added": 0,
                      "step": steps.len() + 1, "mode": "head-reload"});
    r.emit_obs(&world, re.as_ref(), Some(re.as_ref()), base);
}
