//! `wc` binary: working-copy group (C23-C27, C29).
//!
//! Replayer / recorder for spec/WorkingCopy.tla, spec/WcMtime.tla and
//! spec/Eol.tla.  It executes actions on a real `LocalWorkingCopy` in a temp
//! dir, projects the real state to the model's vocabulary and logs it.  It
//! decides nothing: TLC (Trace_*.tla) judges every logged record.
use std::process::ExitCode;

use jjconf::util;

#[path = "wc/common.rs"]
mod common;
#[path = "wc/eol.rs"]
mod eol;
#[path = "wc/mtime.rs"]
mod mtime;
#[path = "wc/script.rs"]
mod script;

fn main() -> ExitCode {
    let args: Vec<String> = std::env::args().collect();
    if args.len() < 2 {
        eprintln!("usage: wc <mode> [--key value]...");
        return ExitCode::from(2);
    }
    let opts = util::Opts::parse(&args[2..]);
    // testutils' TestBackend starts a multi-threaded tokio runtime per backend
    // instance (one per workspace load); with the default of one worker per CPU,
    // thread creation dominates the run time of the thousands of tiny cases.
    // SAFETY: single-threaded at this point.
    unsafe {
        std::env::set_var("TOKIO_WORKER_THREADS", "1");
        if std::env::var_os("RAYON_NUM_THREADS").is_none() {
            std::env::set_var("RAYON_NUM_THREADS", "2");
        }
    }
    let r = match args[1].as_str() {
        "mtime-replay" => mtime::replay(&opts),
        "eol" => eol::record(&opts),
        "replay" => script::replay(&opts),
        "random" => script::random(&opts),
        m => Err(format!("wc: unknown mode {m}")),
    };
    match r {
        Ok(()) => ExitCode::SUCCESS,
        Err(e) => {
            eprintln!("wc: {e}");
            ExitCode::from(2)
        }
    }
}
