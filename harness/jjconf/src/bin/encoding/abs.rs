//! Shared vocabulary mapping between the spec's tokens and concrete values.
use jj_lib::content_hash::ContentHash;
use jj_lib::content_hash::DigestUpdate;
use serde_json::Value;
use serde_json::json;

/// String classes of spec/Encoding.tla -> concrete strings.
pub const STRING_CLASSES: &[(&str, &str)] = &[
    ("empty", ""),
    ("ascii", "Some One <not an email>"),
    ("ascii2", "other.value@example.com"),
    ("unicode", "Ünï Çødé 名前 🙂 e\u{301}"),
    ("multiline", "first line\n\nbody line\n  indented\n"),
    ("placeholder", "JJ_EMPTY_STRING"),
    ("notrail", "no trailing newline"),
];

/// Classes used for names/emails in commit signatures (no '<', '>', '\n').
pub const SIG_CLASSES: &[(&str, &str)] = &[
    ("empty", ""),
    ("ascii", "Some One"),
    ("ascii2", "other.value@example.com"),
    ("unicode", "Ünï Çødé 名前 🙂 e\u{301}"),
    ("placeholder", "JJ_EMPTY_STRING"),
];

pub fn class_to_string(table: &[(&str, &str)], class: &str) -> Result<String, String> {
    table
        .iter()
        .find(|(c, _)| *c == class)
        .map(|(_, s)| s.to_string())
        .ok_or_else(|| format!("unknown string class {class}"))
}

/// Exact match against the table, otherwise a visible "?raw:" token that can
/// never equal a class token.
pub fn string_to_class(table: &[(&str, &str)], s: &str) -> String {
    table
        .iter()
        .find(|(_, v)| *v == s)
        .map(|(c, _)| c.to_string())
        .unwrap_or_else(|| format!("?raw:{}", s.escape_debug()))
}

pub fn hex(bytes: &[u8]) -> String {
    bytes.iter().map(|b| format!("{b:02x}")).collect()
}

/// Token "<p>N" (N = 1..9) <-> id bytes: `len` bytes of value base+N.
pub fn token_bytes(tok: &str, prefix: char, base: u8, len: usize) -> Result<Vec<u8>, String> {
    let mut cs = tok.chars();
    let p = cs.next();
    let n: u8 = cs.as_str().parse().map_err(|_| format!("bad token {tok}"))?;
    if p != Some(prefix) || n == 0 || n > 9 {
        return Err(format!("bad token {tok}"));
    }
    Ok(vec![base + n; len])
}

pub fn bytes_token(bytes: &[u8], prefix: char, base: u8, len: usize) -> String {
    if bytes.len() == len && bytes.iter().all(|b| *b == bytes[0]) && bytes[0] > base && bytes[0] <= base + 9 {
        format!("{prefix}{}", bytes[0] - base)
    } else {
        format!("?{}", hex(bytes))
    }
}

/// Collects the exact byte stream a value feeds to its content hash.
#[derive(Default)]
pub struct HashBytes(pub Vec<u8>);

impl DigestUpdate for HashBytes {
    fn update(&mut self, data: &[u8]) {
        self.0.extend_from_slice(data);
    }
}

pub fn content_hash_bytes(x: &impl ContentHash) -> Vec<u8> {
    let mut h = HashBytes::default();
    x.hash(&mut h);
    h.0
}

/// Timestamp <-> [k, s, ms, tz] with ((k * 2^31 + s) * 1000 + ms) ms since epoch.
pub fn ts_to_millis(v: &Value) -> Result<(i64, i32), String> {
    let g = |k: &str| v.get(k).and_then(Value::as_i64).ok_or_else(|| format!("bad ts {v}"));
    let (k, s, ms, tz) = (g("k")?, g("s")?, g("ms")?, g("tz")?);
    Ok((((k << 31) + s) * 1000 + ms, tz as i32))
}

pub fn millis_to_ts(millis: i64, tz: i32) -> Value {
    let sec = millis.div_euclid(1000);
    let ms = millis.rem_euclid(1000);
    let k = sec.div_euclid(1 << 31);
    let s = sec.rem_euclid(1 << 31);
    json!({"k": k, "s": s, "ms": ms, "tz": tz})
}

pub fn arr(v: &Value) -> Result<&Vec<Value>, String> {
    v.as_array().ok_or_else(|| format!("expected array: {v}"))
}

pub fn st(v: &Value) -> Result<&str, String> {
    v.as_str().ok_or_else(|| format!("expected string: {v}"))
}

pub fn field<'a>(v: &'a Value, k: &str) -> Result<&'a Value, String> {
    v.get(k).ok_or_else(|| format!("missing field {k} in {v}"))
}

/// Harness(..): the input case is malformed (tool trouble).  Store(..): the
/// real code under test failed, which is data for the judge.
pub enum Fail {
    Harness(String),
    Store(String),
}

impl From<String> for Fail {
    fn from(s: String) -> Self {
        Self::Harness(s)
    }
}
