//! C16: views and operations through the real `SimpleOpStore`.
//!
//! For every abstract value: concretise, `write_*` through store A, read it
//! back through a FRESH store instance on the same directory, write an equal
//! value (built independently) through a second store in another directory,
//! and log written / read / ids / content-hash bytes.
use std::collections::BTreeMap;
use std::collections::HashSet;
use std::path::Path;

use jj_lib::backend::CommitId;
use jj_lib::backend::MillisSinceEpoch;
use jj_lib::backend::Timestamp;
use jj_lib::content_hash::blake2b_hash;
use jj_lib::merge::Merge;
use jj_lib::object_id::ObjectId as _;
use jj_lib::op_store::OpStore as _;
use jj_lib::op_store::Operation;
use jj_lib::op_store::OperationId;
use jj_lib::op_store::OperationMetadata;
use jj_lib::op_store::RefTarget;
use jj_lib::op_store::RemoteRef;
use jj_lib::op_store::RemoteRefState;
use jj_lib::op_store::RemoteView;
use jj_lib::op_store::RootOperationData;
use jj_lib::op_store::TimestampRange;
use jj_lib::op_store::View;
use jj_lib::op_store::ViewId;
use jj_lib::simple_op_store::SimpleOpStore;
use jjconf::util::Opts;
use jjconf::util::Out;
use jjconf::util::catch;
use jjconf::util::read_ndjson;
use pollster::FutureExt as _;
use serde_json::Map;
use serde_json::Value;
use serde_json::json;

use crate::abs::*;

const NAMES: &[&str] = &["b1", "b2"];
const REMOTES: &[&str] = &["git", "origin"];
const GIT_REFS: &[&str] = &["refs/heads/b1", "refs/tags/b2"];
const WORKSPACES: &[&str] = &["default", "ws2"];
const ATTR_KEYS: &[&str] = &["k1", "k2"];
const COMMITS: &[&str] = &["c1", "c2", "c3"];

fn commit_id(tok: &str) -> Result<CommitId, String> {
    Ok(CommitId::new(token_bytes(tok, 'c', 0x10, 20)?))
}
fn commit_tok(id: &CommitId) -> String {
    bytes_token(id.as_bytes(), 'c', 0x10, 20)
}

// ---- targets -----------------------------------------------------------

/// abstract target (non-empty array, "" = absent term) -> RefTarget
fn target(v: &Value) -> Result<RefTarget, String> {
    let terms: Vec<Option<CommitId>> = arr(v)?
        .iter()
        .map(|t| {
            let s = st(t)?;
            if s.is_empty() { Ok(None) } else { commit_id(s).map(Some) }
        })
        .collect::<Result<_, String>>()?;
    if terms.len() % 2 == 0 {
        return Err(format!("even target {v}"));
    }
    Ok(RefTarget::from_merge(Merge::from_vec(terms)))
}

fn target_abs(t: &RefTarget) -> Value {
    Value::Array(
        t.as_merge()
            .iter()
            .map(|x| json!(x.as_ref().map(commit_tok).unwrap_or_default()))
            .collect(),
    )
}

fn rref(v: &Value) -> Result<Option<RemoteRef>, String> {
    let t = field(v, "t")?;
    if arr(t)?.is_empty() {
        return Ok(None);
    }
    let state = match st(field(v, "s")?)? {
        "new" => RemoteRefState::New,
        "tracked" => RemoteRefState::Tracked,
        s => return Err(format!("bad state {s}")),
    };
    Ok(Some(RemoteRef { target: target(t)?, state }))
}

fn rref_abs(r: Option<&RemoteRef>) -> Value {
    match r {
        None => json!({"t": [], "s": ""}),
        Some(r) => json!({"t": target_abs(&r.target),
                          "s": match r.state { RemoteRefState::New => "new", RemoteRefState::Tracked => "tracked" }}),
    }
}

// ---- views -------------------------------------------------------------

/// `reverse` only changes the order in which collections are filled.
fn view_from_abs(v: &Value, reverse: bool) -> Result<View, String> {
    let order = |xs: &[&'static str]| -> Vec<&'static str> {
        let mut xs = xs.to_vec();
        if reverse {
            xs.reverse();
        }
        xs
    };
    let mut heads: Vec<&Value> = arr(field(v, "heads")?)?.iter().collect();
    if reverse {
        heads.reverse();
    }
    let mut head_ids = HashSet::new();
    for h in heads {
        head_ids.insert(commit_id(st(h)?)?);
    }
    let target_map = |key: &str, names: &[&'static str]| -> Result<Vec<(&'static str, RefTarget)>, String> {
        let m = field(v, key)?;
        let mut out = vec![];
        for n in order(names) {
            let t = field(m, n)?;
            if !arr(t)?.is_empty() {
                out.push((n, target(t)?));
            }
        }
        Ok(out)
    };
    let local_bookmarks = target_map("local", NAMES)?.into_iter().map(|(n, t)| (n.into(), t)).collect();
    let local_tags = target_map("tags", NAMES)?.into_iter().map(|(n, t)| (n.into(), t)).collect();
    let git_refs = target_map("gitRefs", GIT_REFS)?.into_iter().map(|(n, t)| (n.into(), t)).collect();
    let git_heads = target_map("gitHeads", WORKSPACES)?.into_iter().map(|(n, t)| (n.into(), t)).collect();
    let mut remote_views = BTreeMap::new();
    for r in order(REMOTES) {
        let rv = field(field(v, "remotes")?, r)?;
        if field(rv, "present")?.as_bool() != Some(true) {
            continue;
        }
        let mut view = RemoteView::default();
        for n in order(NAMES) {
            if let Some(x) = rref(field(field(rv, "bookmarks")?, n)?)? {
                view.bookmarks.insert(n.into(), x);
            }
            if let Some(x) = rref(field(field(rv, "tags")?, n)?)? {
                view.tags.insert(n.into(), x);
            }
        }
        remote_views.insert(r.into(), view);
    }
    let mut wc_commit_ids = BTreeMap::new();
    for w in order(WORKSPACES) {
        let c = st(field(field(v, "wc")?, w)?)?;
        if !c.is_empty() {
            wc_commit_ids.insert(w.into(), commit_id(c)?);
        }
    }
    Ok(View { head_ids, local_bookmarks, local_tags, remote_views, git_refs, git_heads, wc_commit_ids })
}

/// Projects a real view into the spec's vocabulary; anything outside the
/// key universes is listed in the second component.
fn view_abs(view: &View) -> (Value, Vec<String>) {
    let mut extra = vec![];
    let mut heads: Vec<String> = view.head_ids.iter().map(commit_tok).collect();
    heads.sort();
    let tmap = |what: &str, universe: &[&str], get: &dyn Fn(&str) -> Option<RefTarget>, keys: Vec<String>, extra: &mut Vec<String>| {
        let mut m = Map::new();
        for n in universe {
            m.insert(n.to_string(), get(n).map(|t| target_abs(&t)).unwrap_or(json!([])));
        }
        for k in keys {
            if !universe.contains(&k.as_str()) {
                extra.push(format!("{what}:{k}"));
            }
        }
        Value::Object(m)
    };
    let local = tmap(
        "local",
        NAMES,
        &|n| view.local_bookmarks.iter().find(|(k, _)| k.as_str() == n).map(|(_, t)| t.clone()),
        view.local_bookmarks.keys().map(|k| k.as_str().to_owned()).collect(),
        &mut extra,
    );
    let tags = tmap(
        "tags",
        NAMES,
        &|n| view.local_tags.iter().find(|(k, _)| k.as_str() == n).map(|(_, t)| t.clone()),
        view.local_tags.keys().map(|k| k.as_str().to_owned()).collect(),
        &mut extra,
    );
    let git_refs = tmap(
        "gitRefs",
        GIT_REFS,
        &|n| view.git_refs.iter().find(|(k, _)| k.as_str() == n).map(|(_, t)| t.clone()),
        view.git_refs.keys().map(|k| k.as_str().to_owned()).collect(),
        &mut extra,
    );
    let git_heads = tmap(
        "gitHeads",
        WORKSPACES,
        &|n| view.git_heads.iter().find(|(k, _)| k.as_str() == n).map(|(_, t)| t.clone()),
        view.git_heads.keys().map(|k| k.as_str().to_owned()).collect(),
        &mut extra,
    );
    let mut remotes = Map::new();
    for r in REMOTES {
        let rv = view.remote_views.iter().find(|(k, _)| k.as_str() == *r).map(|(_, v)| v);
        let mut bm = Map::new();
        let mut tg = Map::new();
        for n in NAMES {
            bm.insert(
                n.to_string(),
                rref_abs(rv.and_then(|rv| rv.bookmarks.iter().find(|(k, _)| k.as_str() == *n).map(|(_, x)| x))),
            );
            tg.insert(
                n.to_string(),
                rref_abs(rv.and_then(|rv| rv.tags.iter().find(|(k, _)| k.as_str() == *n).map(|(_, x)| x))),
            );
        }
        if let Some(rv) = rv {
            for k in rv.bookmarks.keys().chain(rv.tags.keys()) {
                if !NAMES.contains(&k.as_str()) {
                    extra.push(format!("remote:{r}:{}", k.as_str()));
                }
            }
        }
        remotes.insert(r.to_string(), json!({"present": rv.is_some(), "bookmarks": bm, "tags": tg}));
    }
    for k in view.remote_views.keys() {
        if !REMOTES.contains(&k.as_str()) {
            extra.push(format!("remote:{}", k.as_str()));
        }
    }
    let mut wc = Map::new();
    for w in WORKSPACES {
        let c = view.wc_commit_ids.iter().find(|(k, _)| k.as_str() == *w).map(|(_, c)| commit_tok(c));
        wc.insert(w.to_string(), json!(c.unwrap_or_default()));
    }
    for k in view.wc_commit_ids.keys() {
        if !WORKSPACES.contains(&k.as_str()) {
            extra.push(format!("wc:{}", k.as_str()));
        }
    }
    (
        json!({"heads": heads, "local": local, "tags": tags, "remotes": remotes,
               "gitRefs": git_refs, "gitHeads": git_heads, "wc": wc}),
        extra,
    )
}

// ---- operations --------------------------------------------------------

fn view_id(tok: &str) -> Result<ViewId, String> {
    Ok(ViewId::new(token_bytes(tok, 'v', 0x20, 64)?))
}
fn op_id(tok: &str) -> Result<OperationId, String> {
    Ok(OperationId::new(token_bytes(tok, 'o', 0x30, 64)?))
}
fn timestamp(v: &Value) -> Result<Timestamp, String> {
    let (ms, tz) = ts_to_millis(v)?;
    Ok(Timestamp { timestamp: MillisSinceEpoch(ms), tz_offset: tz })
}
fn timestamp_abs(t: &Timestamp) -> Value {
    millis_to_ts(t.timestamp.0, t.tz_offset)
}
fn opt_class(v: &Value) -> Result<Option<String>, String> {
    match arr(v)?.as_slice() {
        [] => Ok(None),
        [c] => Ok(Some(class_to_string(STRING_CLASSES, st(c)?)?)),
        _ => Err(format!("bad option {v}")),
    }
}

fn op_from_abs(v: &Value, reverse: bool) -> Result<Operation, String> {
    let meta = field(v, "meta")?;
    let cls = |k: &str| -> Result<String, String> { class_to_string(STRING_CLASSES, st(field(meta, k)?)?) };
    let mut attributes = BTreeMap::new();
    let mut keys = ATTR_KEYS.to_vec();
    if reverse {
        keys.reverse();
    }
    for k in keys {
        if let Some(s) = opt_class(field(field(meta, "attributes")?, k)?)? {
            attributes.insert(k.to_string(), s);
        }
    }
    let preds = arr(field(v, "preds")?)?;
    let commit_predecessors = match preds.as_slice() {
        [] => None,
        [m] => {
            let mut map = BTreeMap::new();
            let mut cs = COMMITS.to_vec();
            if reverse {
                cs.reverse();
            }
            for c in cs {
                match arr(field(m, c)?)?.as_slice() {
                    [] => {}
                    [list] => {
                        let ids = arr(list)?.iter().map(|x| commit_id(st(x)?)).collect::<Result<Vec<_>, _>>()?;
                        map.insert(commit_id(c)?, ids);
                    }
                    _ => return Err(format!("bad preds entry {m}")),
                }
            }
            Some(map)
        }
        _ => return Err("bad preds".into()),
    };
    Ok(Operation {
        view_id: view_id(st(field(v, "view_id")?)?)?,
        parents: arr(field(v, "parents")?)?.iter().map(|p| op_id(st(p)?)).collect::<Result<_, _>>()?,
        metadata: OperationMetadata {
            time: TimestampRange { start: timestamp(field(meta, "start")?)?, end: timestamp(field(meta, "end")?)? },
            description: cls("description")?,
            hostname: cls("hostname")?,
            username: cls("username")?,
            is_snapshot: field(meta, "is_snapshot")?.as_bool().ok_or("bad is_snapshot")?,
            workspace_name: opt_class(field(meta, "workspace_name")?)?.map(Into::into),
            attributes,
        },
        commit_predecessors,
    })
}

fn op_abs(op: &Operation) -> (Value, Vec<String>) {
    let mut extra = vec![];
    let cls = |s: &str| string_to_class(STRING_CLASSES, s);
    let mut attrs = Map::new();
    for k in ATTR_KEYS {
        attrs.insert(
            k.to_string(),
            match op.metadata.attributes.get(*k) {
                None => json!([]),
                Some(s) => json!([cls(s)]),
            },
        );
    }
    for k in op.metadata.attributes.keys() {
        if !ATTR_KEYS.contains(&k.as_str()) {
            extra.push(format!("attr:{k}"));
        }
    }
    let preds = match &op.commit_predecessors {
        None => json!([]),
        Some(map) => {
            let mut m = Map::new();
            for c in COMMITS {
                let e = map.get(&commit_id(c).unwrap());
                m.insert(
                    c.to_string(),
                    match e {
                        None => json!([]),
                        Some(ids) => json!([ids.iter().map(commit_tok).collect::<Vec<_>>()]),
                    },
                );
            }
            for k in map.keys() {
                if !COMMITS.contains(&commit_tok(k).as_str()) {
                    extra.push(format!("pred:{}", k.hex()));
                }
            }
            json!([m])
        }
    };
    let v = json!({
        "view_id": bytes_token(op.view_id.as_bytes(), 'v', 0x20, 64),
        "parents": op.parents.iter().map(|p| bytes_token(p.as_bytes(), 'o', 0x30, 64)).collect::<Vec<_>>(),
        "meta": {
            "start": timestamp_abs(&op.metadata.time.start),
            "end": timestamp_abs(&op.metadata.time.end),
            "description": cls(&op.metadata.description),
            "hostname": cls(&op.metadata.hostname),
            "username": cls(&op.metadata.username),
            "is_snapshot": op.metadata.is_snapshot,
            "workspace_name": match &op.metadata.workspace_name { None => json!([]), Some(w) => json!([cls(w.as_str())]) },
            "attributes": attrs,
        },
        "preds": preds,
    });
    (v, extra)
}

// ---- driver ------------------------------------------------------------

fn root_data() -> RootOperationData {
    RootOperationData { root_commit_id: CommitId::new(vec![0; 20]) }
}

fn one_view(dir_a: &Path, dir_b: &Path, store_a: &SimpleOpStore, store_b: &SimpleOpStore, v: &Value) -> Result<Value, Fail> {
    let view = view_from_abs(v, false)?;
    let (proj, _) = view_abs(&view);
    let id = store_a.write_view(&view).block_on().map_err(|e| Fail::Store(format!("write_view: {e}")))?;
    // fresh store instance on the same directory
    let fresh = SimpleOpStore::load(dir_a, root_data());
    let read = fresh.read_view(&id).block_on().map_err(|e| Fail::Store(format!("read_view: {e}")))?;
    let (read_abs, extra) = view_abs(&read);
    // an equal value built in the opposite order, written to another store
    let view2 = view_from_abs(v, true)?;
    let id2 = store_b.write_view(&view2).block_on().map_err(|e| Fail::Store(format!("write_view(2): {e}")))?;
    let _ = dir_b;
    Ok(json!({
        "op": "view", "written": v, "proj": proj, "read": read_abs, "extra": extra,
        "id": id.hex(), "id2": id2.hex(), "idh": hex(&blake2b_hash(&view)),
        "hash": hex(&content_hash_bytes(&view)),
    }))
}

fn one_op(dir_a: &Path, store_a: &SimpleOpStore, store_b: &SimpleOpStore, v: &Value) -> Result<Value, Fail> {
    let op = op_from_abs(v, false)?;
    let (proj, _) = op_abs(&op);
    let id = store_a.write_operation(&op).block_on().map_err(|e| Fail::Store(format!("write_operation: {e}")))?;
    let fresh = SimpleOpStore::load(dir_a, root_data());
    let read = fresh.read_operation(&id).block_on().map_err(|e| Fail::Store(format!("read_operation: {e}")))?;
    let (read_abs, extra) = op_abs(&read);
    let op2 = op_from_abs(v, true)?;
    let id2 = store_b.write_operation(&op2).block_on().map_err(|e| Fail::Store(format!("write_operation(2): {e}")))?;
    Ok(json!({
        "op": "op", "written": v, "proj": proj, "read": read_abs, "extra": extra,
        "id": id.hex(), "id2": id2.hex(), "idh": hex(&blake2b_hash(&op)),
        "hash": hex(&content_hash_bytes(&op)),
    }))
}

pub fn run(opts: &Opts) -> Result<(), String> {
    let cases = read_ndjson(&opts.str("in", "cases.ndjson"))?;
    let mut out = Out::create(&opts.str("out", "trace.ndjson"))?;
    let tmp = tempfile::Builder::new().prefix("vf-enc-").tempdir().map_err(|e| e.to_string())?;
    let dir_a = tmp.path().join("a");
    let dir_b = tmp.path().join("b");
    std::fs::create_dir_all(&dir_a).map_err(|e| e.to_string())?;
    std::fs::create_dir_all(&dir_b).map_err(|e| e.to_string())?;
    let store_a = SimpleOpStore::init(&dir_a, root_data()).map_err(|e| format!("{e:?}"))?;
    let store_b = SimpleOpStore::init(&dir_b, root_data()).map_err(|e| format!("{e:?}"))?;
    let mut first_by_id: std::collections::HashMap<String, usize> = Default::default();
    for (i, c) in cases.iter().enumerate() {
        let kind = st(field(c, "kind")?)?.to_owned();
        let v = field(c, "v")?.clone();
        let (da, db, sa, sb) = (&dir_a, &dir_b, &store_a, &store_b);
        let r = catch(std::panic::AssertUnwindSafe(|| match kind.as_str() {
            "view" => one_view(da, db, sa, sb, &v),
            "op" => one_op(da, sa, sb, &v),
            k => Err(Fail::Harness(format!("unknown kind {k}"))),
        }));
        let mut rec = match r {
            Ok(Ok(rec)) => rec,
            Ok(Err(Fail::Harness(e))) => return Err(format!("case {i}: {e}")),
            // a failing store call or a panic in jj code is data for the judge
            Ok(Err(Fail::Store(e))) => json!({"op": "error", "kind": kind, "written": v, "msg": e}),
            Err(p) => json!({"op": "panic", "kind": kind, "written": v, "msg": p}),
        };
        // hint for the judge (verified there): first earlier record with the same id
        if let Some(id) = rec.get("id").and_then(Value::as_str).map(str::to_owned) {
            let me = out.n + 1;
            let first = *first_by_id.entry(format!("{kind}:{id}")).or_insert(me);
            rec["dup_of"] = json!(if first == me { 0 } else { first });
        }
        out.emit(&rec);
    }
    out.finish();
    Ok(())
}
