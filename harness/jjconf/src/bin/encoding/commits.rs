//! C17: commits, files, symlinks and trees through the real `Store` with the
//! Git and the Simple backend.
//!
//! Pass 1 writes every abstract value through `Store::write_commit` (store A,
//! the one that caches what the backend returned) and keeps the returned
//! commit; pass 2 loads the repository again (a FRESH store and backend
//! instance, empty caches) and reads every id with `Backend::read_commit`.
use std::collections::HashMap;
use std::sync::Arc;

use jj_lib::backend::ChangeId;
use jj_lib::backend::Commit;
use jj_lib::backend::CommitId;
use jj_lib::backend::CopyId;
use jj_lib::backend::FileId;
use jj_lib::backend::MillisSinceEpoch;
use jj_lib::backend::Signature;
use jj_lib::backend::SymlinkId;
use jj_lib::backend::Timestamp;
use jj_lib::backend::Tree;
use jj_lib::backend::TreeId;
use jj_lib::backend::TreeValue;
use jj_lib::content_hash::blake2b_hash;
use jj_lib::merge::Merge;
use jj_lib::object_id::ObjectId as _;
use jj_lib::repo::Repo as _;
use jj_lib::repo_path::RepoPath;
use jj_lib::repo_path::RepoPathComponentBuf;
use jj_lib::store::Store;
use jjconf::util::Opts;
use jjconf::util::Out;
use jjconf::util::catch;
use jjconf::util::read_ndjson;
use pollster::FutureExt as _;
use serde_json::Value;
use serde_json::json;
use testutils::TestRepo;
use testutils::TestRepoBackend;

use crate::abs::*;

struct Vocab {
    root: CommitId,
    parents: Vec<(&'static str, CommitId)>,
    trees: Vec<(&'static str, TreeId)>,
    change_ids: Vec<(&'static str, ChangeId)>,
}

impl Vocab {
    fn commit(&self, tok: &str) -> Result<CommitId, String> {
        if tok == "root" {
            return Ok(self.root.clone());
        }
        self.parents.iter().find(|(t, _)| *t == tok).map(|(_, id)| id.clone()).ok_or_else(|| format!("bad commit token {tok}"))
    }
    fn commit_tok(&self, id: &CommitId) -> String {
        if *id == self.root {
            return "root".into();
        }
        self.parents.iter().find(|(_, x)| x == id).map(|(t, _)| t.to_string()).unwrap_or_else(|| format!("?{}", id.hex()))
    }
    fn tree(&self, tok: &str) -> Result<TreeId, String> {
        self.trees.iter().find(|(t, _)| *t == tok).map(|(_, id)| id.clone()).ok_or_else(|| format!("bad tree token {tok}"))
    }
    fn tree_tok(&self, id: &TreeId) -> String {
        self.trees.iter().find(|(_, x)| x == id).map(|(t, _)| t.to_string()).unwrap_or_else(|| format!("?{}", id.hex()))
    }
    fn change(&self, tok: &str) -> Result<ChangeId, String> {
        self.change_ids.iter().find(|(t, _)| *t == tok).map(|(_, id)| id.clone()).ok_or_else(|| format!("bad change id token {tok}"))
    }
    fn change_tok(&self, id: &ChangeId) -> String {
        self.change_ids.iter().find(|(_, x)| x == id).map(|(t, _)| t.to_string()).unwrap_or_else(|| format!("?{}", id.hex()))
    }
}

fn sig(v: &Value) -> Result<Signature, String> {
    let (ms, tz) = ts_to_millis(field(v, "ts")?)?;
    Ok(Signature {
        name: class_to_string(SIG_CLASSES, st(field(v, "name")?)?)?,
        email: class_to_string(SIG_CLASSES, st(field(v, "email")?)?)?,
        timestamp: Timestamp { timestamp: MillisSinceEpoch(ms), tz_offset: tz },
    })
}

fn sig_abs(s: &Signature) -> Value {
    json!({"name": string_to_class(SIG_CLASSES, &s.name), "email": string_to_class(SIG_CLASSES, &s.email),
           "ts": millis_to_ts(s.timestamp.timestamp.0, s.timestamp.tz_offset)})
}

fn commit_from_abs(voc: &Vocab, v: &Value) -> Result<Commit, String> {
    let toks = |k: &str| -> Result<Vec<&str>, String> { arr(field(v, k)?)?.iter().map(st).collect() };
    let root_tree: Vec<TreeId> = toks("root_tree")?.into_iter().map(|t| voc.tree(t)).collect::<Result<_, _>>()?;
    let labels: Vec<String> = toks("labels")?.into_iter().map(|c| class_to_string(STRING_CLASSES, c)).collect::<Result<_, _>>()?;
    Ok(Commit {
        parents: toks("parents")?.into_iter().map(|t| voc.commit(t)).collect::<Result<_, _>>()?,
        predecessors: toks("predecessors")?.into_iter().map(|t| voc.commit(t)).collect::<Result<_, _>>()?,
        root_tree: Merge::from_vec(root_tree),
        conflict_labels: if labels.is_empty() { Merge::resolved(String::new()) } else { Merge::from_vec(labels) },
        change_id: voc.change(st(field(v, "change_id")?)?)?,
        description: class_to_string(STRING_CLASSES, st(field(v, "description")?)?)?,
        author: sig(field(v, "author")?)?,
        committer: sig(field(v, "committer")?)?,
        secure_sig: None,
    })
}

fn commit_abs(voc: &Vocab, c: &Commit) -> Value {
    let labels: Vec<String> = if c.conflict_labels.is_resolved() && c.conflict_labels.first().is_empty() {
        vec![]
    } else {
        c.conflict_labels.iter().map(|l| string_to_class(STRING_CLASSES, l)).collect()
    };
    let mut v = json!({
        "parents": c.parents.iter().map(|p| voc.commit_tok(p)).collect::<Vec<_>>(),
        "predecessors": c.predecessors.iter().map(|p| voc.commit_tok(p)).collect::<Vec<_>>(),
        "root_tree": c.root_tree.iter().map(|t| voc.tree_tok(t)).collect::<Vec<_>>(),
        "labels": labels,
        "change_id": voc.change_tok(&c.change_id),
        "description": string_to_class(STRING_CLASSES, &c.description),
        "author": sig_abs(&c.author),
        "committer": sig_abs(&c.committer),
    });
    if c.secure_sig.is_some() {
        v["signed"] = json!(true); // never expected: makes the value differ from any written one
    }
    v
}

// ---- blobs and trees ----------------------------------------------------

fn content_bytes(class: &str) -> Result<Vec<u8>, String> {
    Ok(match class {
        "empty" => vec![],
        "ascii" => b"plain text\n".to_vec(),
        "unicode" => "ünï çødé 漢字 🙂\n".as_bytes().to_vec(),
        "crlf" => b"dos line\r\nlone cr\rend".to_vec(),
        "binary" => vec![0, 255, 254, 10, 0, 13, 10, 128, 192, 0],
        "long" => (0..300u32).map(|i| b'a' + (i % 23) as u8).collect(),
        "path" => b"../up/and/down".to_vec(),
        c => return Err(format!("unknown content class {c}")),
    })
}

fn ints(b: &[u8]) -> Value {
    json!(b.iter().map(|x| *x as u32).collect::<Vec<_>>())
}

struct TreeVocab {
    file: FileId,
    file2: FileId,
    link: SymlinkId,
    sub: TreeId,
}

fn tree_value(tv: &TreeVocab, kind: &str) -> Result<Option<TreeValue>, String> {
    Ok(match kind {
        "none" => None,
        "file" => Some(TreeValue::File { id: tv.file.clone(), executable: false, copy_id: CopyId::placeholder() }),
        "exec" => Some(TreeValue::File { id: tv.file2.clone(), executable: true, copy_id: CopyId::placeholder() }),
        "symlink" => Some(TreeValue::Symlink(tv.link.clone())),
        "tree" => Some(TreeValue::Tree(tv.sub.clone())),
        k => return Err(format!("unknown entry kind {k}")),
    })
}

fn tree_value_abs(tv: &TreeVocab, v: &TreeValue) -> String {
    match v {
        TreeValue::File { id, executable: false, copy_id } if *id == tv.file && copy_id.as_bytes().is_empty() => "file".into(),
        TreeValue::File { id, executable: true, copy_id } if *id == tv.file2 && copy_id.as_bytes().is_empty() => "exec".into(),
        TreeValue::Symlink(id) if *id == tv.link => "symlink".into(),
        TreeValue::Tree(id) if *id == tv.sub => "tree".into(),
        other => format!("?{other:?}"),
    }
}

const ENTRY_NAMES: &[(&str, &str)] = &[("e_a", "a"), ("e_b", "b.txt"), ("e_u", "ünï 名")];

fn tree_abs(tv: &TreeVocab, t: &Tree) -> Value {
    let mut m = serde_json::Map::new();
    let mut extra = vec![];
    for (slot, _) in ENTRY_NAMES {
        m.insert(slot.to_string(), json!("none"));
    }
    for e in t.entries() {
        let name = e.name().as_internal_str();
        match ENTRY_NAMES.iter().find(|(_, n)| *n == name) {
            Some((slot, _)) => {
                m.insert(slot.to_string(), json!(tree_value_abs(tv, e.value())));
            }
            None => extra.push(name.to_owned()),
        }
    }
    m.insert("extra".into(), json!(extra));
    Value::Object(m)
}

// ---- driver ---------------------------------------------------------------

fn base_sig() -> Signature {
    Signature { name: "Base".into(), email: "base@example.com".into(), timestamp: Timestamp { timestamp: MillisSinceEpoch(86_400_000), tz_offset: 60 } }
}

fn setup(store: &Arc<Store>, git: bool) -> Result<(Vocab, TreeVocab), String> {
    let p = |s: &'static str| RepoPath::from_internal_string(s).unwrap();
    let mut b = testutils::TestTreeBuilder::new(store.clone());
    b.file(p("f"), "one\n");
    let t1 = b.write_single_tree();
    let mut b = testutils::TestTreeBuilder::new(store.clone());
    b.file(p("f"), "two\n");
    b.symlink(p("l"), "f");
    let t2 = b.write_single_tree();
    let mut b = testutils::TestTreeBuilder::new(store.clone());
    b.file(p("dir/x"), "x\n").executable(true);
    let t3 = b.write_single_tree();
    let trees = vec![("t0", store.empty_tree_id().clone()), ("t1", t1.id().clone()), ("t2", t2.id().clone()), ("t3", t3.id().clone())];
    let change_ids = vec![
        ("cid16a", ChangeId::new((1..=16).collect())),
        ("cid16b", ChangeId::new((0..16).map(|i| 0xf0 + i).collect())),
        ("cid1", ChangeId::new(vec![0x7f])),
        ("cid32", ChangeId::new((100..132).collect())),
    ];
    let mut parents = vec![];
    for (i, tok) in ["p1", "p2"].into_iter().enumerate() {
        let c = Commit {
            parents: vec![store.root_commit_id().clone()],
            predecessors: vec![],
            root_tree: Merge::resolved(trees[i].1.clone()),
            conflict_labels: Merge::resolved(String::new()),
            change_id: ChangeId::new(vec![0xa0 + i as u8; 16]),
            description: format!("parent {tok}\n"),
            author: base_sig(),
            committer: base_sig(),
            secure_sig: None,
        };
        let w = store.write_commit(c, None).block_on().map_err(|e| format!("setup write_commit: {e}"))?;
        parents.push((tok, w.id().clone()));
    }
    let _ = git;
    let file = testutils::write_file(store, p("x"), "entry file\n");
    let file2 = testutils::write_file(store, p("x"), "#!/bin/sh\n");
    let link = store.write_symlink(p("x"), "target/of/link").block_on().map_err(|e| e.to_string())?;
    let voc = Vocab { root: store.root_commit_id().clone(), parents, trees, change_ids };
    let tv = TreeVocab { file, file2, link, sub: t1.id().clone() };
    Ok((voc, tv))
}

struct Pending {
    case: Value,
    body: Value,              // everything known after pass 1
    id: Option<CommitId>,     // what pass 2 has to read
    blob: Option<(String, Vec<u8>)>, // (kind, id bytes) for file/symlink/tree reads
}

fn run_backend(name: &str, backend: TestRepoBackend, cases: &[Value], out: &mut Out) -> Result<(), String> {
    let test_repo = TestRepo::init_with_backend(backend);
    let store = test_repo.repo.store().clone();
    let (voc, tv) = setup(&store, name == "git")?;
    let x = RepoPath::from_internal_string("x").unwrap();
    let mut pend: Vec<Pending> = vec![];
    for (i, c) in cases.iter().enumerate() {
        let kind = st(field(c, "kind")?)?;
        let v = field(c, "v")?;
        match kind {
            "commit" => {
                let commit = commit_from_abs(&voc, v).map_err(|e| format!("case {i}: {e}"))?;
                let proj = commit_abs(&voc, &commit);
                let simple_idh = (name == "simple").then(|| hex(&blake2b_hash(&commit)));
                let hash = hex(&content_hash_bytes(&commit));
                let st2 = store.clone();
                let c2 = commit.clone();
                let r = catch(std::panic::AssertUnwindSafe(move || {
                    let w1 = st2.write_commit(c2.clone(), None).block_on().map_err(|e| format!("write_commit: {e}"))?;
                    let cached = st2.get_commit(w1.id()).map_err(|e| format!("get_commit: {e}"))?;
                    let w2 = st2.write_commit(c2, None).block_on().map_err(|e| format!("write_commit(2): {e}"))?;
                    Ok::<_, String>((w1, cached, w2))
                }));
                match r {
                    Ok(Ok((w1, cached, w2))) => pend.push(Pending {
                        case: c.clone(),
                        body: json!({"op": "commit", "backend": name, "written": v, "proj": proj,
                            "returned": commit_abs(&voc, w1.store_commit()),
                            "cached": commit_abs(&voc, cached.store_commit()),
                            "returned2": commit_abs(&voc, w2.store_commit()),
                            "id": w1.id().hex(), "id2": w2.id().hex(),
                            "idh": simple_idh.unwrap_or_else(|| w1.id().hex()), "hash": hash}),
                        id: Some(w1.id().clone()),
                        blob: None,
                    }),
                    Ok(Err(e)) => pend.push(Pending { case: c.clone(), body: json!({"op": "error", "backend": name, "kind": kind, "written": v, "msg": e}), id: None, blob: None }),
                    Err(p) => pend.push(Pending { case: c.clone(), body: json!({"op": "panic", "backend": name, "kind": kind, "written": v, "msg": p}), id: None, blob: None }),
                }
            }
            "blob" => {
                let typ = st(field(v, "typ")?)?;
                let bytes = content_bytes(st(field(v, "content")?)?)?;
                let idb = match typ {
                    "file" => store.write_file(x, &mut &bytes[..]).block_on().map(|id| id.to_bytes()).map_err(|e| e.to_string()),
                    "symlink" => {
                        let s = String::from_utf8(bytes.clone()).map_err(|_| format!("case {i}: symlink content must be utf-8"))?;
                        store.write_symlink(x, &s).block_on().map(|id| id.to_bytes()).map_err(|e| e.to_string())
                    }
                    t => return Err(format!("case {i}: unknown blob type {t}")),
                };
                match idb {
                    Ok(idb) => pend.push(Pending {
                        case: c.clone(),
                        body: json!({"op": "blob", "backend": name, "written": v, "typ": typ, "wbytes": ints(&bytes), "id": format!("{typ}:{}", hex(&idb))}),
                        id: None,
                        blob: Some((typ.to_owned(), idb)),
                    }),
                    Err(e) => pend.push(Pending { case: c.clone(), body: json!({"op": "error", "backend": name, "kind": kind, "written": v, "msg": e}), id: None, blob: None }),
                }
            }
            "tree" => {
                let mut entries = vec![];
                for (slot, fname) in ENTRY_NAMES {
                    if let Some(val) = tree_value(&tv, st(field(v, slot)?)?)? {
                        entries.push((RepoPathComponentBuf::new(*fname).map_err(|e| format!("{e:?}"))?, val));
                    }
                }
                entries.sort_by(|a, b| a.0.cmp(&b.0));
                let tree = Tree::from_sorted_entries(entries);
                let proj = tree_abs(&tv, &tree);
                match store.write_tree(RepoPath::root(), tree).block_on() {
                    Ok(t) => pend.push(Pending {
                        case: c.clone(),
                        body: json!({"op": "tree", "backend": name, "written": v, "proj": proj, "id": format!("tree:{}", t.id().hex())}),
                        id: None,
                        blob: Some(("tree".into(), t.id().to_bytes())),
                    }),
                    Err(e) => pend.push(Pending { case: c.clone(), body: json!({"op": "error", "backend": name, "kind": kind, "written": v, "msg": e.to_string()}), id: None, blob: None }),
                }
            }
            k => return Err(format!("case {i}: unknown kind {k}")),
        }
    }
    // pass 2: a fresh store (new backend instance, empty caches)
    drop(store);
    let settings = testutils::user_settings();
    let fresh_repo = test_repo.env.load_repo_at_head(&settings, test_repo.repo_path());
    let fresh = fresh_repo.store().clone();
    let mut first_by_id: HashMap<String, usize> = HashMap::new();
    for p in pend {
        let mut body = p.body;
        let _ = p.case;
        if let Some(id) = &p.id {
            let f2 = fresh.clone();
            let id2 = id.clone();
            match catch(std::panic::AssertUnwindSafe(move || f2.backend().read_commit(&id2).block_on())) {
                Ok(Ok(c)) => body["read"] = commit_abs(&voc, &c),
                Ok(Err(e)) => body = json!({"op": "error", "backend": name, "kind": "commit", "written": body["written"], "msg": format!("read_commit: {e}")}),
                Err(pn) => body = json!({"op": "panic", "backend": name, "kind": "commit", "written": body["written"], "msg": pn}),
            }
        }
        if let Some((typ, idb)) = &p.blob {
            let f2 = fresh.clone();
            let (typ2, idb2) = (typ.clone(), idb.clone());
            let tvr = &tv;
            let r = catch(std::panic::AssertUnwindSafe(move || -> Result<Value, String> {
                Ok(match typ2.as_str() {
                    "file" => ints(&testutils::read_file(&f2, x, &FileId::new(idb2))),
                    "symlink" => ints(f2.read_symlink(x, &SymlinkId::new(idb2)).block_on().map_err(|e| e.to_string())?.as_bytes()),
                    _ => tree_abs(tvr, &f2.backend().read_tree(RepoPath::root(), &TreeId::new(idb2)).block_on().map_err(|e| e.to_string())?),
                })
            }));
            match r {
                Ok(Ok(v)) => body["read"] = v,
                Ok(Err(e)) => body = json!({"op": "error", "backend": name, "kind": typ, "written": body["written"], "msg": format!("read: {e}")}),
                Err(pn) => body = json!({"op": "panic", "backend": name, "kind": typ, "written": body["written"], "msg": pn}),
            }
        }
        // hint for the judge (verified there): first earlier record of this
        // output file with the same id
        if let Some(id) = body.get("id").and_then(Value::as_str).map(str::to_owned) {
            let key = format!("{name}:{id}");
            let me = out.n + 1;
            let first = *first_by_id.entry(key).or_insert(me);
            body["dup_of"] = json!(if first == me { 0 } else { first });
        }
        out.emit(&body);
    }
    Ok(())
}

pub fn run(opts: &Opts) -> Result<(), String> {
    let cases = read_ndjson(&opts.str("in", "cases.ndjson"))?;
    let backend = opts.str("backend", "git");
    let mut out = Out::create(&opts.str("out", "trace.ndjson"))?;
    match backend.as_str() {
        "git" => run_backend("git", TestRepoBackend::Git, &cases, &mut out)?,
        "simple" => run_backend("simple", TestRepoBackend::Simple, &cases, &mut out)?,
        b => return Err(format!("unknown backend {b}")),
    }
    out.finish();
    Ok(())
}
