//! C43: replays TLC-generated action sequences (MC_SecureConfig) on real
//! directories with the real `SecureConfig::load_config` and logs, after
//! every action, the projected state of the directories and the result of the
//! load.  Trace_SecureConfig re-executes the actions on the model and judges.
use std::fs;
use std::path::Path;
use std::path::PathBuf;

use jj_lib::secure_config::SecureConfig;
use jj_lib::secure_config::metadata_path;
use jj_lib::secure_config::read_metadata;
use jjconf::util::Opts;
use jjconf::util::Out;
use jjconf::util::catch;
use jjconf::util::read_ndjson;
use rand::SeedableRng as _;
use rand_chacha::ChaCha20Rng;
use serde_json::Map;
use serde_json::Value;
use serde_json::json;

use crate::abs::arr;
use crate::abs::field;
use crate::abs::st;

const IX_HEX: &str = "abcdefabcdefabcdef12";
/// ill-formed config-id contents; "dotdot" has the right length (20) and stays
/// inside the sandbox when joined to the (deeply nested) config root
const BAD_IDS: &[(&str, &str)] = &[
    ("dotdot", "../../../../../../xx"),
    ("short", "abcdef"),
    ("nonhex", "zzzzzzzzzzzzzzzzzzzz"),
    ("newline", "0123456789abcdef0123\n"),
];
const CONTENTS: &[(&str, &str)] = &[("A", "a = 1\n"), ("B", "b = 2\n")];

struct World {
    root: PathBuf,
    repos_dir: PathBuf,
    cfg_root: PathBuf,
    repo_names: Vec<String>,
    id_names: Vec<String>,
    /// (abstract id, real hex id), in order of first appearance
    bound: Vec<(String, String)>,
    generated: usize,
}

fn is_hex_id(s: &str) -> bool {
    s.len() == 20 && s.chars().all(|c| c.is_ascii_hexdigit())
}

impl World {
    fn new(root: PathBuf, repo_names: Vec<String>, id_names: Vec<String>) -> Result<Self, String> {
        let repos_dir = root.join("repos");
        let cfg_root = root.join("a/b/c/d/e/f/cfg");
        fs::create_dir_all(&repos_dir).map_err(|e| e.to_string())?;
        fs::create_dir_all(&cfg_root).map_err(|e| e.to_string())?;
        Ok(Self { root, repos_dir, cfg_root, repo_names, id_names, bound: vec![("ix".into(), IX_HEX.into())], generated: 0 })
    }
    fn repo(&self, r: &str) -> PathBuf {
        self.repos_dir.join(r)
    }
    fn hex_of(&self, abs: &str) -> Option<&str> {
        self.bound.iter().find(|(a, _)| a == abs).map(|(_, h)| h.as_str())
    }
    /// abstract name of a real id; a hex id seen for the first time is the next generated one
    fn abs_of(&mut self, hex: &str) -> String {
        if let Some((a, _)) = self.bound.iter().find(|(_, h)| h == hex) {
            return a.clone();
        }
        self.generated += 1;
        let a = format!("i{}", self.generated);
        self.bound.push((a.clone(), hex.to_owned()));
        a
    }
    /// The model refers to an id the real code never generated (the real code has
    /// already diverged from the model at an earlier step, which the judge reports):
    /// keep replaying with a synthetic id so that the log stays complete.
    fn hex_or_synthetic(&mut self, abs: &str) -> String {
        if let Some(h) = self.hex_of(abs) {
            return h.to_owned();
        }
        let hex = format!("{:020x}", 0xdead_0000u64 + self.bound.len() as u64);
        self.bound.push((abs.to_owned(), hex.clone()));
        hex
    }
    fn repo_name_of(&self, p: &Path) -> String {
        match p.strip_prefix(&self.repos_dir) {
            Ok(rest) if rest.components().count() == 1 => rest.to_string_lossy().into_owned(),
            _ => format!("?{}", p.display()),
        }
    }

    fn classify_idf(&mut self, content: &str) -> String {
        if let Some((name, _)) = BAD_IDS.iter().find(|(_, c)| *c == content) {
            return name.to_string();
        }
        if is_hex_id(content) {
            return self.abs_of(content);
        }
        format!("?{}", content.escape_debug())
    }

    fn project(&mut self, res: Value) -> Value {
        // bind new ids in a deterministic order: config dirs first (sorted)
        let mut dirs: Vec<String> = fs::read_dir(&self.cfg_root)
            .map(|it| it.filter_map(|e| e.ok()).map(|e| e.file_name().to_string_lossy().into_owned()).collect())
            .unwrap_or_default();
        dirs.sort();
        let mut escaped = vec![];
        for d in &dirs {
            if is_hex_id(d) {
                self.abs_of(d);
            } else {
                escaped.push(format!("cfg/{d}"));
            }
        }
        let mut repos = Map::new();
        for r in self.repo_names.clone() {
            let p = self.repo(&r);
            let v = match fs::symlink_metadata(&p) {
                Ok(m) if m.file_type().is_symlink() => {
                    let target = fs::read_link(&p).map(|t| self.repo_name_of(&t)).unwrap_or_else(|e| format!("?{e}"));
                    json!({"exists": true, "link": target, "idf": "none"})
                }
                Ok(m) if m.is_dir() => {
                    let idf = match fs::read_to_string(p.join("config-id")) {
                        Ok(c) => self.classify_idf(&c),
                        Err(e) if e.kind() == std::io::ErrorKind::NotFound => "none".to_string(),
                        Err(e) => format!("?{e}"),
                    };
                    for e in fs::read_dir(&p).into_iter().flatten().flatten() {
                        let n = e.file_name().to_string_lossy().into_owned();
                        if n != "config-id" {
                            escaped.push(format!("repos/{r}/{n}"));
                        }
                    }
                    json!({"exists": true, "link": "", "idf": idf})
                }
                _ => json!({"exists": false, "link": "", "idf": "none"}),
            };
            repos.insert(r, v);
        }
        let mut cfg = Map::new();
        for i in self.id_names.clone() {
            let none = json!({"exists": false, "meta": "", "content": "nofile"});
            let v = match self.hex_of(&i).map(|h| self.cfg_root.join(h)) {
                Some(dir) if dir.is_dir() => match read_metadata(&dir) {
                    Ok(md) => {
                        let meta = match metadata_path(&md) {
                            Ok(Some(p)) => self.repo_name_of(p),
                            Ok(None) => "".to_string(),
                            Err(e) => format!("?{e}"),
                        };
                        let content = match fs::read_to_string(dir.join("config.toml")) {
                            Ok(c) => CONTENTS.iter().find(|(_, t)| *t == c).map(|(n, _)| n.to_string()).unwrap_or_else(|| format!("?{}", c.escape_debug())),
                            Err(e) if e.kind() == std::io::ErrorKind::NotFound => "nofile".to_string(),
                            Err(e) => format!("?{e}"),
                        };
                        for e in fs::read_dir(&dir).into_iter().flatten().flatten() {
                            let n = e.file_name().to_string_lossy().into_owned();
                            if n != "config.toml" && n != "metadata.binpb" {
                                escaped.push(format!("cfg/{i}/{n}"));
                            }
                        }
                        json!({"exists": true, "meta": meta, "content": content})
                    }
                    Err(_) => none,
                },
                _ => none,
            };
            cfg.insert(i, v);
        }
        // nothing may appear anywhere else in the sandbox
        let mut stack = vec![self.root.clone()];
        while let Some(d) = stack.pop() {
            for e in fs::read_dir(&d).into_iter().flatten().flatten() {
                let p = e.path();
                if p == self.repos_dir || p == self.cfg_root {
                    continue;
                }
                if self.cfg_root.starts_with(&p) {
                    stack.push(p);
                } else {
                    escaped.push(p.strip_prefix(&self.root).unwrap_or(&p).display().to_string());
                }
            }
        }
        for (a, _) in &self.bound {
            if !self.id_names.contains(a) {
                escaped.push(format!("unexpected-id:{a}"));
            }
        }
        escaped.sort();
        json!({"repos": repos, "cfg": cfg, "res": res, "escaped": escaped})
    }
}

fn copy_dir(src: &Path, dst: &Path) -> std::io::Result<()> {
    fs::create_dir(dst)?;
    for e in fs::read_dir(src)? {
        let e = e?;
        let to = dst.join(e.file_name());
        if e.file_type()?.is_dir() {
            copy_dir(&e.path(), &to)?;
        } else {
            fs::copy(e.path(), to)?;
        }
    }
    Ok(())
}

fn step(w: &mut World, rng: &mut ChaCha20Rng, s: &Value) -> Result<Value, String> {
    let a = st(field(s, "a")?)?;
    let r = st(field(s, "r")?)?;
    let d = st(field(s, "d")?)?;
    let x = st(field(s, "s")?)?;
    let io = |e: std::io::Error| format!("{a} {r} {d}: {e}");
    let quiet = json!({"ok": true, "id": ""});
    match a {
        "Create" => fs::create_dir(w.repo(r)).map_err(io)?,
        "Copy" => copy_dir(&w.repo(r), &w.repo(d)).map_err(io)?,
        "Move" => fs::rename(w.repo(r), w.repo(d)).map_err(io)?,
        "Delete" => {
            let p = w.repo(r);
            if fs::symlink_metadata(&p).map_err(io)?.file_type().is_symlink() {
                fs::remove_file(&p).map_err(io)?
            } else {
                fs::remove_dir_all(&p).map_err(io)?
            }
        }
        "Alias" => std::os::unix::fs::symlink(w.repo(r), w.repo(d)).map_err(io)?,
        "WriteId" => {
            let content = match BAD_IDS.iter().find(|(n, _)| *n == x) {
                Some((_, c)) => c.to_string(),
                None => w.hex_or_synthetic(x),
            };
            fs::write(w.repo(r).join("config-id"), content).map_err(io)?
        }
        "Edit" => {
            let hex = w.hex_or_synthetic(d);
            let text = CONTENTS.iter().find(|(n, _)| *n == x).ok_or("Edit: unknown content")?.1;
            // if the real code never created this config dir the write fails; the
            // observation then differs from the model, which is what the judge reports
            let _ = fs::write(w.cfg_root.join(hex).join("config.toml"), text);
        }
        "Load" => {
            // a new SecureConfig per load: a new jj process (no cache)
            let sc = SecureConfig::new_repo(w.repo(r));
            let root = w.cfg_root.clone();
            let res = catch(std::panic::AssertUnwindSafe(|| sc.load_config(rng, &root)));
            let res = match res {
                Ok(Ok(loaded)) => match loaded.config_file {
                    Some(p) => {
                        // must be exactly <root>/<20 hex>/config.toml
                        let id = match p.strip_prefix(&w.cfg_root) {
                            Ok(rest) => {
                                let comps: Vec<String> = rest.components().map(|c| c.as_os_str().to_string_lossy().into_owned()).collect();
                                if comps.len() == 2 && comps[1] == "config.toml" && is_hex_id(&comps[0]) {
                                    w.abs_of(&comps[0])
                                } else {
                                    format!("BADPATH:{}", p.display())
                                }
                            }
                            Err(_) => format!("BADPATH:{}", p.display()),
                        };
                        json!({"ok": true, "id": id})
                    }
                    None => json!({"ok": true, "id": "NOPATH"}),
                },
                Ok(Err(_)) => json!({"ok": false, "id": ""}),
                Err(p) => json!({"ok": false, "id": format!("PANIC:{p}")}),
            };
            return Ok(res);
        }
        other => return Err(format!("unknown action {other}")),
    }
    Ok(quiet)
}

pub fn run(opts: &Opts) -> Result<(), String> {
    let behaviours = read_ndjson(&opts.str("in", "behaviours.ndjson"))?;
    let mut out = Out::create(&opts.str("out", "trace.ndjson"))?;
    let seed = opts.u64("seed", 0);
    let repo_names: Vec<String> = opts.str("repos", "r1,r2,r3").split(',').map(str::to_owned).collect();
    let id_names: Vec<String> = opts.str("ids", "i1,i2,i3,i4,i5,ix").split(',').map(str::to_owned).collect();
    let tmp = tempfile::Builder::new().prefix("vf-sec-").tempdir().map_err(|e| e.to_string())?;
    for (bi, b) in behaviours.iter().enumerate() {
        let root = tmp.path().join(format!("b{bi}"));
        let mut w = World::new(root.clone(), repo_names.clone(), id_names.clone())?;
        let mut rng = ChaCha20Rng::seed_from_u64(seed.wrapping_mul(1_000_003).wrapping_add(bi as u64));
        out.emit(&json!({"op": "reset", "b": bi}));
        for s in arr(field(b, "steps")?)? {
            let res = step(&mut w, &mut rng, s).map_err(|e| format!("behaviour {bi}: {e}"))?;
            let obs = w.project(res);
            out.emit(&json!({"op": "step", "b": bi, "a": s["a"], "r": s["r"], "d": s["d"], "s": s["s"], "obs": obs}));
        }
        let _ = fs::remove_dir_all(&root);
    }
    out.finish();
    Ok(())
}
