use jjconf::util::Opts;
pub fn run(_opts: &Opts) -> Result<(), String> {
    Err("not built yet".into())
}
