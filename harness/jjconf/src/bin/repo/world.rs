//! Shared by the I->S driver and the S->I replayer: a TestRepo plus the
//! bijection between real objects (commit ids, change ids, operation ids) and
//! the model's small integers, and the projection of real views to the model's
//! vocabulary.  Nothing here decides anything: it executes, names and projects.
use std::collections::BTreeMap;
use std::collections::HashMap;
use std::sync::Arc;

use jj_lib::backend::ChangeId;
use jj_lib::backend::CommitId;
use jj_lib::backend::CopyId;
use jj_lib::backend::TreeValue;
use jj_lib::commit::Commit;
use jj_lib::merge::Merge;
use jj_lib::merged_tree::MergedTree;
use jj_lib::merged_tree_builder::MergedTreeBuilder;
use jj_lib::op_store::OperationId;
use jj_lib::op_store::RefTarget;
use jj_lib::ref_name::RefName;
use jj_lib::ref_name::WorkspaceName;
use jj_lib::repo::MutableRepo;
use jj_lib::repo::ReadonlyRepo;
use jj_lib::repo::Repo;
use jj_lib::rewrite::merge_commit_trees;
use jj_lib::view::View;
use pollster::FutureExt as _;
use serde_json::Value;
use serde_json::json;
use testutils::TestRepo;
use testutils::repo_path_buf;

pub const BOOKMARKS: [&str; 2] = ["b1", "b2"];
pub const WORKSPACES: [&str; 2] = ["w1", "w2"];

pub struct World {
    pub test_repo: TestRepo,
    /// commits[i] is model commit i+1 (the root commit is model commit 1)
    pub commits: Vec<Commit>,
    pub ids: HashMap<CommitId, usize>,
    pub changes: HashMap<ChangeId, usize>,
    pub ops: HashMap<OperationId, usize>,
    /// model op id -> model ids of its parent operations
    pub op_parents: HashMap<usize, Vec<usize>>,
    /// how many commits have been written to the trace so far
    pub reported: usize,
    pub next_desc: usize,
    pub next_file: usize,
}

impl World {
    pub fn new() -> Self {
        let test_repo = TestRepo::init();
        let root = test_repo.repo.store().root_commit();
        let mut w = Self {
            test_repo,
            commits: vec![],
            ids: HashMap::new(),
            changes: HashMap::new(),
            ops: HashMap::new(),
            op_parents: HashMap::new(),
            reported: 1,
            next_desc: 1,
            next_file: 1,
        };
        w.ids.insert(root.id().clone(), 1);
        w.changes.insert(root.change_id().clone(), 0);
        w.commits.push(root);
        w.ops.insert(w.test_repo.repo.op_id().clone(), 1);
        w.op_parents.insert(1, vec![]);
        w
    }

    pub fn repo0(&self) -> Arc<ReadonlyRepo> {
        self.test_repo.repo.clone()
    }

    pub fn commit(&self, id: usize) -> &Commit {
        &self.commits[id - 1]
    }

    pub fn cid(&self, id: usize) -> CommitId {
        self.commits[id - 1].id().clone()
    }

    pub fn fresh_desc(&mut self) -> String {
        let d = format!("d{}", self.next_desc);
        self.next_desc += 1;
        d
    }

    /// model id of a real commit, learning it (and its unknown ancestors,
    /// parents first) if needed
    pub fn id_of(&mut self, repo: &dyn Repo, cid: &CommitId) -> usize {
        if let Some(&i) = self.ids.get(cid) {
            return i;
        }
        let mut stack = vec![(repo.store().get_commit(cid).unwrap(), false)];
        while let Some((c, expanded)) = stack.pop() {
            if self.ids.contains_key(c.id()) {
                continue;
            }
            if expanded {
                let n = self.commits.len() + 1;
                self.ids.insert(c.id().clone(), n);
                let k = self.changes.len();
                self.changes.entry(c.change_id().clone()).or_insert(k);
                self.commits.push(c);
            } else {
                let parents: Vec<Commit> = c
                    .parent_ids()
                    .iter()
                    .filter(|p| !self.ids.contains_key(*p))
                    .map(|p| repo.store().get_commit(p).unwrap())
                    .collect();
                stack.push((c, true));
                for p in parents.into_iter().rev() {
                    stack.push((p, false));
                }
            }
        }
        self.ids[cid]
    }

    pub fn learn_view(&mut self, repo: &dyn Repo) {
        let mut all: Vec<CommitId> = repo.view().heads().iter().cloned().collect();
        all.sort();
        for (_, t) in repo.view().local_bookmarks() {
            all.extend(t.as_merge().iter().flatten().cloned());
        }
        all.extend(repo.view().wc_commit_ids().values().cloned());
        for c in all {
            self.id_of(repo, &c);
        }
    }

    fn desc_token(c: &Commit) -> i64 {
        let d = c.description();
        if d.is_empty() {
            0
        } else {
            d.trim_start_matches('d').parse::<i64>().unwrap_or(-1)
        }
    }

    /// `[id, [parents], change, description token, empty]` for every commit
    /// learnt since the last call
    pub fn drain_new(&mut self, repo: &dyn Repo) -> Vec<Value> {
        let mut out = vec![];
        for i in self.reported..self.commits.len() {
            let c = &self.commits[i];
            let parents: Vec<usize> = c.parent_ids().iter().map(|p| self.ids[p]).collect();
            let emp = if i == 0 { true } else { c.is_empty(repo).block_on().unwrap() };
            out.push(json!([i + 1, parents, self.changes[c.change_id()], Self::desc_token(c), emp]));
        }
        self.reported = self.commits.len();
        out
    }

    pub fn target_to_model(&mut self, repo: &dyn Repo, t: &RefTarget) -> Vec<usize> {
        t.as_merge()
            .iter()
            .map(|v| match v {
                None => 0,
                Some(id) => self.id_of(repo, id),
            })
            .collect()
    }

    pub fn target_from_model(&self, t: &[usize]) -> RefTarget {
        RefTarget::from_merge(Merge::from_vec(
            t.iter()
                .map(|&v| if v == 0 { None } else { Some(self.cid(v)) })
                .collect::<Vec<_>>(),
        ))
    }

    /// the model's view of a real view (commits must have been learnt)
    pub fn view(&mut self, repo: &dyn Repo) -> Value {
        self.learn_view(repo);
        let v: &View = repo.view();
        let mut heads: Vec<usize> = v.heads().iter().map(|h| self.ids[h]).collect();
        heads.sort();
        let bm: Vec<Vec<usize>> = BOOKMARKS
            .iter()
            .map(|n| {
                let t = v.get_local_bookmark(RefName::new(n)).clone();
                self.target_to_model(repo, &t)
            })
            .collect();
        let wc: Vec<usize> = WORKSPACES
            .iter()
            .map(|n| {
                v.get_wc_commit_id(WorkspaceName::new(n))
                    .map_or(0, |id| self.ids[id])
            })
            .collect();
        json!({"heads": heads, "bm": bm, "wc": wc})
    }

    pub fn op_id(&mut self, id: &OperationId) -> usize {
        let n = self.ops.len() + 1;
        *self.ops.entry(id.clone()).or_insert(n)
    }

    /// the operation's predecessor records as `[[commit, [predecessors]], ...]`
    pub fn op_preds(&mut self, repo: &ReadonlyRepo) -> Vec<Value> {
        let mut m: BTreeMap<usize, Vec<usize>> = BTreeMap::new();
        if let Some(map) = &repo.operation().store_operation().commit_predecessors {
            for (k, vs) in map {
                let kk = self.id_of(repo, k);
                let vv = vs.iter().map(|v| self.id_of(repo, v)).collect();
                m.insert(kk, vv);
            }
        }
        m.into_iter().map(|(k, v)| json!([k, v])).collect()
    }

    /// merged tree of the parents, plus (unless `empty`) one fresh file
    pub fn tree_on(&mut self, repo: &MutableRepo, parents: &[CommitId], empty: bool) -> MergedTree {
        let pcs: Vec<Commit> = parents.iter().map(|p| repo.store().get_commit(p).unwrap()).collect();
        let base = merge_commit_trees(repo, &pcs).block_on().unwrap();
        if empty {
            return base;
        }
        let path = repo_path_buf(format!("f{}", self.next_file));
        self.next_file += 1;
        let fid = testutils::write_file(repo.store(), &path, &format!("content of {}\n", path.as_internal_file_string()));
        let mut b = MergedTreeBuilder::new(base);
        b.set_or_remove(
            path,
            Merge::normal(TreeValue::File { id: fid, executable: false, copy_id: CopyId::placeholder() }),
        );
        b.write_tree().block_on().unwrap()
    }
}
