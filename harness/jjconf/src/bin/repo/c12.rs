//! C12: I->S recorder for `merge_ref_targets`.  Real commits forming each DAG
//! shape are created in a TestRepo; every triple of targets of the spec's
//! domain (and random larger ones) is merged by the real code; TLC
//! (Trace_RefTarget) judges every record against RefMergeOK.
use jj_lib::backend::CommitId;
use jj_lib::merge::Merge;
use jj_lib::op_store::RefTarget;
use jj_lib::refs::merge_ref_targets;
use jj_lib::repo::Repo as _;
use pollster::FutureExt as _;
use serde_json::json;
use testutils::CommitBuilderExt as _;
use testutils::TestRepo;

use jjconf::util::Opts;
use jjconf::util::Out;
use jjconf::util::Rng;
use jjconf::util::catch;

fn shapes() -> Vec<(&'static str, Vec<Vec<usize>>)> {
    vec![
        ("chain", vec![vec![], vec![1], vec![2]]),
        ("fork", vec![vec![], vec![1], vec![1]]),
        ("merge", vec![vec![], vec![], vec![1, 2]]),
        ("pair", vec![vec![], vec![1], vec![]]),
        ("roots", vec![vec![], vec![], vec![]]),
    ]
}

/// all targets with 1 or 3 terms over 0..=v (0 = absent), in a fixed order
fn targets(v: i64, max_terms: usize) -> Vec<Vec<i64>> {
    let mut out = vec![];
    for a in 0..=v {
        out.push(vec![a]);
    }
    if max_terms >= 3 {
        for a in 0..=v {
            for b in 0..=v {
                for c in 0..=v {
                    out.push(vec![a, b, c]);
                }
            }
        }
    }
    out
}

struct Dag {
    par: Vec<Vec<usize>>,
    ids: Vec<CommitId>, // ids[i-1] = commit i
    _test_repo: TestRepo,
    tx: jj_lib::transaction::Transaction,
}

fn build_dag(par: &[Vec<usize>], tag: &str) -> Dag {
    let test_repo = TestRepo::init();
    let repo = test_repo.repo.clone();
    let mut tx = repo.start_transaction();
    let root = repo.store().root_commit_id().clone();
    let mut ids: Vec<CommitId> = vec![];
    for (i, ps) in par.iter().enumerate() {
        let parents: Vec<CommitId> = if ps.is_empty() {
            vec![root.clone()]
        } else {
            ps.iter().map(|p| ids[p - 1].clone()).collect()
        };
        let tree = repo.store().empty_merged_tree();
        let c = tx
            .repo_mut()
            .new_commit(parents, tree)
            .set_description(format!("{tag}-c{}", i + 1))
            .write_unwrap();
        ids.push(c.id().clone());
    }
    Dag { par: par.to_vec(), ids, _test_repo: test_repo, tx }
}

fn to_target(d: &Dag, t: &[i64]) -> RefTarget {
    RefTarget::from_merge(Merge::from_vec(
        t.iter()
            .map(|&v| if v == 0 { None } else { Some(d.ids[v as usize - 1].clone()) })
            .collect::<Vec<_>>(),
    ))
}

fn from_target(d: &Dag, t: &RefTarget) -> Vec<i64> {
    t.as_merge()
        .iter()
        .map(|v| match v {
            None => 0,
            // an id the inputs did not name maps to -1 (judged as "invented commit")
            Some(id) => d.ids.iter().position(|x| x == id).map_or(-1, |p| p as i64 + 1),
        })
        .collect()
}

fn one(d: &Dag, out: &mut Out, l: &[i64], b: &[i64], r: &[i64]) {
    let (tl, tb, tr) = (to_target(d, l), to_target(d, b), to_target(d, r));
    let res = catch(std::panic::AssertUnwindSafe(|| {
        merge_ref_targets(d.tx.repo().index(), &tl, &tb, &tr).block_on()
    }));
    match res {
        Ok(Ok(o)) => out.emit(&json!({"op":"refmerge","par":d.par,"l":l,"b":b,"r":r,"out":from_target(d, &o)})),
        Ok(Err(e)) => out.emit(&json!({"op":"panic","call":"merge_ref_targets","par":d.par,"l":l,"b":b,"r":r,"msg":format!("error: {e}")})),
        Err(e) => out.emit(&json!({"op":"panic","call":"merge_ref_targets","par":d.par,"l":l,"b":b,"r":r,"msg":e})),
    }
}

fn rand_target(rng: &mut Rng, n: usize, max_sides: usize) -> Vec<i64> {
    let sides = rng.range(1, max_sides);
    (0..2 * sides - 1).map(|_| rng.range(0, n) as i64).collect()
}

pub fn run(opts: &Opts) -> Result<(), String> {
    jjconf::util::quiet_panics();
    let mut out = Out::create(&opts.str("out", "refmerge.ndjson"))?;
    let max_conflicted = opts.usize("maxconflicted", 1);
    let n_random = opts.usize("random", 2000);
    let mut rng = Rng(Rng::new(opts.u64("seed", 0)).next()); // util::Rng::new(s+1) is Rng::new(s) shifted by one draw: mix
    let ts = targets(3, 3);
    let mut count = 0usize;
    for (name, par) in shapes() {
        let d = build_dag(&par, name);
        for l in &ts {
            for b in &ts {
                for r in &ts {
                    let nc = [l, b, r].iter().filter(|t| t.len() > 1).count();
                    if nc > max_conflicted {
                        continue;
                    }
                    one(&d, &mut out, l, b, r);
                    count += 1;
                }
            }
        }
    }
    out.emit(&json!({"op":"domain","kind":"refmerge","shapes":5,"maxconflicted":max_conflicted,"count":count}));
    // random triples of the spec's domain beyond max_conflicted (all <= 3 terms)
    let n_sample = opts.usize("sample", 0);
    if n_sample > 0 {
        let all = shapes();
        let dags: Vec<Dag> = all.iter().map(|(name, par)| build_dag(par, name)).collect();
        for _ in 0..n_sample {
            let d = rng.pick(&dags);
            let (l, b, r) = (rng.pick(&ts).clone(), rng.pick(&ts).clone(), rng.pick(&ts).clone());
            one(d, &mut out, &l, &b, &r);
        }
    }
    // random DAGs (topologically numbered, <= 2 parents) with up to 6 commits, targets up to 5 terms
    let mut left = n_random;
    while left > 0 {
        let n = rng.range(3, 6);
        let mut par: Vec<Vec<usize>> = vec![];
        for i in 0..n {
            let mut ps = vec![];
            if i > 0 {
                let k = rng.below(3); // 0, 1 or 2 parents
                for _ in 0..k {
                    let p = rng.range(1, i);
                    if !ps.contains(&p) {
                        ps.push(p);
                    }
                }
            }
            par.push(ps);
        }
        let d = build_dag(&par, "rnd");
        let per = left.min(40);
        for _ in 0..per {
            let (l, b, r) = (rand_target(&mut rng, n, 3), rand_target(&mut rng, n, 3), rand_target(&mut rng, n, 3));
            one(&d, &mut out, &l, &b, &r);
        }
        left -= per;
    }
    out.finish();
    Ok(())
}
