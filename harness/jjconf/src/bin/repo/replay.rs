use jjconf::util::Opts; #[allow(dead_code)] pub fn run(_o: &Opts) -> Result<(), String> { Err("todo".into()) }
