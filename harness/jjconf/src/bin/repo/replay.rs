//! S->I replayer for spec/Repo.tla: executes TLC-generated behaviours of
//! MC_Repo (one JSON object per line: {"model":"Repo","steps":[{a, args, post}]})
//! through the real MutableRepo / Transaction / RepoLoader and compares the
//! projected real state with the model's `post` after EVERY action.  Model
//! commit ids are bound to real commits as they are created (never by hash):
//! commits the replayer creates itself directly, commits created inside
//! rebase_descendants through the progress callback, commits created by a
//! reconciliation through the operation's predecessor records, fresh
//! working-copy commits through the workspace pointer.
use std::collections::BTreeSet;
use std::collections::HashMap;
use std::sync::Arc;

use jj_lib::backend::ChangeId;
use jj_lib::backend::CommitId;
use jj_lib::commit::Commit;
use jj_lib::ref_name::RefName;
use jj_lib::ref_name::WorkspaceName;
use jj_lib::ref_name::WorkspaceNameBuf;
use jj_lib::repo::ReadonlyRepo;
use jj_lib::repo::Repo;
use jj_lib::revset::RevsetExpression;
use jj_lib::rewrite::EmptyBehavior;
use jj_lib::rewrite::RebaseOptions;
use jj_lib::rewrite::RebasedCommit;
use jj_lib::rewrite::RewriteRefsOptions;
use jj_lib::transaction::Transaction;
use pollster::FutureExt as _;
use serde_json::Value;
use serde_json::json;

use jjconf::util::Opts;
use jjconf::util::Out;
use jjconf::util::catch;
use jjconf::util::read_ndjson;

use crate::world::BOOKMARKS;
use crate::world::WORKSPACES;
use crate::world::World;

struct Rp {
    w: World,
    /// model commit id -> real commit
    bind: HashMap<usize, Commit>,
    rev: HashMap<CommitId, usize>,
    chg: HashMap<i64, ChangeId>,
    /// model op id -> real repo at that operation
    ops: Vec<Arc<ReadonlyRepo>>,
    tx: Option<Transaction>,
}

type Fail = Value;

fn us(v: &Value) -> usize {
    v.as_u64().unwrap() as usize
}
fn ids(v: &Value) -> Vec<usize> {
    v.as_array().unwrap().iter().map(us).collect()
}

impl Rp {
    fn new() -> Self {
        let w = World::new();
        let root = w.commit(1).clone();
        let mut s = Self { w, bind: HashMap::new(), rev: HashMap::new(), chg: HashMap::new(), ops: vec![], tx: None };
        s.chg.insert(0, root.change_id().clone());
        s.do_bind(1, root);
        let r0 = s.w.repo0();
        s.ops.push(r0);
        s
    }

    fn do_bind(&mut self, m: usize, c: Commit) {
        self.rev.insert(c.id().clone(), m);
        self.bind.insert(m, c);
    }

    fn real(&self, m: usize) -> Result<&Commit, Fail> {
        self.bind.get(&m).ok_or_else(|| json!({"why": "model commit was never created by the implementation", "commit": m}))
    }

    fn cids(&self, ms: &[usize]) -> Result<Vec<CommitId>, Fail> {
        ms.iter().map(|&m| self.real(m).map(|c| c.id().clone())).collect()
    }

    /// SeededInit of MC_Repo: 1 <- 2 <- 3 <- 4 (empty, undescribed, w1), b1 at 3, hidden 5 on 3
    fn seed(&mut self) {
        let repo0 = self.ops[0].clone();
        let mut tx = repo0.start_transaction();
        let mut prev = self.w.cid(1);
        for (m, desc, empty) in [(2usize, "d1", false), (3, "d2", false), (4, "", true)] {
            let tree = self.w.tree_on(tx.repo(), std::slice::from_ref(&prev), empty);
            let c = tx.repo_mut().new_commit(vec![prev.clone()], tree).set_description(desc).write().block_on().unwrap();
            prev = c.id().clone();
            self.chg.insert(m as i64 - 1, c.change_id().clone());
            self.do_bind(m, c);
        }
        // commit 5: created on 3 and abandoned in the same (seeding) operation: indexed but hidden
        {
            let p3 = self.bind[&3].id().clone();
            let tree = self.w.tree_on(tx.repo(), std::slice::from_ref(&p3), false);
            let c = tx.repo_mut().new_commit(vec![p3], tree).set_description("d3").write().block_on().unwrap();
            self.chg.insert(4, c.change_id().clone());
            tx.repo_mut().record_abandoned_commit(&c);
            tx.repo_mut().rebase_descendants().block_on().unwrap();
            self.do_bind(5, c);
        }
        let t = jj_lib::op_store::RefTarget::normal(self.bind[&3].id().clone());
        tx.repo_mut().set_local_bookmark_target(RefName::new(BOOKMARKS[0]), t);
        let c4 = self.bind[&4].clone();
        tx.repo_mut().edit(WorkspaceNameBuf::from(WORKSPACES[0]), &c4).block_on().unwrap();
        let repo = tx.write("seed").block_on().unwrap().leave_unpublished();
        self.ops.push(repo);
    }

    fn cur_repo(&self) -> &dyn Repo {
        match &self.tx {
            Some(tx) => tx.repo(),
            None => self.ops.last().unwrap().as_ref(),
        }
    }

    /// compare the real state with the model's post-state
    fn compare(&mut self, step: &Value, committed: Option<&Arc<ReadonlyRepo>>) -> Result<(), Fail> {
        let post = &step["post"];
        // 1. every commit the model created is bound and has the model's shape
        for nc in post["new"].as_array().unwrap() {
            let m = us(&nc[0]);
            let c = self.real(m)?.clone();
            let parents: Vec<i64> = c.parent_ids().iter().map(|p| self.rev.get(p).map_or(-1, |&x| x as i64)).collect();
            let want: Vec<i64> = nc[1].as_array().unwrap().iter().map(|x| x.as_i64().unwrap()).collect();
            if parents != want {
                return Err(json!({"why": "parents of a new commit differ", "commit": m, "expected": want, "observed": parents}));
            }
            let mchg = nc[2].as_i64().unwrap();
            match self.chg.get(&mchg) {
                Some(real) if real != c.change_id() => {
                    return Err(json!({"why": "change id of a new commit differs from the commits the model gives the same change", "commit": m}));
                }
                Some(_) => {}
                None => {
                    if self.chg.values().any(|x| x == c.change_id()) {
                        return Err(json!({"why": "new commit reuses a change id where the model has a fresh one", "commit": m}));
                    }
                    self.chg.insert(mchg, c.change_id().clone());
                }
            }
            let d = nc[3].as_i64().unwrap();
            let want_desc = if d == 0 { String::new() } else { format!("d{d}") };
            if c.description() != want_desc {
                return Err(json!({"why": "description of a new commit differs", "commit": m, "expected": want_desc, "observed": c.description()}));
            }
            let emp = c.is_empty(self.cur_repo()).block_on().unwrap();
            if emp != nc[4].as_bool().unwrap() {
                return Err(json!({"why": "emptiness of a new commit differs", "commit": m, "expected": nc[4], "observed": emp}));
            }
        }
        // 2. projected view: visible set, bookmarks, working copies (heads when committed)
        let repo = self.cur_repo();
        let view = repo.view();
        let mut vis: BTreeSet<i64> = BTreeSet::new();
        let mut stack: Vec<CommitId> = view.heads().iter().cloned().collect();
        let mut seen: BTreeSet<CommitId> = BTreeSet::new();
        while let Some(c) = stack.pop() {
            if seen.insert(c.clone()) {
                let commit = repo.store().get_commit(&c).unwrap();
                match self.rev.get(&c) {
                    Some(&m) => {
                        vis.insert(m as i64);
                    }
                    None => {
                        return Err(json!({"why": "the implementation has a visible commit the model did not create",
                                          "description": commit.description(),
                                          "parents": commit.parent_ids().iter().map(|p| self.rev.get(p).map_or(-1, |&x| x as i64)).collect::<Vec<_>>()}));
                    }
                }
                stack.extend(commit.parent_ids().iter().cloned());
            }
        }
        let vis: Vec<i64> = vis.into_iter().collect();
        let want_vis: Vec<i64> = post["vis"].as_array().unwrap().iter().map(|x| x.as_i64().unwrap()).collect();
        if vis != want_vis {
            return Err(json!({"why": "visible commits differ", "expected": want_vis, "observed": vis}));
        }
        let bm: Vec<Vec<i64>> = BOOKMARKS
            .iter()
            .map(|n| {
                view.get_local_bookmark(RefName::new(n))
                    .as_merge()
                    .iter()
                    .map(|t| match t {
                        None => 0,
                        Some(id) => self.rev.get(id).map_or(-1, |&x| x as i64),
                    })
                    .collect()
            })
            .collect();
        if json!(bm) != post["view"]["bm"] {
            return Err(json!({"why": "bookmarks differ", "expected": post["view"]["bm"], "observed": bm}));
        }
        let wc: Vec<i64> = WORKSPACES
            .iter()
            .map(|n| view.get_wc_commit_id(WorkspaceName::new(n)).map_or(0, |id| self.rev.get(id).map_or(-1, |&x| x as i64)))
            .collect();
        if json!(wc) != post["view"]["wc"] {
            return Err(json!({"why": "working-copy commits differ", "expected": post["view"]["wc"], "observed": wc}));
        }
        if let Some(repo) = committed {
            let mut heads: Vec<i64> = view.heads().iter().map(|h| self.rev[h] as i64).collect();
            heads.sort();
            if json!(heads) != post["view"]["heads"] {
                return Err(json!({"why": "committed heads differ", "expected": post["view"]["heads"], "observed": heads}));
            }
            // predecessor records of the operation
            let mut preds: Vec<(i64, Vec<i64>)> = vec![];
            if let Some(map) = &repo.operation().store_operation().commit_predecessors {
                for (k, vs) in map {
                    preds.push((
                        self.rev.get(k).map_or(-1, |&x| x as i64),
                        vs.iter().map(|v| self.rev.get(v).map_or(-1, |&x| x as i64)).collect(),
                    ));
                }
            }
            preds.sort();
            let got = json!(preds.iter().map(|(k, v)| json!([k, v])).collect::<Vec<_>>());
            if got != post["preds"] {
                return Err(json!({"why": "predecessor records of the operation differ", "expected": post["preds"], "observed": got}));
            }
        }
        Ok(())
    }

    /// bind fresh working-copy commits (created inside rebase/merge) through the workspace pointers
    fn bind_fresh_wc(&mut self, post: &Value) {
        let repo_view_wc: Vec<Option<CommitId>> = WORKSPACES
            .iter()
            .map(|n| self.cur_repo().view().get_wc_commit_id(WorkspaceName::new(n)).cloned())
            .collect();
        for (i, real) in repo_view_wc.into_iter().enumerate() {
            let m = us(&post["view"]["wc"][i]);
            if let Some(rid) = real {
                if m != 0 && !self.bind.contains_key(&m) && !self.rev.contains_key(&rid) {
                    let c = self.cur_repo().store().get_commit(&rid).unwrap();
                    self.do_bind(m, c);
                }
            }
        }
    }

    fn desc_of(nc: &Value) -> String {
        let d = nc[3].as_i64().unwrap();
        if d == 0 { String::new() } else { format!("d{d}") }
    }

    fn step(&mut self, step: &Value) -> Result<(), Fail> {
        let a = step["a"].as_str().unwrap();
        let post = &step["post"];
        let new = post["new"].as_array().unwrap().clone();
        let mut committed: Option<Arc<ReadonlyRepo>> = None;
        match a {
            "StartTx" => {
                self.tx = Some(self.ops[us(&step["o"]) - 1].start_transaction());
            }
            "Restore" => {
                let v = self.ops[us(&step["o"]) - 1].view().store_view().clone();
                self.tx.as_mut().unwrap().repo_mut().set_view(v);
            }
            "NewCommit" => {
                let ps = self.cids(&ids(&step["ps"]))?;
                let e = step["e"].as_bool().unwrap();
                let tx = self.tx.as_mut().unwrap();
                let tree = self.w.tree_on(tx.repo(), &ps, e);
                let c = tx.repo_mut().new_commit(ps, tree).set_description(Self::desc_of(&new[0])).write().block_on()
                    .map_err(|e| json!({"why": "new_commit failed", "error": e.to_string()}))?;
                self.do_bind(us(&new[0][0]), c);
            }
            "RewriteCommit" => {
                let x = self.real(us(&step["x"]))?.clone();
                let np = self.cids(&ids(&step["np"]))?;
                let tx = self.tx.as_mut().unwrap();
                let c = if np.as_slice() == x.parent_ids() {
                    // describe-like rewrite
                    tx.repo_mut().rewrite_commit(&x).set_description(Self::desc_of(&new[0])).write().block_on()
                } else {
                    // rebase -r like rewrite: the commit's own changes move onto the new parents
                    match jj_lib::rewrite::CommitRewriter::new(tx.repo_mut(), x.clone(), np).rebase().block_on() {
                        Ok(b) => b.set_description(Self::desc_of(&new[0])).write().block_on(),
                        Err(e) => Err(e),
                    }
                }
                .map_err(|e| json!({"why": "rewrite_commit failed", "error": e.to_string()}))?;
                self.do_bind(us(&new[0][0]), c);
            }
            "Abandon" => {
                let x = self.real(us(&step["x"]))?.clone();
                self.tx.as_mut().unwrap().repo_mut().record_abandoned_commit(&x);
            }
            "Divergent" => {
                let x = self.real(us(&step["x"]))?.clone();
                let mut made = vec![];
                for nc in new.iter().take(2) {
                    let tx = self.tx.as_mut().unwrap();
                    let c = tx.repo_mut().rewrite_commit(&x).set_description(Self::desc_of(nc)).write().block_on()
                        .map_err(|e| json!({"why": "rewrite_commit failed", "error": e.to_string()}))?;
                    made.push(c.id().clone());
                    self.do_bind(us(&nc[0]), c);
                }
                self.tx.as_mut().unwrap().repo_mut().set_divergent_rewrite(x.id().clone(), made);
            }
            "SetBookmark" => {
                let t: Vec<usize> = ids(&step["t"]);
                let target = jj_lib::op_store::RefTarget::from_merge(jj_lib::merge::Merge::from_vec(
                    t.iter().map(|&m| if m == 0 { Ok(None) } else { self.real(m).map(|c| Some(c.id().clone())) })
                        .collect::<Result<Vec<_>, Fail>>()?,
                ));
                let name = BOOKMARKS[us(&step["i"]) - 1];
                self.tx.as_mut().unwrap().repo_mut().set_local_bookmark_target(RefName::new(name), target);
            }
            "Edit" => {
                let c = self.real(us(&step["c"]))?.clone();
                let ws = WORKSPACES[us(&step["w"]) - 1];
                self.tx.as_mut().unwrap().repo_mut().edit(WorkspaceNameBuf::from(ws), &c).block_on()
                    .map_err(|e| json!({"why": "edit failed", "error": e.to_string()}))?;
            }
            "CheckOut" => {
                let c = self.real(us(&step["c"]))?.clone();
                let ws = WORKSPACES[us(&step["w"]) - 1];
                let n = self.tx.as_mut().unwrap().repo_mut().check_out(WorkspaceNameBuf::from(ws), &c).block_on()
                    .map_err(|e| json!({"why": "check_out failed", "error": e.to_string()}))?;
                self.do_bind(us(&new[0][0]), n);
            }
            "RemoveWorkspace" => {
                let ws = WORKSPACES[us(&step["w"]) - 1];
                self.tx.as_mut().unwrap().repo_mut().remove_workspace(WorkspaceName::new(ws)).block_on()
                    .map_err(|e| json!({"why": "remove_workspace failed", "error": e.to_string()}))?;
            }
            "RebaseDescendants" => {
                let options = RebaseOptions {
                    empty: if step["empty"] == "all" { EmptyBehavior::AbandonAllEmpty } else { EmptyBehavior::Keep },
                    rewrite_refs: RewriteRefsOptions { delete_abandoned_bookmarks: step["del"].as_bool().unwrap() },
                    simplify_ancestor_merge: false,
                };
                let mut rebased: Vec<(CommitId, RebasedCommit)> = vec![];
                self.tx.as_mut().unwrap().repo_mut()
                    .rebase_descendants_with_options(&RevsetExpression::none(), &options, |old, new| {
                        rebased.push((old.id().clone(), new));
                    })
                    .block_on()
                    .map_err(|e| json!({"why": "rebase_descendants failed", "error": e.to_string()}))?;
                // what the model says was rebased: [[old, kind, [n]]]
                let mut want: HashMap<usize, (String, usize)> = HashMap::new();
                for e in step["rb"].as_array().unwrap() {
                    want.insert(us(&e[0]), (e[1].as_str().unwrap().to_string(), us(&e[2][0])));
                }
                let mut got_keys = BTreeSet::new();
                for (old, newc) in rebased {
                    let o = *self.rev.get(&old).ok_or_else(|| json!({"why": "rebased an unknown commit"}))?;
                    got_keys.insert(o);
                    match (want.get(&o), newc) {
                        (Some((k, n)), RebasedCommit::Rewritten(c)) if k == "rw" => {
                            let n = *n;
                            self.do_bind(n, c);
                        }
                        (Some((k, p)), RebasedCommit::Abandoned { parent_id }) if k == "ab" => {
                            if self.rev.get(&parent_id) != Some(p) {
                                return Err(json!({"why": "commit dropped as empty onto another parent than in the model", "commit": o}));
                            }
                        }
                        (w, got) => {
                            return Err(json!({"why": "rebase outcome of a descendant differs", "commit": o,
                                              "expected": format!("{w:?}"), "observed": format!("{got:?}").chars().take(60).collect::<String>()}));
                        }
                    }
                }
                let want_keys: BTreeSet<usize> = want.keys().copied().collect();
                if got_keys != want_keys {
                    return Err(json!({"why": "set of rebased descendants differs", "expected": want_keys, "observed": got_keys}));
                }
                self.bind_fresh_wc(post);
            }
            "Commit" => {
                let tx = self.tx.take().unwrap();
                let repo = tx.write("tx").block_on().map_err(|e| json!({"why": "commit failed", "error": e.to_string()}))?.leave_unpublished();
                self.ops.push(repo.clone());
                committed = Some(repo);
            }
            "MergeHeads" => {
                let (x, y) = (us(&step["x"]), us(&step["y"]));
                let loader = self.ops[0].loader().clone();
                let opsv = vec![self.ops[x - 1].operation().clone(), self.ops[y - 1].operation().clone()];
                let (repo, _) = loader.merge_operations(opsv, None, Some("reconcile"), []).block_on()
                    .map_err(|e| json!({"why": "merge_operations failed", "error": e.to_string()}))?;
                self.ops.push(repo.clone());
                // bind the commits the reconciliation created through its predecessor records
                let mut model_by_pred: HashMap<usize, usize> = HashMap::new();
                for e in post["preds"].as_array().unwrap() {
                    if let Some(p) = e[1].as_array().unwrap().first() {
                        model_by_pred.insert(us(p), us(&e[0]));
                    }
                }
                if let Some(map) = &repo.operation().store_operation().commit_predecessors {
                    for (k, vs) in map {
                        if let Some(p) = vs.first().and_then(|p| self.rev.get(p)) {
                            if let Some(&m) = model_by_pred.get(p) {
                                if !self.bind.contains_key(&m) {
                                    let c = repo.store().get_commit(k).unwrap();
                                    self.do_bind(m, c);
                                }
                            }
                        }
                    }
                }
                self.bind_fresh_wc(post);
                committed = Some(repo);
            }
            other => return Err(json!({"why": "unknown action", "a": other})),
        }
        self.compare(step, committed.as_ref())
    }
}

fn replay_one(beh: &Value) -> (usize, Option<Value>) {
    let steps = beh["steps"].as_array().unwrap();
    let mut rp = Rp::new();
    rp.seed();
    for (i, st) in steps.iter().enumerate() {
        let r = catch(std::panic::AssertUnwindSafe(|| rp.step(st)));
        match r {
            Ok(Ok(())) => {}
            Ok(Err(mut f)) => {
                f["at"] = json!(i + 1);
                f["action"] = st["a"].clone();
                return (i, Some(f));
            }
            Err(msg) => {
                return (i, Some(json!({"why": "panic", "msg": msg, "at": i + 1, "action": st["a"]})));
            }
        }
    }
    (steps.len(), None)
}

pub fn run(opts: &Opts) -> Result<(), String> {
    jjconf::util::quiet_panics();
    let behs = read_ndjson(&opts.str("behaviours", "behaviours.ndjson"))?;
    let mut out = Out::create(&opts.str("out", "replayed.ndjson"))?;
    for (k, b) in behs.iter().enumerate() {
        let (n, fail) = replay_one(b);
        match fail {
            None => out.emit(&json!({"op":"replayed","idx":k,"ok":true,"steps":n})),
            Some(f) => out.emit(&json!({"op":"replayed","idx":k,"ok":false,"steps":n,"fail":f})),
        }
    }
    out.finish();
    Ok(())
}
