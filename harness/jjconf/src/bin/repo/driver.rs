//! I->S driver for C10/C11/C13/C46: seeded random transactions against the
//! real MutableRepo / Transaction / RepoLoader.  Every committed view, every
//! rebase_descendants call (records in, view before/after, what was rebased),
//! every reconciliation of concurrent operations and every walk_predecessors
//! call is logged in the model's vocabulary; TLC (Trace_Repo) judges the log.
//! The driver decides nothing.  It only stays inside the API's documented
//! domain (no cyclic rewrite records, no second plain rewrite of one commit).
use std::collections::BTreeSet;
use std::collections::HashSet;
use std::sync::Arc;

use futures::TryStreamExt as _;
use jj_lib::backend::CommitId;
use jj_lib::evolution::walk_predecessors;
use jj_lib::ref_name::RefName;
use jj_lib::ref_name::WorkspaceName;
use jj_lib::ref_name::WorkspaceNameBuf;
use jj_lib::repo::ReadonlyRepo;
use jj_lib::repo::Repo as _;
use jj_lib::revset::RevsetExpression;
use jj_lib::rewrite::EmptyBehavior;
use jj_lib::rewrite::RebaseOptions;
use jj_lib::rewrite::RebasedCommit;
use jj_lib::rewrite::RewriteRefsOptions;
use jj_lib::transaction::Transaction;
use pollster::FutureExt as _;
use serde_json::Value;
use serde_json::json;

use jjconf::util::Opts;
use jjconf::util::Out;
use jjconf::util::Rng;
use jjconf::util::catch;

use crate::world::BOOKMARKS;
use crate::world::WORKSPACES;
use crate::world::World;

pub struct Txn {
    pub tx: Transaction,
    /// rewrite records handed to the repo since the last rebase: (old, kind, news)
    pub map: Vec<(usize, &'static str, Vec<usize>)>,
    /// (old, new) rewrites whose predecessor record is due at commit
    pub pending: Vec<(usize, usize)>,
    /// commits created by this transaction
    pub created: Vec<usize>,
}

pub struct Aborted(pub Value);

fn panic_event(call: &str, msg: String, extra: Value) -> Aborted {
    let mut v = json!({"op":"panic","call":call,"msg":msg});
    for (k, x) in extra.as_object().unwrap() {
        v[k] = x.clone();
    }
    Aborted(v)
}

fn map_json(map: &[(usize, &'static str, Vec<usize>)]) -> Value {
    // later records for the same key replace earlier ones (HashMap::insert)
    let mut seen = HashSet::new();
    let mut out = vec![];
    for (k, kind, news) in map.iter().rev() {
        if seen.insert(*k) {
            out.push(json!([k, kind, news]));
        }
    }
    out.reverse();
    json!(out)
}

impl Txn {
    pub fn start(repo: &Arc<ReadonlyRepo>) -> Self {
        Self { tx: repo.start_transaction(), map: vec![], pending: vec![], created: vec![] }
    }

    fn is_key(&self, c: usize) -> bool {
        self.map.iter().any(|(k, _, _)| *k == c)
    }

    pub fn visible(&self, w: &World) -> BTreeSet<usize> {
        let mut seen = BTreeSet::new();
        let mut stack: Vec<usize> = self.tx.repo().view().heads().iter().map(|h| w.ids[h]).collect();
        while let Some(c) = stack.pop() {
            if seen.insert(c) {
                for p in w.commit(c).parent_ids() {
                    stack.push(w.ids[p]);
                }
            }
        }
        seen
    }

    /// commits that will descend from `k` once the pending records are applied
    /// (children, and everything below a commit that replaces a descendant)
    fn future_descendants(&self, w: &World, k: usize) -> BTreeSet<usize> {
        let n = w.commits.len();
        let mut children: Vec<Vec<usize>> = vec![vec![]; n + 1];
        for c in 1..=n {
            for p in w.commit(c).parent_ids() {
                children[w.ids[p]].push(c);
            }
        }
        for (key, _, news) in &self.map {
            for r in news {
                children[*r].push(*key);
            }
        }
        let mut seen = BTreeSet::new();
        let mut stack = vec![k];
        while let Some(c) = stack.pop() {
            if seen.insert(c) {
                stack.extend(children[c].iter().copied());
            }
        }
        seen
    }

    /// commits the transaction's index knows but that are not visible (abandoned / rewritten away
    /// by an earlier operation): `jj new <hidden commit>` makes them reachable again
    pub fn hidden(&self, w: &World) -> Vec<usize> {
        let vis = self.visible(w);
        (2..=w.commits.len())
            .filter(|c| !vis.contains(c) && !self.is_key(*c))
            .filter(|&c| self.tx.repo().index().has_id(&w.cid(c)).block_on().unwrap_or(false))
            .collect()
    }

    pub fn new_commit(&mut self, w: &mut World, parents: &[usize], empty: bool, described: bool) -> usize {
        let pids: Vec<CommitId> = parents.iter().map(|&p| w.cid(p)).collect();
        let tree = w.tree_on(self.tx.repo(), &pids, empty);
        let desc = if described { w.fresh_desc() } else { String::new() };
        let c = self.tx.repo_mut().new_commit(pids, tree).set_description(desc).write().block_on().unwrap();
        let id = w.id_of(self.tx.repo(), c.id());
        self.created.push(id);
        id
    }

    /// rewrite_commit(old) with a fresh description and optionally new parents
    pub fn rewrite(&mut self, w: &mut World, old: usize, new_parents: Option<&[usize]>) -> Result<usize, String> {
        let oldc = w.commit(old).clone();
        let desc = w.fresh_desc();
        let c = match new_parents {
            // rebase -r like: the commit's own changes move onto the new parents ...
            Some(ps) if desc.len() % 2 == 0 => {
                let np = ps.iter().map(|&p| w.cid(p)).collect();
                jj_lib::rewrite::CommitRewriter::new(self.tx.repo_mut(), oldc.clone(), np)
                    .rebase().block_on().map_err(|e| e.to_string())?
                    .set_description(desc).write().block_on()
            }
            // ... or reparent: same tree on other parents
            Some(ps) => self.tx.repo_mut().rewrite_commit(&oldc).set_description(desc)
                .set_parents(ps.iter().map(|&p| w.cid(p)).collect()).write().block_on(),
            None => self.tx.repo_mut().rewrite_commit(&oldc).set_description(desc).write().block_on(),
        }
        .map_err(|e| e.to_string())?;
        let id = w.id_of(self.tx.repo(), c.id());
        self.created.push(id);
        self.pending.push((old, id));
        self.map.push((old, "rw", vec![id]));
        Ok(id)
    }

    pub fn abandon(&mut self, w: &World, old: usize) {
        let c = w.commit(old).clone();
        self.tx.repo_mut().record_abandoned_commit(&c);
        let ps = c.parent_ids().iter().map(|p| w.ids[p]).collect();
        self.map.push((old, "ab", ps));
    }

    pub fn divergent(&mut self, w: &mut World, old: usize) -> Result<(), String> {
        let a = self.rewrite(w, old, None)?;
        let b = self.rewrite(w, old, None)?;
        self.tx.repo_mut().set_divergent_rewrite(w.cid(old), vec![w.cid(a), w.cid(b)]);
        self.map.push((old, "dv", vec![a, b]));
        Ok(())
    }

    /// after edit / check_out / remove_workspace: did the repo record the
    /// commit we left as abandoned (maybe_abandon_wc_commit)?  Observed through
    /// the public new_parents().
    fn observe_left_wc(&mut self, w: &World, old_wc: Option<usize>) {
        if let Some(x) = old_wc {
            if !self.is_key(x) {
                let cid = w.cid(x);
                let np = self.tx.repo().new_parents(std::slice::from_ref(&cid));
                if np != vec![cid] {
                    let ps = np.iter().map(|p| w.ids[p]).collect();
                    self.map.push((x, "ab", ps));
                }
            }
        }
    }

    fn wc_of(&self, w: &World, ws: &str) -> Option<usize> {
        self.tx.repo().view().get_wc_commit_id(WorkspaceName::new(ws)).map(|id| w.ids[id])
    }

    pub fn edit(&mut self, w: &mut World, ws: &str, c: usize) -> Result<(), Aborted> {
        let old = self.wc_of(w, ws);
        let commit = w.commit(c).clone();
        let r = catch(std::panic::AssertUnwindSafe(|| {
            self.tx.repo_mut().edit(WorkspaceNameBuf::from(ws), &commit).block_on()
        }));
        match r {
            Ok(Ok(())) => {}
            Ok(Err(e)) => return Err(panic_event("edit", format!("error: {e}"), json!({"ws": ws, "c": c}))),
            Err(m) => return Err(panic_event("edit", m, json!({"ws": ws, "c": c}))),
        }
        self.observe_left_wc(w, old);
        Ok(())
    }

    pub fn check_out(&mut self, w: &mut World, ws: &str, c: usize) -> Result<usize, Aborted> {
        let old = self.wc_of(w, ws);
        let commit = w.commit(c).clone();
        let r = catch(std::panic::AssertUnwindSafe(|| {
            self.tx.repo_mut().check_out(WorkspaceNameBuf::from(ws), &commit).block_on()
        }));
        let n = match r {
            Ok(Ok(n)) => n,
            Ok(Err(e)) => return Err(panic_event("check_out", format!("error: {e}"), json!({"ws": ws, "c": c}))),
            Err(m) => return Err(panic_event("check_out", m, json!({"ws": ws, "c": c}))),
        };
        let id = w.id_of(self.tx.repo(), n.id());
        self.created.push(id);
        self.observe_left_wc(w, old);
        Ok(id)
    }

    pub fn remove_workspace(&mut self, w: &mut World, ws: &str) -> Result<(), Aborted> {
        let old = self.wc_of(w, ws);
        let r = catch(std::panic::AssertUnwindSafe(|| {
            self.tx.repo_mut().remove_workspace(WorkspaceName::new(ws)).block_on()
        }));
        match r {
            Ok(Ok(())) => {}
            Ok(Err(e)) => return Err(panic_event("remove_workspace", format!("error: {e}"), json!({"ws": ws}))),
            Err(m) => return Err(panic_event("remove_workspace", m, json!({"ws": ws}))),
        }
        self.observe_left_wc(w, old);
        Ok(())
    }

    pub fn set_bookmark(&mut self, w: &World, name: &str, t: &[usize]) {
        self.tx.repo_mut().set_local_bookmark_target(RefName::new(name), w.target_from_model(t));
    }

    /// rebase_descendants_with_options; emits the "rebase" event
    pub fn rebase(&mut self, w: &mut World, out: &mut Out, empty: &str, del: bool) -> Result<(), Aborted> {
        let v0 = w.view(self.tx.repo());
        let new0 = w.drain_new(self.tx.repo());
        let n_old = w.commits.len();
        let map = map_json(&self.map);
        let options = RebaseOptions {
            empty: match empty {
                "newly" => EmptyBehavior::AbandonNewlyEmpty,
                "all" => EmptyBehavior::AbandonAllEmpty,
                _ => EmptyBehavior::Keep,
            },
            rewrite_refs: RewriteRefsOptions { delete_abandoned_bookmarks: del },
            simplify_ancestor_merge: false,
        };
        let mut rebased: Vec<(CommitId, RebasedCommit)> = vec![];
        let r = catch(std::panic::AssertUnwindSafe(|| {
            self.tx
                .repo_mut()
                .rebase_descendants_with_options(&RevsetExpression::none(), &options, |old, new| {
                    rebased.push((old.id().clone(), new));
                })
                .block_on()
        }));
        let ctx = json!({"new": new0, "v0": v0, "map": map, "empty": empty, "del": del, "nold": n_old});
        match r {
            Ok(Ok(())) => {}
            Ok(Err(e)) => return Err(panic_event("rebase", format!("error: {e}"), ctx)),
            Err(m) => return Err(panic_event("rebase", m, ctx)),
        }
        let mut rb = vec![];
        for (old, new) in &rebased {
            let o = w.ids[old];
            match new {
                RebasedCommit::Rewritten(c) => {
                    let n = w.id_of(self.tx.repo(), c.id());
                    self.created.push(n);
                    self.pending.push((o, n));
                    rb.push(json!([o, "rw", [n]]));
                }
                RebasedCommit::Abandoned { parent_id } => {
                    let p = w.id_of(self.tx.repo(), parent_id);
                    rb.push(json!([o, "ab", [p]]));
                }
            }
        }
        let v1 = w.view(self.tx.repo());
        let mut new = new0;
        new.extend(w.drain_new(self.tx.repo()));
        // commits created by the rebase itself (fresh working-copy commits)
        for i in n_old + 1..=w.commits.len() {
            if !self.created.contains(&i) {
                self.created.push(i);
            }
        }
        out.emit(&json!({"op":"rebase","new":new,"v0":v0,"map":map,"empty":empty,"del":del,
                          "nold":n_old,"rb":rb,"v1":v1}));
        self.map.clear();
        Ok(())
    }

    /// Transaction::commit (publish) or write + leave_unpublished; emits "commit"
    pub fn commit(mut self, w: &mut World, out: &mut Out, publish: bool) -> Result<Arc<ReadonlyRepo>, Aborted> {
        if !self.map.is_empty() {
            self.rebase(w, out, "keep", false)?;
        }
        let pending: Vec<Value> = self.pending.iter().map(|(a, b)| json!([a, b])).collect();
        let mut created = self.created.clone();
        created.sort();
        created.dedup();
        let tx = self.tx;
        let r = catch(std::panic::AssertUnwindSafe(|| {
            if publish {
                tx.commit("tx").block_on().map_err(|e| e.to_string())
            } else {
                tx.write("tx").block_on().map(|u| u.leave_unpublished()).map_err(|e| e.to_string())
            }
        }));
        let repo = match r {
            Ok(Ok(repo)) => repo,
            Ok(Err(e)) => return Err(panic_event("commit", format!("error: {e}"), json!({}))),
            Err(m) => return Err(panic_event("commit", m, json!({}))),
        };
        emit_op(w, out, &repo, "commit", json!({"pending": pending, "created": created}));
        Ok(repo)
    }
}

/// one committed operation: id, parents, new commits, predecessor records, view
pub fn emit_op(w: &mut World, out: &mut Out, repo: &Arc<ReadonlyRepo>, kind: &str, extra: Value) -> usize {
    let view = w.view(repo.as_ref());
    let preds = w.op_preds(repo);
    let new = w.drain_new(repo.as_ref());
    let parents: Vec<usize> = repo.operation().parent_ids().iter().map(|p| w.op_id(p)).collect();
    let opid = w.op_id(repo.op_id());
    w.op_parents.insert(opid, parents.clone());
    let mut v = json!({"op":kind,"opid":opid,"parents":parents,"new":new,"preds":preds,"view":view});
    for (k, x) in extra.as_object().unwrap() {
        v[k] = x.clone();
    }
    out.emit(&v);
    opid
}

fn emit_walk(w: &mut World, out: &mut Out, repo: &Arc<ReadonlyRepo>, start: usize) {
    let at = w.op_id(repo.op_id());
    let cid = w.cid(start);
    let r = catch(std::panic::AssertUnwindSafe(|| {
        walk_predecessors(repo, std::slice::from_ref(&cid)).try_collect::<Vec<_>>().block_on()
    }));
    match r {
        Ok(Ok(entries)) => {
            let o: Vec<usize> = entries.iter().map(|e| w.id_of(repo.as_ref(), e.commit.id())).collect();
            let new = w.drain_new(repo.as_ref());
            out.emit(&json!({"op":"walk","at":at,"start":start,"out":o,"failed":false,"new":new}));
        }
        Ok(Err(e)) => out.emit(&json!({"op":"walk","at":at,"start":start,"out":[],"failed":true,"new":[],"msg":e.to_string()})),
        Err(m) => out.emit(&json!({"op":"panic","call":"walk_predecessors","msg":m,"at":at,"start":start})),
    }
}

// ---------------------------------------------------------------------------
// random transactions

fn pick_set<T: Copy>(rng: &mut Rng, xs: &[T]) -> Option<T> {
    if xs.is_empty() { None } else { Some(*rng.pick(xs)) }
}

/// a few random mutations inside one transaction (no commit)
fn random_actions(w: &mut World, rng: &mut Rng, out: &mut Out, t: &mut Txn, n: usize, concurrent: bool) -> Result<(), Aborted> {
    for _ in 0..n {
        let vis: Vec<usize> = t.visible(w).into_iter().collect();
        let nonroot: Vec<usize> = vis.iter().copied().filter(|&c| c != 1).collect();
        let nonkey: Vec<usize> = nonroot.iter().copied().filter(|&c| !t.is_key(c)).collect();
        match rng.below(100) {
            0..=21 => {
                // new commit on 1-2 visible parents; sometimes the first parent is a hidden commit
                let hid = t.hidden(w);
                let mut ps = vec![if !hid.is_empty() && rng.chance(1, 8) { *rng.pick(&hid) } else { *rng.pick(&vis) }];
                if rng.chance(1, 5) {
                    let q = *rng.pick(&vis);
                    let related = {
                        let anc = |a: usize, d: usize| {
                            let mut s = vec![d];
                            let mut seen = HashSet::new();
                            while let Some(x) = s.pop() {
                                if x == a { return true; }
                                if seen.insert(x) {
                                    s.extend(w.commit(x).parent_ids().iter().map(|p| w.ids[p]));
                                }
                            }
                            false
                        };
                        anc(q, ps[0]) || anc(ps[0], q)
                    };
                    if !related {
                        ps.push(q);
                    }
                }
                let empty = rng.chance(1, 4);
                let described = !empty || rng.chance(1, 2);
                t.new_commit(w, &ps, empty, described);
            }
            22..=41 => {
                // rewrite (describe / rebase -r like)
                if let Some(x) = pick_set(rng, &nonkey) {
                    let fd = t.future_descendants(w, x);
                    let new_parents = if rng.chance(1, 2) {
                        // Inside a concurrent transaction a commit only moves down onto one of its
                        // own ancestors: two sides moving commits onto each other's descendants
                        // would ask the reconciliation for a cyclic history (outside C13's domain).
                        let anc: BTreeSet<usize> = {
                            let mut seen = BTreeSet::new();
                            let mut st: Vec<usize> = w.commit(x).parent_ids().iter().map(|p| w.ids[p]).collect();
                            while let Some(c) = st.pop() {
                                if seen.insert(c) {
                                    st.extend(w.commit(c).parent_ids().iter().map(|p| w.ids[p]));
                                }
                            }
                            seen
                        };
                        let cands: Vec<usize> = vis.iter().copied()
                            .filter(|c| !fd.contains(c) && !t.is_key(*c) && (!concurrent || anc.contains(c)))
                            .collect();
                        pick_set(rng, &cands).map(|p| vec![p])
                    } else {
                        None
                    };
                    let _ = t.rewrite(w, x, new_parents.as_deref());
                }
            }
            42..=53 => {
                if let Some(x) = pick_set(rng, &nonkey) {
                    t.abandon(w, x);
                }
            }
            54..=58 => {
                if let Some(x) = pick_set(rng, &nonkey) {
                    let _ = t.divergent(w, x);
                }
            }
            59..=70 => {
                let name = *rng.pick(&BOOKMARKS);
                match rng.below(10) {
                    0 => t.set_bookmark(w, name, &[0]),
                    1 if nonroot.len() >= 2 => {
                        let a = *rng.pick(&nonroot);
                        let b = *rng.pick(&nonroot);
                        let base = if rng.chance(1, 2) { 0 } else { *rng.pick(&vis) };
                        if a != b {
                            t.set_bookmark(w, name, &[a, base, b]);
                        }
                    }
                    _ => {
                        if let Some(c) = pick_set(rng, &nonroot) {
                            t.set_bookmark(w, name, &[c]);
                        }
                    }
                }
            }
            71..=78 => {
                let ws = *rng.pick(&WORKSPACES);
                if t.wc_of(w, ws).is_some_and(|x| t.is_key(x)) {
                    continue; // leaving a commit with a pending record: rebase first (as every jj command does)
                }
                if let Some(c) = pick_set(rng, &nonkey) {
                    t.edit(w, ws, c)?;
                }
            }
            79..=86 => {
                let ws = *rng.pick(&WORKSPACES);
                if t.wc_of(w, ws).is_some_and(|x| t.is_key(x)) {
                    continue;
                }
                let cands: Vec<usize> = vis.iter().copied().filter(|c| !t.is_key(*c)).collect();
                if let Some(c) = pick_set(rng, &cands) {
                    t.check_out(w, ws, c)?;
                }
            }
            87..=88 => {
                let ws = *rng.pick(&WORKSPACES);
                if t.wc_of(w, ws).is_some_and(|x| t.is_key(x)) {
                    continue;
                }
                t.remove_workspace(w, ws)?;
            }
            _ => {
                if !t.map.is_empty() {
                    let empty = *rng.pick(&["keep", "keep", "newly", "all"]);
                    t.rebase(w, out, empty, rng.chance(1, 3))?;
                }
            }
        }
    }
    if !t.map.is_empty() {
        let empty = *rng.pick(&["keep", "keep", "keep", "newly", "all"]);
        t.rebase(w, out, empty, rng.chance(1, 4))?;
    }
    Ok(())
}

fn walks(w: &mut World, rng: &mut Rng, out: &mut Out, repo: &Arc<ReadonlyRepo>, n: usize) {
    for _ in 0..n {
        // any commit known so far that exists at this operation: visible ones and hidden predecessors
        let vis: Vec<usize> = {
            let t = Txn::start(repo);
            t.visible(w).into_iter().collect()
        };
        let c = if rng.chance(3, 4) { *rng.pick(&vis) } else { rng.range(1, w.commits.len()) };
        // a commit created by a concurrent, not yet merged operation is unknown to this repo
        if repo.index().has_id(&w.cid(c)).block_on().unwrap_or(false) {
            emit_walk(w, out, repo, c);
        }
    }
}

fn one_tx(w: &mut World, rng: &mut Rng, out: &mut Out, base: &Arc<ReadonlyRepo>, publish: bool, n: (usize, usize), concurrent: bool)
    -> Result<Arc<ReadonlyRepo>, Aborted> {
    let mut t = Txn::start(base);
    let n = rng.range(n.0, n.1);
    random_actions(w, rng, out, &mut t, n, concurrent)?;
    t.commit(w, out, publish)
}

/// reconcile two operations with RepoLoader::merge_operations in the given order
fn merge_pair(w: &mut World, out: &mut Out, a: &Arc<ReadonlyRepo>, b: &Arc<ReadonlyRepo>, base: usize, kind: &str)
    -> Result<Arc<ReadonlyRepo>, Aborted> {
    let loader = a.loader().clone();
    let ops = vec![a.operation().clone(), b.operation().clone()];
    let n_old = w.commits.len();
    let r = catch(std::panic::AssertUnwindSafe(|| {
        loader.merge_operations(ops, None, Some("reconcile"), []).block_on().map_err(|e| e.to_string())
    }));
    let ctx = json!({"a": w.op_id(a.op_id()), "b": w.op_id(b.op_id()), "base": base});
    match r {
        Ok(Ok((repo, _))) => {
            emit_op(w, out, &repo, "merge", json!({"base": base, "kind": kind, "nold": n_old}));
            Ok(repo)
        }
        Ok(Err(e)) => Err(panic_event("merge_operations", format!("error: {e}"), ctx)),
        Err(m) => Err(panic_event("merge_operations", m, ctx)),
    }
}

fn op_ancestors(w: &World, o: usize) -> BTreeSet<usize> {
    let mut seen = BTreeSet::new();
    let mut st = vec![o];
    while let Some(x) = st.pop() {
        if seen.insert(x) {
            st.extend(w.op_parents.get(&x).into_iter().flatten().copied());
        }
    }
    seen
}

/// the closest common ancestor operation of two operations, if it is unique
/// (it names the base view the MergeOK contract refers to; it is an input of
/// the judgement, not a prediction of the result)
fn op_gca(w: &World, a: usize, b: usize) -> Option<usize> {
    let (aa, ab) = (op_ancestors(w, a), op_ancestors(w, b));
    let common: Vec<usize> = aa.intersection(&ab).copied().collect();
    let heads: Vec<usize> = common
        .iter()
        .copied()
        .filter(|&c| !common.iter().any(|&d| d != c && op_ancestors(w, d).contains(&c)))
        .collect();
    if heads.len() == 1 { Some(heads[0]) } else { None }
}

fn merge_pair_auto(w: &mut World, out: &mut Out, a: &Arc<ReadonlyRepo>, b: &Arc<ReadonlyRepo>)
    -> Result<Arc<ReadonlyRepo>, Aborted> {
    let (ia, ib) = (w.op_id(a.op_id()), w.op_id(b.op_id()));
    match op_gca(w, ia, ib) {
        Some(base) => merge_pair(w, out, a, b, base, "pair"),
        None => merge_pair(w, out, a, b, 0, "crisscross"),
    }
}

/// Reconcile three or more operation heads in ONE RepoLoader::merge_operations
/// call (the path load_at_head takes), in the given order.  To let the pair
/// contract MergeOK judge the n-way result, the same heads are first
/// reconciled pairwise (each pair judged as usual); the n-way result is then
/// logged with "self side" = the view of the last pairwise intermediate, whose
/// commits are renamed to the n-way call's own commits through the predecessor
/// records (the two calls rebase the same commits but write distinct copies).
fn reconcile_many(w: &mut World, out: &mut Out, heads: &[Arc<ReadonlyRepo>]) -> Result<Arc<ReadonlyRepo>, Aborted> {
    assert!(heads.len() >= 3);
    let mut acc = heads[0].clone();
    // commits written by the pairwise intermediates: real id -> (real predecessor ids, real parent ids)
    let mut made: Vec<(CommitId, Vec<CommitId>, Vec<CommitId>)> = vec![];
    for h in &heads[1..heads.len() - 1] {
        acc = merge_pair_auto(w, out, &acc, h)?;
        if let Some(map) = &acc.operation().store_operation().commit_predecessors {
            let mut ks: Vec<&CommitId> = map.keys().collect();
            ks.sort_by_key(|k| w.ids[*k]);
            for k in ks {
                let c = acc.store().get_commit(k).unwrap();
                made.push((k.clone(), map[k].clone(), c.parent_ids().to_vec()));
            }
        }
    }
    let last = heads.last().unwrap();
    let (iacc, ilast) = (w.op_id(acc.op_id()), w.op_id(last.op_id()));
    let base = op_gca(w, iacc, ilast);
    let loader = heads[0].loader().clone();
    let ops: Vec<_> = heads.iter().map(|h| h.operation().clone()).collect();
    let n_old = w.commits.len();
    let r = catch(std::panic::AssertUnwindSafe(|| {
        loader.merge_operations(ops, None, Some("reconcile"), []).block_on().map_err(|e| e.to_string())
    }));
    let ctx = json!({"heads": heads.iter().map(|h| w.op_id(h.op_id())).collect::<Vec<_>>()});
    let repo = match r {
        Ok(Ok((repo, _))) => repo,
        Ok(Err(e)) => return Err(panic_event("merge_operations", format!("error: {e}"), ctx)),
        Err(m) => return Err(panic_event("merge_operations", m, ctx)),
    };
    // rename the intermediates' own commits to the n-way call's copies
    let mut by_preds: std::collections::HashMap<Vec<CommitId>, CommitId> = std::collections::HashMap::new();
    let mut fresh: Vec<(CommitId, Vec<CommitId>)> = vec![];
    if let Some(map) = &repo.operation().store_operation().commit_predecessors {
        for (k, vs) in map {
            if vs.is_empty() {
                fresh.push((k.clone(), repo.store().get_commit(k).unwrap().parent_ids().to_vec()));
            } else {
                by_preds.insert(vs.clone(), k.clone());
            }
        }
    }
    let mut sigma: std::collections::HashMap<CommitId, CommitId> = std::collections::HashMap::new();
    let rename = |sigma: &std::collections::HashMap<CommitId, CommitId>, ids: &[CommitId]| -> Vec<CommitId> {
        ids.iter().map(|i| sigma.get(i).cloned().unwrap_or_else(|| i.clone())).collect()
    };
    for (c, preds, parents) in &made {
        let target = if preds.is_empty() {
            let want = rename(&sigma, parents);
            fresh.iter().find(|(_, ps)| *ps == want).map(|(k, _)| k.clone())
        } else {
            by_preds.get(&rename(&sigma, preds)).cloned()
        };
        if let Some(t) = target {
            sigma.insert(c.clone(), t);
        }
    }
    let view = acc.view();
    let mut sheads: Vec<usize> = rename(&sigma, &view.heads().iter().cloned().collect::<Vec<_>>())
        .iter().map(|c| w.id_of(repo.as_ref(), c)).collect();
    sheads.sort();
    sheads.dedup();
    let sbm: Vec<Vec<usize>> = BOOKMARKS.iter().map(|n| {
        view.get_local_bookmark(RefName::new(n)).as_merge().iter()
            .map(|t| match t {
                None => 0,
                Some(id) => { let r = rename(&sigma, std::slice::from_ref(id)); w.id_of(repo.as_ref(), &r[0]) }
            }).collect()
    }).collect();
    let swc: Vec<usize> = WORKSPACES.iter().map(|n| {
        view.get_wc_commit_id(WorkspaceName::new(n)).map_or(0, |id| {
            let r = rename(&sigma, std::slice::from_ref(id));
            w.id_of(repo.as_ref(), &r[0])
        })
    }).collect();
    let extra = match base {
        Some(b) => json!({"kind": "nway", "base": b, "other": ilast, "nold": n_old,
                          "selfview": {"heads": sheads, "bm": sbm, "wc": swc}, "via": iacc}),
        None => json!({"kind": "crisscross", "base": 0, "nold": n_old}),
    };
    emit_op(w, out, &repo, "merge", extra);
    Ok(repo)
}

/// nested forks: A -> B, A -> X -> C, X -> D (and optionally C -> E, C -> G): heads fork from
/// different points; rewrites / working-copy moves / bookmark moves happen on the newer line
fn nested_forks(w: &mut World, rng: &mut Rng, out: &mut Out, head: &Arc<ReadonlyRepo>, four: bool)
    -> Result<Arc<ReadonlyRepo>, Aborted> {
    let b = one_tx(w, rng, out, head, false, (1, 3), true)?;
    let x = one_tx(w, rng, out, head, false, (1, 4), true)?;
    let c = one_tx(w, rng, out, &x, false, (1, 4), true)?;
    let d = one_tx(w, rng, out, &x, false, (1, 3), true)?;
    let mut heads = vec![b, d];
    if four {
        let e = one_tx(w, rng, out, &c, false, (1, 3), true)?;
        let g = one_tx(w, rng, out, &c, false, (1, 3), true)?;
        heads.push(e);
        heads.push(g);
    } else {
        heads.push(c);
    }
    rng.shuffle(&mut heads);
    reconcile_many(w, out, &heads)
}

fn run_case(rng: &mut Rng, out: &mut Out, case: usize, steps: usize, thorough: bool) -> Result<(), Aborted> {
    let mut w = World::new();
    out.emit(&json!({"op":"reset","case":case}));
    // "published" cases go through Transaction::commit and load_at_head;
    // "unpublished" ones through write/leave_unpublished and merge_operations in a chosen order
    let publish = rng.chance(1, 2);
    let mut head = w.repo0();
    let mut history: Vec<Arc<ReadonlyRepo>> = vec![];
    // initial history
    {
        let mut t = Txn::start(&head);
        let a = t.new_commit(&mut w, &[1], false, true);
        let b = t.new_commit(&mut w, &[a], false, true);
        if rng.chance(1, 2) {
            t.new_commit(&mut w, &[a], false, true);
        }
        t.check_out(&mut w, "w1", b)?;
        if rng.chance(1, 2) {
            t.set_bookmark(&w, "b1", &[b]);
        }
        head = t.commit(&mut w, out, publish)?;
        history.push(head.clone());
    }
    for _ in 0..steps {
        let n_act = (1, 5);
        match rng.below(100) {
            0..=5 => {
                // a fresh transaction that does nothing but create 1-2 commits (or a merge) on top of a
                // hidden commit; falls back to an ordinary transaction when nothing is hidden yet
                let mut t = Txn::start(&head);
                let hid = t.hidden(&w);
                if hid.is_empty() {
                    random_actions(&mut w, rng, out, &mut t, 2, false)?;
                } else {
                    let h = *rng.pick(&hid);
                    let heads: Vec<usize> = head.view().heads().iter().map(|x| w.ids[x]).filter(|&x| x != 1).collect();
                    let c = match rng.below(3) {
                        0 if !heads.is_empty() => {
                            let q = *rng.pick(&heads);
                            t.new_commit(&mut w, &[h, q], rng.chance(1, 3), true)
                        }
                        _ => t.new_commit(&mut w, &[h], rng.chance(1, 3), true),
                    };
                    if rng.chance(1, 3) {
                        t.new_commit(&mut w, &[c], false, true);
                    }
                }
                head = t.commit(&mut w, out, publish)?;
            }
            6..=54 => {
                head = one_tx(&mut w, rng, out, &head, publish, n_act, false)?;
            }
            74..=79 if !publish => {
                let four = rng.chance(1, 3);
                head = nested_forks(&mut w, rng, out, &head, four)?;
            }
            55..=79 => {
                let base = w.op_id(head.op_id());
                let a = one_tx(&mut w, rng, out, &head, publish, n_act, true)?;
                walks(&mut w, rng, out, &a, 1);
                if publish {
                    std::thread::sleep(std::time::Duration::from_millis(2));
                }
                let b = one_tx(&mut w, rng, out, &head, publish, (1, 5), true)?;
                if publish {
                    let loader = head.loader().clone();
                    let n_old = w.commits.len();
                    let r = catch(std::panic::AssertUnwindSafe(|| loader.load_at_head().block_on().map_err(|e| e.to_string())));
                    head = match r {
                        Ok(Ok(repo)) => repo,
                        Ok(Err(e)) => return Err(panic_event("load_at_head", format!("error: {e}"), json!({"base": base}))),
                        Err(m) => return Err(panic_event("load_at_head", m, json!({"base": base}))),
                    };
                    emit_op(&mut w, out, &head, "merge", json!({"base": base, "kind": "pair", "nold": n_old}));
                } else if rng.chance(1, 2) {
                    head = merge_pair(&mut w, out, &a, &b, base, "pair")?;
                } else {
                    head = merge_pair(&mut w, out, &b, &a, base, "pair")?;
                }
            }
            80..=89 if !publish => {
                // three concurrent transactions, reconciled pairwise in a random order
                let base = w.op_id(head.op_id());
                let mut sides = vec![];
                for _ in 0..3 {
                    sides.push(one_tx(&mut w, rng, out, &head, false, (1, 4), true)?);
                }
                rng.shuffle(&mut sides);
                if rng.chance(1, 2) {
                    // one merge_operations call over the three heads (load_at_head's path)
                    head = reconcile_many(&mut w, out, &sides)?;
                } else {
                    let m1 = merge_pair(&mut w, out, &sides[0], &sides[1], base, "pair")?;
                    head = if rng.chance(1, 2) {
                        merge_pair(&mut w, out, &m1, &sides[2], base, "pair")?
                    } else {
                        merge_pair(&mut w, out, &sides[2], &m1, base, "pair")?
                    };
                }
            }
            90..=94 if !publish && thorough => {
                // criss-cross: both orders of one pair, one more transaction on each, reconcile those
                let base = w.op_id(head.op_id());
                let a = one_tx(&mut w, rng, out, &head, false, (1, 3), true)?;
                let b = one_tx(&mut w, rng, out, &head, false, (1, 3), true)?;
                let m1 = merge_pair(&mut w, out, &a, &b, base, "pair")?;
                let m2 = merge_pair(&mut w, out, &b, &a, base, "pair")?;
                let c = one_tx(&mut w, rng, out, &m1, false, (1, 3), true)?;
                let d = one_tx(&mut w, rng, out, &m2, false, (1, 3), true)?;
                head = merge_pair(&mut w, out, &c, &d, 0, "crisscross")?;
            }
            _ => {
                // restore an earlier operation's view (jj op restore)
                let old = rng.pick(&history).clone();
                let mut t = Txn::start(&head);
                t.tx.repo_mut().set_view(old.view().store_view().clone());
                head = t.commit(&mut w, out, publish)?;
            }
        }
        history.push(head.clone());
        walks(&mut w, rng, out, &head, 2);
    }
    Ok(())
}

/// scripted cases: the DESIGN section 7 finding (working copy at X, X rewritten
/// to Y, Y abandoned, in one transaction), on the root and on an ordinary parent
fn directed_case(out: &mut Out, case: usize, on_root: bool) -> Result<(), Aborted> {
    let mut w = World::new();
    out.emit(&json!({"op":"reset","case":case}));
    let mut t = Txn::start(&w.repo0());
    let base = if on_root { 1 } else { t.new_commit(&mut w, &[1], false, true) };
    let x = t.new_commit(&mut w, &[base], false, true);
    t.edit(&mut w, "w1", x)?;
    let head = t.commit(&mut w, out, true)?;
    let mut t = Txn::start(&head);
    let y = t.rewrite(&mut w, x, None).unwrap();
    t.abandon(&w, y);
    t.rebase(&mut w, out, "keep", false)?;
    t.commit(&mut w, out, true)?;
    Ok(())
}

/// scripted nested forks (coordinator's shape): A has K (w1 and b1 at K); X (from A) rewrites
/// K to K1; B (from A) adds U; C (from X) rewrites K1 to K2; D (from X) adds V and sets b2;
/// with `four`: E (from C) rewrites K2 to K3, G (from C) adds W on K2, heads {B, D, E, G}.
/// The heads are reconciled in one merge_operations call in the given order.
fn directed_nway(out: &mut Out, case: usize, order: &[usize], four: bool) -> Result<(), Aborted> {
    let mut w = World::new();
    out.emit(&json!({"op":"reset","case":case}));
    let mut t = Txn::start(&w.repo0());
    let k = t.new_commit(&mut w, &[1], false, true);
    t.edit(&mut w, "w1", k)?;
    t.set_bookmark(&w, "b1", &[k]);
    let a = t.commit(&mut w, out, false)?;
    let mut t = Txn::start(&a);
    let k1 = t.rewrite(&mut w, k, None).unwrap();
    let x = t.commit(&mut w, out, false)?;
    let mut t = Txn::start(&a);
    t.new_commit(&mut w, &[1], false, true);
    let b = t.commit(&mut w, out, false)?;
    let mut t = Txn::start(&x);
    let k2 = t.rewrite(&mut w, k1, None).unwrap();
    let c = t.commit(&mut w, out, false)?;
    let mut t = Txn::start(&x);
    let v = t.new_commit(&mut w, &[1], false, true);
    t.set_bookmark(&w, "b2", &[v]);
    let d = t.commit(&mut w, out, false)?;
    let mut pool = vec![b, d];
    if four {
        let mut t = Txn::start(&c);
        t.rewrite(&mut w, k2, None).unwrap();
        let e = t.commit(&mut w, out, false)?;
        let mut t = Txn::start(&c);
        t.new_commit(&mut w, &[k2], false, true);
        let g = t.commit(&mut w, out, false)?;
        pool.push(e);
        pool.push(g);
    } else {
        pool.push(c);
    }
    let heads: Vec<Arc<ReadonlyRepo>> = order.iter().map(|&i| pool[i].clone()).collect();
    let m = reconcile_many(&mut w, out, &heads)?;
    emit_walk(&mut w, out, &m, 2);
    Ok(())
}

/// scripted: root <- A <- B, B hidden by an earlier operation (abandoned, or rewritten away with
/// the rewrite then abandoned), A a recorded head; then a FRESH transaction that only creates
/// commits on top of the hidden B: `variant` 0 = one commit, 1 = two commits, 2 = a merge commit
/// with the hidden B and a visible head as parents.  The committed heads must be normalized.
fn directed_hidden_parent(out: &mut Out, case: usize, variant: usize, rewritten: bool) -> Result<(), Aborted> {
    let mut w = World::new();
    out.emit(&json!({"op":"reset","case":case}));
    let mut t = Txn::start(&w.repo0());
    let a = t.new_commit(&mut w, &[1], false, true);
    let b = t.new_commit(&mut w, &[a], false, true);
    let other = t.new_commit(&mut w, &[1], false, true);
    let r1 = t.commit(&mut w, out, true)?;
    let mut t = Txn::start(&r1);
    if rewritten {
        let b2 = t.rewrite(&mut w, b, None).unwrap();
        t.rebase(&mut w, out, "keep", false)?;
        t.abandon(&w, b2);
    } else {
        t.abandon(&w, b);
    }
    t.rebase(&mut w, out, "keep", false)?;
    let r2 = t.commit(&mut w, out, true)?;
    let mut t = Txn::start(&r2);
    match variant {
        0 => {
            t.new_commit(&mut w, &[b], false, true);
        }
        1 => {
            let c = t.new_commit(&mut w, &[b], false, true);
            t.new_commit(&mut w, &[c], true, false);
        }
        _ => {
            t.new_commit(&mut w, &[b, other], false, true);
        }
    }
    t.commit(&mut w, out, true)?;
    Ok(())
}

pub fn run(opts: &Opts) -> Result<(), String> {
    jjconf::util::quiet_panics();
    let mut out = Out::create(&opts.str("out", "repo.ndjson"))?;
    let seed = opts.u64("seed", 0);
    let n = opts.usize("n", 50);
    let steps = opts.usize("steps", 6);
    let thorough = opts.thorough();
    let mut rng = Rng(Rng::new(seed).next()); // util::Rng::new(s+1) is Rng::new(s) shifted by one draw: mix
    let mut case = 0;
    if !opts.flag("nodirected") {
        for on_root in [true, false] {
            case += 1;
            if let Err(Aborted(v)) = directed_case(&mut out, case, on_root) {
                out.emit(&v);
            }
        }
        for variant in 0..3 {
            for rewritten in [false, true] {
                case += 1;
                if let Err(Aborted(v)) = directed_hidden_parent(&mut out, case, variant, rewritten) {
                    out.emit(&v);
                }
            }
        }
        // pool = [B, D, C]: every order of the three heads; pool = [B, D, E, G]: six orders of four
        let three: [&[usize]; 6] = [&[0, 2, 1], &[0, 1, 2], &[2, 0, 1], &[2, 1, 0], &[1, 0, 2], &[1, 2, 0]];
        let four: [&[usize]; 6] = [&[0, 1, 2, 3], &[0, 3, 2, 1], &[2, 3, 1, 0], &[1, 0, 3, 2], &[3, 0, 1, 2], &[0, 2, 1, 3]];
        for (orders, is_four) in [(three, false), (four, true)] {
            for order in orders {
                case += 1;
                if let Err(Aborted(v)) = directed_nway(&mut out, case, order, is_four) {
                    out.emit(&v);
                }
            }
        }
    }
    for _ in 0..n {
        case += 1;
        if let Err(Aborted(v)) = run_case(&mut rng, &mut out, case, steps, thorough) {
            out.emit(&v);
        }
    }
    out.finish();
    Ok(())
}
