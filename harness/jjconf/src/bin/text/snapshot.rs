//! C06 recorder (library level): builds file conflicts in a real store
//! (testutils::TestRepo), materialises them as jj's check-out would, optionally
//! edits one line of the materialised file, and calls the real
//! `conflicts::update_from_content`.  Logs ids (small ints by identity of the
//! FileId, 0 = absent), per-position contents, the simplified ids, the old
//! merge_hunks, the bytes written, the bytes read back and the resulting ids.
//! Whether an edit was confined to a resolved region is decided by the
//! specification (Trace_ConflictMarkers), not here.
use std::collections::HashMap;

use jj_lib::backend::FileId;
use jj_lib::conflict_labels::ConflictLabels;
use jj_lib::conflicts::ConflictMaterializeOptions;
use jj_lib::conflicts::choose_materialized_conflict_marker_len;
use jj_lib::conflicts::extract_as_single_hunk;
use jj_lib::conflicts::materialize_merge_result_to_bytes;
use jj_lib::conflicts::update_from_content;
use jj_lib::files;
use jj_lib::merge::Merge;
use jj_lib::repo::Repo as _;
use jj_lib::store::Store;
use jjconf::util::Opts;
use jjconf::util::Out;
use jjconf::util::Rng;
use pollster::FutureExt as _;
use serde_json::Value;
use serde_json::json;
use testutils::TestRepo;
use testutils::repo_path;

use crate::common::bytes_json;
use crate::common::join_lines;
use crate::fmerge::merge_result_json;
use crate::markers::STYLES;
use crate::markers::labels_for;
use crate::markers::marker_vocab;
use crate::markers::rand_conflict;

/// FileId -> small int by identity (first occurrence), 0 = absent.
struct IdMap {
    map: HashMap<FileId, u64>,
}

impl IdMap {
    fn num(&mut self, id: &Option<FileId>) -> u64 {
        match id {
            None => 0,
            Some(id) => {
                let n = self.map.len() as u64 + 1;
                *self.map.entry(id.clone()).or_insert(n)
            }
        }
    }
}

fn read(store: &Store, id: &Option<FileId>) -> Value {
    match id {
        None => json!([-1]),
        Some(id) => bytes_json(&testutils::read_file(store, repo_path("f"), id)),
    }
}

fn split_lines(b: &[u8]) -> Vec<&[u8]> {
    b.split_inclusive(|c| *c == b'\n').collect()
}

/// A one-line edit of the materialised file (any line: markers, conflict
/// bodies and resolved text alike).
fn edit(rng: &mut Rng, mat: &[u8], terms: &[Vec<u8>]) -> (String, usize, Vec<u8>) {
    let lines = split_lines(mat);
    if lines.is_empty() {
        return ("append".into(), 0, b"E\xf0\n".to_vec());
    }
    // prefer lines that occur verbatim in every non-empty term: candidates for resolved text
    let common: Vec<usize> = (0..lines.len())
        .filter(|&i| {
            terms
                .iter()
                .all(|t| t.is_empty() || split_lines(t).contains(&lines[i]))
        })
        .collect();
    let at = if !common.is_empty() && !rng.chance(1, 4) {
        *rng.pick(&common)
    } else {
        rng.below(lines.len())
    };
    let eol: &[u8] = if lines[at].ends_with(b"\r\n") {
        b"\r\n"
    } else if lines[at].ends_with(b"\n") {
        b"\n"
    } else {
        b""
    };
    let mut fresh = b"E\xf0".to_vec();
    fresh.extend_from_slice(eol);
    let mut out: Vec<u8> = vec![];
    let kind = ["replace", "insert-before", "insert-after", "delete"][rng.below(4)];
    for (i, l) in lines.iter().enumerate() {
        if i == at {
            match kind {
                "replace" => out.extend_from_slice(&fresh),
                "insert-before" => {
                    out.extend_from_slice(b"E\xf0\n");
                    out.extend_from_slice(l);
                }
                "insert-after" => {
                    out.extend_from_slice(l);
                    if eol.is_empty() {
                        out.extend_from_slice(b"\n");
                    }
                    out.extend_from_slice(&fresh);
                }
                _ => {}
            }
        } else {
            out.extend_from_slice(l);
        }
    }
    (kind.into(), at, out)
}

pub fn record(opts: &Opts) -> Result<(), String> {
    let mut out = Out::create(&opts.str("out", "snapshot.ndjson"))?;
    let seed = opts.u64("seed", 0);
    let n = opts.usize("n", 1500);
    let mut rng = Rng::new(seed);
    let mv = marker_vocab();
    let test_repo = TestRepo::init();
    let store = test_repo.repo.store().clone();
    let path = repo_path("f");
    let merge_opts = store.merge_options().clone();
    out.emit(&json!({"op":"options","level":format!("{:?}", merge_opts.hunk_level),
                     "same_change":format!("{:?}", merge_opts.same_change)}));

    for case in 0..n {
        // 1. a conflict of 2..4 sides: pool of contents, terms drawn from it
        let n_simpl = *rng.pick(&[3usize, 3, 3, 5, 5, 7]);
        // edited cases mostly use anchored texts so that the edit can land in resolved text
        let edited = rng.chance(3, 5);
        let anchored = if edited { rng.chance(4, 5) } else { rng.chance(3, 10) };
        let mut contents: Vec<Option<Vec<u8>>> = if anchored {
            // anchored texts: a common first and last line so that resolved regions exist
            let mid = rand_conflict(&mut rng, n_simpl, &mv);
            mid.into_iter()
                .map(|m| {
                    let mut t = b"top\n".to_vec();
                    t.extend_from_slice(&m);
                    if !m.is_empty() && !m.ends_with(b"\n") {
                        t.extend_from_slice(b"\n");
                    }
                    t.extend_from_slice(&join_lines(&[b"bottom"], b"\n", true));
                    Some(t)
                })
                .collect()
        } else {
            rand_conflict(&mut rng, n_simpl, &mv).into_iter().map(Some).collect()
        };
        // absent sides
        if rng.chance(1, if edited { 10 } else { 3 }) {
            let k = rng.below(contents.len());
            contents[k] = None;
        }
        // 2. redundant pairs [.., x, x, ..] so that the stored conflict is not simplified
        let mut terms: Vec<Option<Vec<u8>>> = contents.clone();
        for _ in 0..rng.below(3) {
            if terms.len() >= 9 {
                break;
            }
            let x = if rng.chance(1, 2) { rng.pick(&contents).clone() } else { Some(b"pair\n".to_vec()) };
            let at = rng.below(terms.len() + 1);
            terms.insert(at, x.clone());
            terms.insert(at, x);
        }
        let r = std::panic::catch_unwind(std::panic::AssertUnwindSafe(|| {
            let mut idmap = IdMap { map: HashMap::new() };
            let ids: Merge<Option<FileId>> = Merge::from_vec(
                terms
                    .iter()
                    .map(|t| t.as_ref().map(|c| store.write_file(path, &mut c.as_slice()).block_on().unwrap()))
                    .collect::<Vec<_>>(),
            );
            let simp = ids.simplify();
            let old_contents = extract_as_single_hunk(&simp, &store, path).block_on().unwrap();
            let mh = files::merge_hunks(&old_contents, &merge_opts);
            let style = *rng.pick(&STYLES);
            let len = choose_materialized_conflict_marker_len(&old_contents);
            let labels = if rng.chance(1, 2) { ConflictLabels::unlabeled() } else { labels_for(simp.as_slice().len(), 1) };
            let mat = materialize_merge_result_to_bytes(
                &old_contents,
                &labels,
                &ConflictMaterializeOptions { marker_style: style.1, marker_len: None, merge: merge_opts.clone() },
            );
            let (kind, at, new) = if !edited {
                ("none".to_string(), 0, mat.to_vec())
            } else {
                let ts: Vec<Vec<u8>> = old_contents.iter().map(|c| c.to_vec()).collect();
                edit(&mut rng, &mat, &ts)
            };
            let result = update_from_content(&ids, &store, path, &new, len).block_on().unwrap();
            let ids_n: Vec<u64> = ids.iter().map(|i| idmap.num(i)).collect();
            let simp_n: Vec<u64> = simp.iter().map(|i| idmap.num(i)).collect();
            let out_n: Vec<u64> = result.iter().map(|i| idmap.num(i)).collect();
            json!({"op":"snapshot","case":case,"style":style.0,
                "ids":ids_n,"idc":ids.iter().map(|i| read(&store, i)).collect::<Vec<_>>(),
                "simp":simp_n,"nsides":simp.num_sides(),"len":len,
                "mh":merge_result_json(&mh),"mat":bytes_json(&mat),
                "edit":{"kind":kind,"line":at},"new":bytes_json(&new),
                "out":out_n,"outc":result.iter().map(|i| read(&store, i)).collect::<Vec<_>>()})
        }));
        match r {
            Ok(v) => out.emit(&v),
            Err(e) => {
                let msg = e.downcast_ref::<String>().cloned().or_else(|| e.downcast_ref::<&str>().map(|s| s.to_string())).unwrap_or_default();
                out.emit(&json!({"op":"panic","call":"snapshot","case":case,"msg":msg}));
            }
        }
    }
    out.finish();
    Ok(())
}
