//! C03 recorder: calls the real `ContentDiff` constructors / refinement and
//! logs inputs, hunk ranges (two independent runs: every ContentDiff draws a
//! fresh RandomState seed) and hunk contents.  `diff-again` recomputes the
//! ranges in a second process and adds them as `h3`.
use std::ops::Range;

use jj_lib::diff::CompareBytesExactly;
use jj_lib::diff::CompareBytesIgnoreAllWhitespace;
use jj_lib::diff::CompareBytesIgnoreWhitespaceAmount;
use jj_lib::diff::ContentDiff;
use jj_lib::diff::DiffHunkKind;
use jj_lib::diff::find_line_ranges;
use jj_lib::diff::find_nonword_ranges;
use jj_lib::diff::find_word_ranges;
use jjconf::util::Opts;
use jjconf::util::Out;
use jjconf::util::Rng;
use jjconf::util::catch;
use jjconf::util::read_ndjson;
use serde_json::Value;
use serde_json::json;

use crate::common::all_strings;
use crate::common::bytes_json;
use crate::common::json_bytes;
use crate::common::rand_text;
use crate::common::texts_json;

#[derive(Clone, Copy, PartialEq, Eq, Debug)]
pub enum Tok {
    Line,
    Word,
    Nonword,
    None,
}

#[derive(Clone, Copy, PartialEq, Eq, Debug)]
pub enum Cmp {
    Exact,
    AllWs,
    WsAmount,
}

impl Tok {
    fn name(self) -> &'static str {
        match self {
            Tok::Line => "line",
            Tok::Word => "word",
            Tok::Nonword => "nonword",
            Tok::None => "none",
        }
    }
    fn parse(s: &str) -> Tok {
        match s {
            "line" => Tok::Line,
            "word" => Tok::Word,
            "nonword" => Tok::Nonword,
            _ => Tok::None,
        }
    }
    fn f(self) -> fn(&[u8]) -> Vec<Range<usize>> {
        match self {
            Tok::Line => find_line_ranges,
            Tok::Word => find_word_ranges,
            Tok::Nonword => find_nonword_ranges,
            Tok::None => |_| vec![],
        }
    }
}

impl Cmp {
    fn name(self) -> &'static str {
        match self {
            Cmp::Exact => "exact",
            Cmp::AllWs => "allws",
            Cmp::WsAmount => "wsamount",
        }
    }
    fn parse(s: &str) -> Cmp {
        match s {
            "allws" => Cmp::AllWs,
            "wsamount" => Cmp::WsAmount,
            _ => Cmp::Exact,
        }
    }
}

const ALL_TOK: [Tok; 4] = [Tok::Line, Tok::Word, Tok::Nonword, Tok::None];
const ALL_CMP: [Cmp; 3] = [Cmp::Exact, Cmp::AllWs, Cmp::WsAmount];

/// The real code under test.
pub fn build<'a>(api: &str, inputs: &'a [Vec<u8>], stages: &[(Tok, Cmp)]) -> ContentDiff<'a> {
    match api {
        "by_line" => return ContentDiff::by_line(inputs),
        "by_word" => return ContentDiff::by_word(inputs),
        "unrefined" => return ContentDiff::unrefined(inputs),
        _ => {}
    }
    let (t0, c0) = stages[0];
    let mut d = match c0 {
        Cmp::Exact => ContentDiff::for_tokenizer(inputs, t0.f(), CompareBytesExactly),
        Cmp::AllWs => ContentDiff::for_tokenizer(inputs, t0.f(), CompareBytesIgnoreAllWhitespace),
        Cmp::WsAmount => ContentDiff::for_tokenizer(inputs, t0.f(), CompareBytesIgnoreWhitespaceAmount),
    };
    for &(t, c) in &stages[1..] {
        match c {
            Cmp::Exact => d.refine_changed_regions(t.f(), CompareBytesExactly),
            Cmp::AllWs => d.refine_changed_regions(t.f(), CompareBytesIgnoreAllWhitespace),
            Cmp::WsAmount => d.refine_changed_regions(t.f(), CompareBytesIgnoreWhitespaceAmount),
        }
    }
    d
}

fn kind(k: DiffHunkKind) -> u8 {
    match k {
        DiffHunkKind::Matching => 1,
        DiffHunkKind::Different => 0,
    }
}

pub fn ranges_json(d: &ContentDiff) -> Value {
    Value::Array(
        d.hunk_ranges()
            .map(|h| {
                json!({"k": kind(h.kind),
                       "r": h.ranges.iter().map(|r| json!([r.start, r.end])).collect::<Vec<_>>()})
            })
            .collect(),
    )
}

pub fn contents_json(d: &ContentDiff) -> Value {
    Value::Array(
        d.hunks()
            .map(|h| {
                json!({"k": kind(h.kind),
                       "c": h.contents.iter().map(|c| bytes_json(c)).collect::<Vec<_>>()})
            })
            .collect(),
    )
}

fn stages_json(stages: &[(Tok, Cmp)]) -> Value {
    Value::Array(stages.iter().map(|(t, c)| json!([t.name(), c.name()])).collect())
}

/// The weakest comparison of the chain judges Matching hunks
/// (exact-equal => wsamount-equal => allws-equal; MC_Diff InvCmp).
fn weakest(stages: &[(Tok, Cmp)]) -> Cmp {
    if stages.iter().any(|s| s.1 == Cmp::AllWs) {
        Cmp::AllWs
    } else if stages.iter().any(|s| s.1 == Cmp::WsAmount) {
        Cmp::WsAmount
    } else {
        Cmp::Exact
    }
}

fn api_stages(api: &str) -> Vec<(Tok, Cmp)> {
    match api {
        "by_line" => vec![(Tok::Line, Cmp::Exact)],
        "by_word" => vec![(Tok::Word, Cmp::Exact), (Tok::Nonword, Cmp::Exact)],
        _ => vec![(Tok::None, Cmp::Exact)],
    }
}

fn rec(api: &str, inputs: &[Vec<u8>], stages: &[(Tok, Cmp)]) -> Value {
    let stages: Vec<(Tok, Cmp)> = if api == "for_tokenizer" { stages.to_vec() } else { api_stages(api) };
    let r = catch(|| {
        let d1 = build(api, inputs, &stages);
        let d2 = build(api, inputs, &stages);
        (ranges_json(&d1), ranges_json(&d2), contents_json(&d1))
    });
    match r {
        Ok((h1, h2, c1)) => json!({"op":"diff","api":api,"stages":stages_json(&stages),
            "cmp":weakest(&stages).name(),"inp":texts_json(inputs),"h1":h1,"h2":h2,"c1":c1}),
        Err(e) => json!({"op":"panic","call":api,"stages":stages_json(&stages),"inp":texts_json(inputs),"msg":e}),
    }
}


// ---------------------------------------------------------------------------
// LARGE-INPUT class.  Line-structured inputs of 2..4 blocks of 600..2000 unique
// lines each; the other inputs permute / duplicate / delete whole blocks and
// carry a few line edits.  The inputs are a pure function of the case seed, so
// the record does not carry them (the second process regenerates them); per
// hunk it carries kind, ranges and a 31-bit FNV-1a hash of every slice.

fn fnv31(b: &[u8]) -> u32 {
    let mut h: u32 = 0x811c_9dc5;
    for &x in b {
        h ^= x as u32;
        h = h.wrapping_mul(0x0100_0193);
    }
    h & 0x7fff_ffff
}

pub struct BigCase {
    pub api: &'static str,
    pub stages: Vec<(Tok, Cmp)>,
    pub inputs: Vec<Vec<u8>>,
    pub shape: Value,
}

pub fn big_case(case_seed: u64, lo: usize, hi: usize) -> BigCase {
    let mut rng = Rng::new(case_seed ^ 0xB16_D1FF);
    let n_blocks = rng.range(2, 4);
    // half of the cases use blocks of one size: which block a reordering keeps matched is then
    // decided by tie-breaking alone, the most seed-sensitive situation
    let one_size = rng.range(lo, hi);
    let same = rng.chance(1, 2);
    let sizes: Vec<usize> = (0..n_blocks).map(|_| if same { one_size } else { rng.range(lo, hi) }).collect();
    let n_inputs = rng.range(2, 3);
    let line = |b: usize, i: usize| -> Vec<u8> {
        // unique per (block, index); some lines have several words
        if i % 7 == 3 { format!("b{b} l{i} x\n").into_bytes() } else { format!("b{b}l{i}\n").into_bytes() }
    };
    let mut orders: Vec<Vec<usize>> = vec![(0..n_blocks).collect()];
    for _ in 1..n_inputs {
        let mut o: Vec<usize> = (0..n_blocks).collect();
        match rng.below(5) {
            0 => o.rotate_left(1),                       // A+B -> B+A
            1 => rng.shuffle(&mut o),
            2 => {
                o.rotate_left(1);
                let d = *rng.pick(&o);
                o.push(d);                               // a duplicated block
            }
            3 => {
                rng.shuffle(&mut o);
                if o.len() > 2 {
                    o.pop();                             // a deleted block
                }
            }
            _ => {
                o.reverse();
            }
        }
        orders.push(o);
    }
    let mut edits = vec![];
    let mut inputs: Vec<Vec<u8>> = vec![];
    for (k, o) in orders.iter().enumerate() {
        let mut lines: Vec<Vec<u8>> = vec![];
        for &b in o {
            for i in 0..sizes[b] {
                lines.push(line(b, i));
            }
        }
        // a few line edits in the non-base inputs
        let n_edits = if k == 0 { 0 } else { rng.below(6) };
        for e in 0..n_edits {
            let at = rng.below(lines.len());
            match rng.below(3) {
                0 => {
                    lines.remove(at);
                }
                1 => lines.insert(at, format!("new{k}_{e}\n").into_bytes()),
                _ => lines[at] = format!("chg{k}_{e}\n").into_bytes(),
            }
        }
        edits.push(n_edits);
        let mut text: Vec<u8> = lines.concat();
        if rng.chance(1, 6) {
            text.pop(); // missing final newline
        }
        inputs.push(text);
    }
    let (api, stages) = if rng.chance(1, 3) {
        ("for_tokenizer", vec![(Tok::Word, Cmp::Exact), (Tok::Nonword, Cmp::Exact)])
    } else if rng.chance(1, 2) {
        ("by_line", vec![(Tok::Line, Cmp::Exact)])
    } else {
        ("for_tokenizer", vec![(Tok::Line, Cmp::Exact)])
    };
    BigCase { api, stages, inputs, shape: json!({"blocks": sizes, "orders": orders, "edits": edits}) }
}

/// kind, ranges and slice hashes of every hunk
pub fn compact_json(d: &ContentDiff) -> Value {
    Value::Array(
        iter_zip(d)
            .map(|(k, ranges, hashes)| json!({"k": k, "r": ranges, "x": hashes}))
            .collect(),
    )
}

fn iter_zip<'a>(d: &'a ContentDiff) -> impl Iterator<Item = (u8, Vec<[usize; 2]>, Vec<u32>)> + 'a {
    std::iter::zip(d.hunk_ranges(), d.hunks()).map(|(r, h)| {
        (
            kind(r.kind),
            r.ranges.iter().map(|x| [x.start, x.end]).collect(),
            h.contents.iter().map(|c| fnv31(c)).collect(),
        )
    })
}

fn big_rec(case_seed: u64, lo: usize, hi: usize) -> Value {
    let c = big_case(case_seed, lo, hi);
    let r = catch(|| {
        let d1 = build(c.api, &c.inputs, &c.stages);
        let d2 = build(c.api, &c.inputs, &c.stages);
        (compact_json(&d1), compact_json(&d2))
    });
    let lens: Vec<usize> = c.inputs.iter().map(|i| i.len()).collect();
    match r {
        Ok((h1, h2)) => json!({"op":"bigdiff","case":case_seed,"lo":lo,"hi":hi,"api":c.api,
            "stages":stages_json(&c.stages),"shape":c.shape,"lens":lens,"h1":h1,"h2":h2}),
        Err(e) => json!({"op":"panic","call":"bigdiff","case":case_seed,"msg":e}),
    }
}

const LINE_VOCAB: [&[u8]; 6] = [b"a", b"b", b"a b", b"", b"x  y", b"\ta"];

pub fn record(opts: &Opts) -> Result<(), String> {
    let mut out = Out::create(&opts.str("out", "diff.ndjson"))?;
    let seed = opts.u64("seed", 0);
    let thorough = opts.thorough();
    let n_random = opts.usize("random", 1500);
    let max_lines = opts.usize("maxlines", if thorough { 40 } else { 12 });
    let mut rng = Rng::new(seed);

    // A. exhaustive core: every 1-, 2-tuple of strings of length <= 3 and every
    //    3-tuple of strings of length <= 2 over {a, b, SP, LF}; line and word level.
    let s3 = all_strings(b"ab \n", 3);
    // 3-tuples: quick uses the 3-letter alphabet {a, SP, LF}, thorough all four
    let s2 = all_strings(if thorough { b"ab \n" } else { b"a \n" }, 2);
    let mut n_a = 0usize;
    for a in &s3 {
        for api in ["by_line", "by_word", "unrefined"] {
            out.emit(&rec(api, &[a.clone()], &[]));
            n_a += 1;
        }
    }
    for a in &s3 {
        for b in &s3 {
            for api in ["by_line", "by_word"] {
                out.emit(&rec(api, &[a.clone(), b.clone()], &[]));
                n_a += 1;
            }
        }
    }
    for a in &s2 {
        for b in &s2 {
            for c in &s2 {
                for api in ["by_line", "by_word"] {
                    out.emit(&rec(api, &[a.clone(), b.clone(), c.clone()], &[]));
                    n_a += 1;
                }
            }
        }
    }
    out.emit(&json!({"op":"domain","kind":"A","count":n_a,"s3":s3.len(),"s2":s2.len()}));

    // B. every tokenizer x comparison (12 single stages) and the two refinement
    //    chains x 3 comparisons on every pair of strings over {a, SP, TAB, LF}
    //    (thorough: + CR and NUL, length <= 3 for the single stages).
    let alpha_b: &[u8] = if thorough { b"a \t\n\r\0" } else { b"a \t\n" };
    let sb = all_strings(alpha_b, 2);
    let mut n_b = 0usize;
    for a in &sb {
        for b in &sb {
            let inputs = [a.clone(), b.clone()];
            for t in ALL_TOK {
                for c in ALL_CMP {
                    out.emit(&rec("for_tokenizer", &inputs, &[(t, c)]));
                    n_b += 1;
                }
            }
            for c in ALL_CMP {
                out.emit(&rec("for_tokenizer", &inputs, &[(Tok::Word, c), (Tok::Nonword, c)]));
                out.emit(&rec("for_tokenizer", &inputs, &[(Tok::Line, c), (Tok::Word, c), (Tok::Nonword, c)]));
                n_b += 2;
            }
        }
    }
    if thorough {
        let s3b = all_strings(b"a \n\r", 3);
        for a in &s3b {
            for b in &s3b {
                let inputs = [a.clone(), b.clone()];
                for (t, c) in [(Tok::Line, Cmp::AllWs), (Tok::Line, Cmp::WsAmount), (Tok::Word, Cmp::WsAmount), (Tok::Nonword, Cmp::AllWs)] {
                    out.emit(&rec("for_tokenizer", &inputs, &[(t, c)]));
                    n_b += 1;
                }
            }
        }
    }
    out.emit(&json!({"op":"domain","kind":"B","count":n_b,"sb":sb.len()}));

    // C. random line-structured texts with repeated lines, CRLF, missing final
    //    newline, empty inputs; 1..4 inputs; random api / stage chain.
    for _ in 0..n_random {
        let n_inputs = rng.range(1, 4);
        let crlf = rng.chance(1, 4);
        let vocab_n = rng.range(2, LINE_VOCAB.len());
        let inputs: Vec<Vec<u8>> = (0..n_inputs)
            .map(|_| {
                if rng.chance(1, 12) {
                    vec![]
                } else {
                    let use_crlf = crlf && !rng.chance(1, 5);
                    rand_text(&mut rng, &LINE_VOCAB[..vocab_n], max_lines, use_crlf)
                }
            })
            .collect();
        match rng.below(6) {
            0 => out.emit(&rec("by_line", &inputs, &[])),
            1 => out.emit(&rec("by_word", &inputs, &[])),
            2 => out.emit(&rec("unrefined", &inputs, &[])),
            3 => {
                let c = *rng.pick(&ALL_CMP);
                out.emit(&rec("for_tokenizer", &inputs, &[(Tok::Line, c), (Tok::Word, c), (Tok::Nonword, c)]));
            }
            _ => {
                let t = *rng.pick(&ALL_TOK);
                let c = *rng.pick(&ALL_CMP);
                out.emit(&rec("for_tokenizer", &inputs, &[(t, c)]));
            }
        }
    }
    // D. LARGE-INPUT class (hash-compact records)
    let n_big = opts.usize("big", 30);
    let (lo, hi) = (opts.usize("biglo", 600), opts.usize("bighi", 2000));
    for i in 0..n_big {
        out.emit(&big_rec(seed.wrapping_mul(1_000_003).wrapping_add(i as u64), lo, hi));
    }
    out.emit(&json!({"op":"domain","kind":"big","count":n_big,"lo":lo,"hi":hi}));
    out.finish();
    Ok(())
}

/// Second process: recompute the ranges of every record and add them as `h3`.
pub fn again(opts: &Opts) -> Result<(), String> {
    let recs = read_ndjson(&opts.str("inp", "diff.ndjson"))?;
    let mut out = Out::create(&opts.str("out", "diff2.ndjson"))?;
    for mut r in recs {
        if r["op"] == "diff" {
            let api = r["api"].as_str().unwrap_or("").to_string();
            let inputs: Vec<Vec<u8>> = r["inp"].as_array().unwrap().iter().map(json_bytes).collect();
            let stages: Vec<(Tok, Cmp)> = r["stages"]
                .as_array()
                .unwrap()
                .iter()
                .map(|s| (Tok::parse(s[0].as_str().unwrap()), Cmp::parse(s[1].as_str().unwrap())))
                .collect();
            match catch(|| ranges_json(&build(&api, &inputs, &stages))) {
                Ok(h3) => r["h3"] = h3,
                Err(e) => r = json!({"op":"panic","call":"again","inp":texts_json(&inputs),"msg":e}),
            }
        }
        if r["op"] == "bigdiff" {
            let c = big_case(r["case"].as_u64().unwrap(), r["lo"].as_u64().unwrap() as usize, r["hi"].as_u64().unwrap() as usize);
            match catch(|| compact_json(&build(c.api, &c.inputs, &c.stages))) {
                Ok(h3) => r["h3"] = h3,
                Err(e) => r = json!({"op":"panic","call":"bigdiff-again","case":r["case"],"msg":e}),
            }
        }
        out.emit(&r);
    }
    out.finish();
    Ok(())
}
