//! C03 recorder: calls the real `ContentDiff` constructors / refinement and
//! logs inputs, hunk ranges (two independent runs: every ContentDiff draws a
//! fresh RandomState seed) and hunk contents.  `diff-again` recomputes the
//! ranges in a second process and adds them as `h3`.
use std::ops::Range;

use jj_lib::diff::CompareBytesExactly;
use jj_lib::diff::CompareBytesIgnoreAllWhitespace;
use jj_lib::diff::CompareBytesIgnoreWhitespaceAmount;
use jj_lib::diff::ContentDiff;
use jj_lib::diff::DiffHunkKind;
use jj_lib::diff::find_line_ranges;
use jj_lib::diff::find_nonword_ranges;
use jj_lib::diff::find_word_ranges;
use jjconf::util::Opts;
use jjconf::util::Out;
use jjconf::util::Rng;
use jjconf::util::catch;
use jjconf::util::read_ndjson;
use serde_json::Value;
use serde_json::json;

use crate::common::all_strings;
use crate::common::bytes_json;
use crate::common::json_bytes;
use crate::common::rand_text;
use crate::common::texts_json;

#[derive(Clone, Copy, PartialEq, Eq, Debug)]
pub enum Tok {
    Line,
    Word,
    Nonword,
    None,
}

#[derive(Clone, Copy, PartialEq, Eq, Debug)]
pub enum Cmp {
    Exact,
    AllWs,
    WsAmount,
}

impl Tok {
    fn name(self) -> &'static str {
        match self {
            Tok::Line => "line",
            Tok::Word => "word",
            Tok::Nonword => "nonword",
            Tok::None => "none",
        }
    }
    fn parse(s: &str) -> Tok {
        match s {
            "line" => Tok::Line,
            "word" => Tok::Word,
            "nonword" => Tok::Nonword,
            _ => Tok::None,
        }
    }
    fn f(self) -> fn(&[u8]) -> Vec<Range<usize>> {
        match self {
            Tok::Line => find_line_ranges,
            Tok::Word => find_word_ranges,
            Tok::Nonword => find_nonword_ranges,
            Tok::None => |_| vec![],
        }
    }
}

impl Cmp {
    fn name(self) -> &'static str {
        match self {
            Cmp::Exact => "exact",
            Cmp::AllWs => "allws",
            Cmp::WsAmount => "wsamount",
        }
    }
    fn parse(s: &str) -> Cmp {
        match s {
            "allws" => Cmp::AllWs,
            "wsamount" => Cmp::WsAmount,
            _ => Cmp::Exact,
        }
    }
}

const ALL_TOK: [Tok; 4] = [Tok::Line, Tok::Word, Tok::Nonword, Tok::None];
const ALL_CMP: [Cmp; 3] = [Cmp::Exact, Cmp::AllWs, Cmp::WsAmount];

/// The real code under test.
pub fn build<'a>(api: &str, inputs: &'a [Vec<u8>], stages: &[(Tok, Cmp)]) -> ContentDiff<'a> {
    match api {
        "by_line" => return ContentDiff::by_line(inputs),
        "by_word" => return ContentDiff::by_word(inputs),
        "unrefined" => return ContentDiff::unrefined(inputs),
        _ => {}
    }
    let (t0, c0) = stages[0];
    let mut d = match c0 {
        Cmp::Exact => ContentDiff::for_tokenizer(inputs, t0.f(), CompareBytesExactly),
        Cmp::AllWs => ContentDiff::for_tokenizer(inputs, t0.f(), CompareBytesIgnoreAllWhitespace),
        Cmp::WsAmount => ContentDiff::for_tokenizer(inputs, t0.f(), CompareBytesIgnoreWhitespaceAmount),
    };
    for &(t, c) in &stages[1..] {
        match c {
            Cmp::Exact => d.refine_changed_regions(t.f(), CompareBytesExactly),
            Cmp::AllWs => d.refine_changed_regions(t.f(), CompareBytesIgnoreAllWhitespace),
            Cmp::WsAmount => d.refine_changed_regions(t.f(), CompareBytesIgnoreWhitespaceAmount),
        }
    }
    d
}

fn kind(k: DiffHunkKind) -> u8 {
    match k {
        DiffHunkKind::Matching => 1,
        DiffHunkKind::Different => 0,
    }
}

pub fn ranges_json(d: &ContentDiff) -> Value {
    Value::Array(
        d.hunk_ranges()
            .map(|h| {
                json!({"k": kind(h.kind),
                       "r": h.ranges.iter().map(|r| json!([r.start, r.end])).collect::<Vec<_>>()})
            })
            .collect(),
    )
}

pub fn contents_json(d: &ContentDiff) -> Value {
    Value::Array(
        d.hunks()
            .map(|h| {
                json!({"k": kind(h.kind),
                       "c": h.contents.iter().map(|c| bytes_json(c)).collect::<Vec<_>>()})
            })
            .collect(),
    )
}

fn stages_json(stages: &[(Tok, Cmp)]) -> Value {
    Value::Array(stages.iter().map(|(t, c)| json!([t.name(), c.name()])).collect())
}

/// The weakest comparison of the chain judges Matching hunks
/// (exact-equal => wsamount-equal => allws-equal; MC_Diff InvCmp).
fn weakest(stages: &[(Tok, Cmp)]) -> Cmp {
    if stages.iter().any(|s| s.1 == Cmp::AllWs) {
        Cmp::AllWs
    } else if stages.iter().any(|s| s.1 == Cmp::WsAmount) {
        Cmp::WsAmount
    } else {
        Cmp::Exact
    }
}

fn api_stages(api: &str) -> Vec<(Tok, Cmp)> {
    match api {
        "by_line" => vec![(Tok::Line, Cmp::Exact)],
        "by_word" => vec![(Tok::Word, Cmp::Exact), (Tok::Nonword, Cmp::Exact)],
        _ => vec![(Tok::None, Cmp::Exact)],
    }
}

fn rec(api: &str, inputs: &[Vec<u8>], stages: &[(Tok, Cmp)]) -> Value {
    let stages: Vec<(Tok, Cmp)> = if api == "for_tokenizer" { stages.to_vec() } else { api_stages(api) };
    let r = catch(|| {
        let d1 = build(api, inputs, &stages);
        let d2 = build(api, inputs, &stages);
        (ranges_json(&d1), ranges_json(&d2), contents_json(&d1))
    });
    match r {
        Ok((h1, h2, c1)) => json!({"op":"diff","api":api,"stages":stages_json(&stages),
            "cmp":weakest(&stages).name(),"inp":texts_json(inputs),"h1":h1,"h2":h2,"c1":c1}),
        Err(e) => json!({"op":"panic","call":api,"stages":stages_json(&stages),"inp":texts_json(inputs),"msg":e}),
    }
}

const LINE_VOCAB: [&[u8]; 6] = [b"a", b"b", b"a b", b"", b"x  y", b"\ta"];

pub fn record(opts: &Opts) -> Result<(), String> {
    let mut out = Out::create(&opts.str("out", "diff.ndjson"))?;
    let seed = opts.u64("seed", 0);
    let thorough = opts.thorough();
    let n_random = opts.usize("random", 1500);
    let max_lines = opts.usize("maxlines", if thorough { 40 } else { 12 });
    let mut rng = Rng::new(seed);

    // A. exhaustive core: every 1-, 2-tuple of strings of length <= 3 and every
    //    3-tuple of strings of length <= 2 over {a, b, SP, LF}; line and word level.
    let s3 = all_strings(b"ab \n", 3);
    // 3-tuples: quick uses the 3-letter alphabet {a, SP, LF}, thorough all four
    let s2 = all_strings(if thorough { b"ab \n" } else { b"a \n" }, 2);
    let mut n_a = 0usize;
    for a in &s3 {
        for api in ["by_line", "by_word", "unrefined"] {
            out.emit(&rec(api, &[a.clone()], &[]));
            n_a += 1;
        }
    }
    for a in &s3 {
        for b in &s3 {
            for api in ["by_line", "by_word"] {
                out.emit(&rec(api, &[a.clone(), b.clone()], &[]));
                n_a += 1;
            }
        }
    }
    for a in &s2 {
        for b in &s2 {
            for c in &s2 {
                for api in ["by_line", "by_word"] {
                    out.emit(&rec(api, &[a.clone(), b.clone(), c.clone()], &[]));
                    n_a += 1;
                }
            }
        }
    }
    out.emit(&json!({"op":"domain","kind":"A","count":n_a,"s3":s3.len(),"s2":s2.len()}));

    // B. every tokenizer x comparison (12 single stages) and the two refinement
    //    chains x 3 comparisons on every pair of strings over {a, SP, TAB, LF}
    //    (thorough: + CR and NUL, length <= 3 for the single stages).
    let alpha_b: &[u8] = if thorough { b"a \t\n\r\0" } else { b"a \t\n" };
    let sb = all_strings(alpha_b, 2);
    let mut n_b = 0usize;
    for a in &sb {
        for b in &sb {
            let inputs = [a.clone(), b.clone()];
            for t in ALL_TOK {
                for c in ALL_CMP {
                    out.emit(&rec("for_tokenizer", &inputs, &[(t, c)]));
                    n_b += 1;
                }
            }
            for c in ALL_CMP {
                out.emit(&rec("for_tokenizer", &inputs, &[(Tok::Word, c), (Tok::Nonword, c)]));
                out.emit(&rec("for_tokenizer", &inputs, &[(Tok::Line, c), (Tok::Word, c), (Tok::Nonword, c)]));
                n_b += 2;
            }
        }
    }
    if thorough {
        let s3b = all_strings(b"a \n\r", 3);
        for a in &s3b {
            for b in &s3b {
                let inputs = [a.clone(), b.clone()];
                for (t, c) in [(Tok::Line, Cmp::AllWs), (Tok::Line, Cmp::WsAmount), (Tok::Word, Cmp::WsAmount), (Tok::Nonword, Cmp::AllWs)] {
                    out.emit(&rec("for_tokenizer", &inputs, &[(t, c)]));
                    n_b += 1;
                }
            }
        }
    }
    out.emit(&json!({"op":"domain","kind":"B","count":n_b,"sb":sb.len()}));

    // C. random line-structured texts with repeated lines, CRLF, missing final
    //    newline, empty inputs; 1..4 inputs; random api / stage chain.
    for _ in 0..n_random {
        let n_inputs = rng.range(1, 4);
        let crlf = rng.chance(1, 4);
        let vocab_n = rng.range(2, LINE_VOCAB.len());
        let inputs: Vec<Vec<u8>> = (0..n_inputs)
            .map(|_| {
                if rng.chance(1, 12) {
                    vec![]
                } else {
                    let use_crlf = crlf && !rng.chance(1, 5);
                    rand_text(&mut rng, &LINE_VOCAB[..vocab_n], max_lines, use_crlf)
                }
            })
            .collect();
        match rng.below(6) {
            0 => out.emit(&rec("by_line", &inputs, &[])),
            1 => out.emit(&rec("by_word", &inputs, &[])),
            2 => out.emit(&rec("unrefined", &inputs, &[])),
            3 => {
                let c = *rng.pick(&ALL_CMP);
                out.emit(&rec("for_tokenizer", &inputs, &[(Tok::Line, c), (Tok::Word, c), (Tok::Nonword, c)]));
            }
            _ => {
                let t = *rng.pick(&ALL_TOK);
                let c = *rng.pick(&ALL_CMP);
                out.emit(&rec("for_tokenizer", &inputs, &[(t, c)]));
            }
        }
    }
    out.finish();
    Ok(())
}

/// Second process: recompute the ranges of every record and add them as `h3`.
pub fn again(opts: &Opts) -> Result<(), String> {
    let recs = read_ndjson(&opts.str("inp", "diff.ndjson"))?;
    let mut out = Out::create(&opts.str("out", "diff2.ndjson"))?;
    for mut r in recs {
        if r["op"] == "diff" {
            let api = r["api"].as_str().unwrap_or("").to_string();
            let inputs: Vec<Vec<u8>> = r["inp"].as_array().unwrap().iter().map(json_bytes).collect();
            let stages: Vec<(Tok, Cmp)> = r["stages"]
                .as_array()
                .unwrap()
                .iter()
                .map(|s| (Tok::parse(s[0].as_str().unwrap()), Cmp::parse(s[1].as_str().unwrap())))
                .collect();
            match catch(|| ranges_json(&build(&api, &inputs, &stages))) {
                Ok(h3) => r["h3"] = h3,
                Err(e) => r = json!({"op":"panic","call":"again","inp":texts_json(&inputs),"msg":e}),
            }
        }
        out.emit(&r);
    }
    out.finish();
    Ok(())
}
