//! C04 recorder: calls the real `files::merge_hunks`, `files::merge`,
//! `files::try_merge` and logs the inputs, the options, the line-level hunk
//! partition `ContentDiff::by_line(removes ++ adds)` (and the word-level
//! partition of every Different line hunk) and the three results.
use bstr::BString;
use jj_lib::diff::ContentDiff;
use jj_lib::diff::DiffHunkKind;
use jj_lib::files;
use jj_lib::files::FileMergeHunkLevel;
use jj_lib::files::MergeResult;
use jj_lib::merge::Merge;
use jj_lib::merge::SameChange;
use jj_lib::tree_merge::MergeOptions;
use jjconf::util::Opts;
use jjconf::util::Out;
use jjconf::util::Rng;
use jjconf::util::catch;
use serde_json::Value;
use serde_json::json;

use crate::common::bytes_json;
use crate::common::join_lines;
use crate::common::mutate_lines;
use crate::common::texts_json;
use crate::diff::ranges_json;

pub fn merge_result_json(r: &MergeResult) -> Value {
    match r {
        MergeResult::Resolved(c) => json!({"res":true,"content":bytes_json(c),"hunks":[]}),
        MergeResult::Conflict(hs) => json!({"res":false,"content":[],
            "hunks": hs.iter().map(|h| texts_json(h.as_slice())).collect::<Vec<_>>()}),
    }
}

/// removes ++ adds: the order in which jj hands the terms to the diff
fn diff_inputs(m: &Merge<Vec<u8>>) -> Vec<Vec<u8>> {
    m.removes().chain(m.adds()).cloned().collect()
}

fn rec(terms: &[Vec<u8>], word: bool, accept: bool, extra: Option<(&str, Value)>) -> Value {
    let m = Merge::from_vec(terms.to_vec());
    let options = MergeOptions {
        hunk_level: if word { FileMergeHunkLevel::Word } else { FileMergeHunkLevel::Line },
        same_change: if accept { SameChange::Accept } else { SameChange::Keep },
    };
    let r = catch(|| {
        let mh = files::merge_hunks(&m, &options);
        let mm: Merge<BString> = files::merge(&m, &options);
        let t = files::try_merge(&m, &options);
        // the partition the merge is made over (recomputed: ContentDiff is deterministic, C03)
        let di = diff_inputs(&m);
        let d = ContentDiff::by_line(&di);
        let lh = ranges_json(&d);
        let mut wh = vec![];
        for h in d.hunks() {
            if word && h.kind == DiffHunkKind::Different {
                // the hunk's slices are already in removes ++ adds order
                let w = ContentDiff::by_word(h.contents.iter().copied());
                wh.push(ranges_json(&w));
            } else {
                wh.push(json!([]));
            }
        }
        (merge_result_json(&mh), texts_json(mm.as_slice()), t, lh, wh)
    });
    match r {
        Ok((mh, mm, t, lh, wh)) => {
            let mut v = json!({"op":"fmerge","terms":texts_json(terms),
                "level": if word {"word"} else {"line"}, "accept":accept,
                "lh":lh,"wh":wh,"mh":mh,"m":mm,
                "t":{"some":t.is_some(),"content":bytes_json(&t.unwrap_or_default())}});
            if let Some((k, x)) = extra {
                v[k] = x;
            }
            v
        }
        Err(e) => json!({"op":"panic","call":"fmerge","terms":texts_json(terms),"word":word,"accept":accept,"msg":e}),
    }
}

fn slot_file(vals: &[usize]) -> Vec<u8> {
    let mut out = vec![];
    out.extend_from_slice(format!("A{}\n", 0).as_bytes());
    for (i, v) in vals.iter().enumerate() {
        out.extend_from_slice(format!("s{}v{}\n", i + 1, v).as_bytes());
        out.extend_from_slice(format!("A{}\n", i + 1).as_bytes());
    }
    out
}

fn emit_all_settings(out: &mut Out, terms: &[Vec<u8>], extra: Option<(&str, Value)>) -> usize {
    let mut n = 0;
    for word in [false, true] {
        for accept in [false, true] {
            out.emit(&rec(terms, word, accept, extra.clone()));
            n += 1;
        }
    }
    n
}

const VOCAB: [&[u8]; 8] = [b"a", b"b", b"c", b"a b c", b"a x c", b"a b y", b"", b"z z"];

fn rand_terms(rng: &mut Rng, n_terms: usize) -> Vec<Vec<u8>> {
    let kind = rng.below(10);
    if kind == 0 {
        // binary-ish contents
        let alpha = [0u8, 255, 10, 97, 13];
        return (0..n_terms)
            .map(|_| (0..rng.range(0, 6)).map(|_| *rng.pick(&alpha)).collect())
            .collect();
    }
    if kind <= 3 {
        return wordy_terms(rng, n_terms);
    }
    let vocab_n = rng.range(3, VOCAB.len());
    let vocab = &VOCAB[..vocab_n];
    let base: Vec<&[u8]> = (0..rng.range(0, 5)).map(|_| *rng.pick(vocab)).collect();
    let crlf = rng.chance(1, 8);
    let eol: &[u8] = if crlf { b"\r\n" } else { b"\n" };
    let mut terms: Vec<Vec<u8>> = vec![];
    for k in 0..n_terms {
        if k > 0 && rng.chance(1, 4) {
            // repeat an earlier term so that sides and bases cancel
            let j = rng.below(k);
            terms.push(terms[j].clone());
            continue;
        }
        if rng.chance(1, 20) {
            terms.push(vec![]);
            continue;
        }
        let lines = if rng.chance(1, 3) { base.clone() } else { mutate_lines(rng, &base, vocab, 8) };
        terms.push(join_lines(&lines, eol, !rng.chance(1, 8)));
    }
    terms
}

/// Lines of three words; every term changes a few single words of the base,
/// so that word-level merging resolves what line-level merging cannot.
fn wordy_terms(rng: &mut Rng, n_terms: usize) -> Vec<Vec<u8>> {
    let words: [&[u8]; 5] = [b"a", b"b", b"c", b"x", b"yy"];
    let n_lines = rng.range(1, 3);
    let base: Vec<Vec<&[u8]>> = (0..n_lines).map(|_| (0..3).map(|_| *rng.pick(&words[..3])).collect()).collect();
    let render = |ls: &Vec<Vec<&[u8]>>| -> Vec<u8> {
        let mut out = vec![];
        for l in ls {
            out.extend_from_slice(&l.join(&b" "[..]));
            out.push(b'\n');
        }
        out
    };
    let mut terms: Vec<Vec<u8>> = vec![];
    for k in 0..n_terms {
        if k > 0 && rng.chance(1, 5) {
            let j = rng.below(k);
            terms.push(terms[j].clone());
            continue;
        }
        let mut t = base.clone();
        for _ in 0..rng.below(3) {
            let l = rng.below(n_lines);
            let w = rng.below(3);
            t[l][w] = *rng.pick(&words);
        }
        terms.push(render(&t));
    }
    terms
}

pub fn record(opts: &Opts) -> Result<(), String> {
    let mut out = Out::create(&opts.str("out", "fmerge.ndjson"))?;
    let seed = opts.u64("seed", 0);
    let n_random = opts.usize("random", 3000);
    let n_slot_sample = opts.usize("slotsample", 300);
    let mut rng = Rng::new(seed);

    // A. all 3-way slot-file merges, 2 slots x 3 values (729), every setting
    let mut n_a = 0;
    let vecs: Vec<[usize; 2]> = (1..=3).flat_map(|a| (1..=3).map(move |b| [a, b])).collect();
    for a in &vecs {
        for b in &vecs {
            for c in &vecs {
                let terms = [slot_file(a), slot_file(b), slot_file(c)];
                let slots = json!([a, b, c]);
                n_a += emit_all_settings(&mut out, &terms, Some(("slots", slots)));
            }
        }
    }
    out.emit(&json!({"op":"domain","kind":"slot3","count":n_a}));
    // B. sampled 5- and 7-way slot files with 2 or 3 slots
    for _ in 0..n_slot_sample {
        let n_terms = if rng.chance(2, 3) { 5 } else { 7 };
        let k = rng.range(2, 3);
        let v: Vec<Vec<usize>> = (0..n_terms).map(|_| (0..k).map(|_| rng.range(1, 3)).collect()).collect();
        let terms: Vec<Vec<u8>> = v.iter().map(|x| slot_file(x)).collect();
        out.emit(&rec(&terms, rng.chance(1, 2), rng.chance(1, 2), Some(("slots", json!(v)))));
    }
    // C. random line-structured and binary contents, 1/3/5/7 terms
    for _ in 0..n_random {
        let n_terms = *rng.pick(&[1usize, 3, 3, 3, 3, 5, 5, 7]);
        let terms = rand_terms(&mut rng, n_terms);
        out.emit(&rec(&terms, rng.chance(1, 2), rng.chance(1, 2), None));
    }
    out.finish();
    Ok(())
}
