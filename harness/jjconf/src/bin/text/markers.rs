//! C05 recorder: materialises conflicts with the real
//! `materialize_merge_result_to_bytes`, parses the bytes back with the real
//! `parse_conflict` and logs terms, options, `files::merge_hunks`, the
//! materialised bytes and the parse result.  TLC (Trace_ConflictMarkers)
//! decodes the bytes with the specification's parser and judges.
use jj_lib::conflict_labels::ConflictLabels;
use jj_lib::conflicts::ConflictMarkerStyle;
use jj_lib::conflicts::ConflictMaterializeOptions;
use jj_lib::conflicts::choose_materialized_conflict_marker_len;
use jj_lib::conflicts::materialize_merge_result_to_bytes;
use jj_lib::conflicts::parse_conflict;
use jj_lib::files;
use jj_lib::files::FileMergeHunkLevel;
use jj_lib::merge::Merge;
use jj_lib::merge::SameChange;
use jj_lib::tree_merge::MergeOptions;
use jjconf::util::Opts;
use jjconf::util::Out;
use jjconf::util::Rng;
use jjconf::util::catch;
use serde_json::Value;
use serde_json::json;

use crate::common::bytes_json;
use crate::common::join_lines;
use crate::common::mutate_lines;
use crate::common::texts_json;
use crate::fmerge::merge_result_json;

pub const STYLES: [(&str, ConflictMarkerStyle); 4] = [
    ("diff", ConflictMarkerStyle::Diff),
    ("diffexp", ConflictMarkerStyle::DiffExperimental),
    ("snapshot", ConflictMarkerStyle::Snapshot),
    ("git", ConflictMarkerStyle::Git),
];

pub fn parsed_json(p: &Option<Vec<Merge<bstr::BString>>>) -> Value {
    match p {
        None => json!({"some":false,"hunks":[]}),
        Some(hs) => json!({"some":true,
            "hunks": hs.iter().map(|h| texts_json(h.as_slice())).collect::<Vec<_>>()}),
    }
}

pub fn labels_for(n_terms: usize, kind: usize) -> ConflictLabels {
    match kind {
        0 => ConflictLabels::unlabeled(),
        1 => ConflictLabels::from_vec((0..n_terms).map(|i| format!("L{i}")).collect()),
        // labels that look like markers or contain odd bytes (never a newline)
        _ => ConflictLabels::from_vec(
            (0..n_terms)
                .map(|i| if i % 2 == 0 { format!("<<<<<<< s{i} \"q\"") } else { "+++++++ \\ %".to_string() })
                .collect(),
        ),
    }
}

#[allow(clippy::too_many_arguments)]
fn rec(
    terms: &[Vec<u8>],
    style: (&str, ConflictMarkerStyle),
    word: bool,
    accept: bool,
    label_kind: usize,
    extra_len: Option<usize>,
) -> Value {
    let m = Merge::from_vec(terms.to_vec());
    let merge = MergeOptions {
        hunk_level: if word { FileMergeHunkLevel::Word } else { FileMergeHunkLevel::Line },
        same_change: if accept { SameChange::Accept } else { SameChange::Keep },
    };
    let r = catch(|| {
        let auto = choose_materialized_conflict_marker_len(&m);
        // an explicit length is never shorter than the automatic one
        let marker_len = extra_len.map(|x| auto + x);
        let options = ConflictMaterializeOptions {
            marker_style: style.1,
            marker_len,
            merge: merge.clone(),
        };
        let labels = labels_for(terms.len(), label_kind);
        let mh = files::merge_hunks(&m, &merge);
        let mat = materialize_merge_result_to_bytes(&m, &labels, &options);
        let len = marker_len.unwrap_or(auto);
        let parsed = parse_conflict(&mat, m.num_sides(), len);
        (merge_result_json(&mh), bytes_json(&mat), len, auto, parsed_json(&parsed))
    });
    match r {
        Ok((mh, mat, len, auto, parsed)) => json!({"op":"roundtrip","style":style.0,"terms":texts_json(terms),
            "level": if word {"word"} else {"line"},"accept":accept,"labels":label_kind,
            "nsides":(terms.len() + 1) / 2,"len":len,"autolen":auto,
            "mh":mh,"mat":mat,"parsed":parsed}),
        Err(e) => json!({"op":"panic","call":"roundtrip","style":style.0,"terms":texts_json(terms),"msg":e}),
    }
}

/// Lines (without terminator) that look like markers, diff prefixes, etc.
pub fn marker_vocab() -> Vec<Vec<u8>> {
    let mut v: Vec<Vec<u8>> = vec![];
    for ch in b"<>+-%\\|=" {
        for len in [6usize, 7, 8, 11] {
            v.push(vec![*ch; len]);
            let mut w = vec![*ch; len];
            w.extend_from_slice(b" x");
            v.push(w);
        }
        // not a marker: followed by a non-space byte
        let mut w = vec![*ch; 7];
        w.push(b'x');
        v.push(w);
    }
    for l in [&b"+a"[..], b"-a", b" a", b"+", b"-", b" ", b"a\r", b"\r", b"<<<<<<<\r", b"-------\t", b"%", b"\\"] {
        v.push(l.to_vec());
    }
    v
}

const PLAIN: [&[u8]; 6] = [b"a", b"b", b"c", b"", b"a b", b"d"];

pub fn rand_conflict(rng: &mut Rng, n_terms: usize, mv: &[Vec<u8>]) -> Vec<Vec<u8>> {
    // a small per-case vocabulary: plain lines plus a few look-alikes
    let mut vocab: Vec<&[u8]> = vec![];
    for _ in 0..rng.range(2, 3) {
        vocab.push(*rng.pick(&PLAIN));
    }
    for _ in 0..rng.range(0, 3) {
        vocab.push(rng.pick(mv).as_slice());
    }
    let base: Vec<&[u8]> = (0..rng.range(0, 4)).map(|_| *rng.pick(&vocab)).collect();
    let crlf = rng.chance(1, 4);
    let mut terms: Vec<Vec<u8>> = vec![];
    for k in 0..n_terms {
        if k > 0 && rng.chance(1, 10) {
            let j = rng.below(k);
            let t: Vec<u8> = terms[j].clone();
            terms.push(t);
            continue;
        }
        if rng.chance(1, 10) {
            terms.push(vec![]);
            continue;
        }
        let lines = mutate_lines(rng, &base, &vocab, 5);
        let eol: &[u8] = if crlf && !rng.chance(1, 6) { b"\r\n" } else { b"\n" };
        terms.push(join_lines(&lines, eol, !rng.chance(1, 5)));
    }
    terms
}

pub fn record(opts: &Opts) -> Result<(), String> {
    let mut out = Out::create(&opts.str("out", "markers.ndjson"))?;
    let seed = opts.u64("seed", 0);
    let n_random = opts.usize("random", 4000);
    let mut rng = Rng::new(seed);
    let mv = marker_vocab();

    // A. exhaustive core: every 3-term conflict whose terms are 0..1 lines from a
    //    5-line vocabulary, terminated or not, in every style.
    let core: [&[u8]; 5] = [b"a", b"+++++++", b"------ x", b">>>>>>>", b""];
    let mut texts: Vec<Vec<u8>> = vec![vec![]];
    for l in core {
        texts.push(join_lines(&[l], b"\n", true));
        if !l.is_empty() {
            texts.push(join_lines(&[l], b"\n", false));
        }
    }
    let mut n_a = 0;
    for a in &texts {
        for b in &texts {
            for c in &texts {
                for style in STYLES {
                    out.emit(&rec(&[a.clone(), b.clone(), c.clone()], style, false, true, 0, None));
                    n_a += 1;
                }
            }
        }
    }
    out.emit(&json!({"op":"domain","kind":"core3","count":n_a,"texts":texts.len()}));

    // B. random conflicts of 2..4 sides with look-alikes, CR bytes, empty sides,
    //    missing final newline, LF/CRLF, all styles, labels, explicit lengths.
    for _ in 0..n_random {
        let n_terms = *rng.pick(&[3usize, 3, 3, 5, 5, 7]);
        let terms = rand_conflict(&mut rng, n_terms, &mv);
        let style = *rng.pick(&STYLES);
        let extra = if rng.chance(1, 6) { Some(rng.range(0, 3)) } else { None };
        out.emit(&rec(&terms, style, rng.chance(1, 4), !rng.chance(1, 4), rng.below(3), extra));
    }
    out.finish();
    Ok(())
}
