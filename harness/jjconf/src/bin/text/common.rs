//! Helpers shared by the text recorders: byte strings <-> JSON int arrays,
//! enumeration of small string domains, random line-structured texts.
use jjconf::util::Rng;
use serde_json::Value;
use serde_json::json;

pub fn bytes_json(b: &[u8]) -> Value {
    Value::Array(b.iter().map(|&x| json!(x)).collect())
}

pub fn texts_json<T: AsRef<[u8]>>(ts: &[T]) -> Value {
    Value::Array(ts.iter().map(|t| bytes_json(t.as_ref())).collect())
}

pub fn json_bytes(v: &Value) -> Vec<u8> {
    v.as_array()
        .map(|a| a.iter().map(|x| x.as_u64().unwrap_or(0) as u8).collect())
        .unwrap_or_default()
}

/// All strings over `alphabet` with length <= max_len, shortest first.
pub fn all_strings(alphabet: &[u8], max_len: usize) -> Vec<Vec<u8>> {
    let mut out = vec![vec![]];
    let mut layer: Vec<Vec<u8>> = vec![vec![]];
    for _ in 0..max_len {
        let mut next = vec![];
        for s in &layer {
            for &c in alphabet {
                let mut t = s.clone();
                t.push(c);
                next.push(t);
            }
        }
        out.extend(next.iter().cloned());
        layer = next;
    }
    out
}

/// A text of `n` lines drawn from `vocab` (lines WITHOUT terminator), with the
/// given line terminator; `final_eol` false drops the last terminator.
pub fn join_lines(lines: &[&[u8]], eol: &[u8], final_eol: bool) -> Vec<u8> {
    let mut out = vec![];
    for (i, l) in lines.iter().enumerate() {
        out.extend_from_slice(l);
        if i + 1 < lines.len() || final_eol {
            out.extend_from_slice(eol);
        }
    }
    out
}

/// Random text: 0..=max_lines lines from vocab, LF or CRLF, maybe no final EOL.
pub fn rand_text(rng: &mut Rng, vocab: &[&[u8]], max_lines: usize, crlf: bool) -> Vec<u8> {
    let n = rng.range(0, max_lines);
    let lines: Vec<&[u8]> = (0..n).map(|_| *rng.pick(vocab)).collect();
    let eol: &[u8] = if crlf { b"\r\n" } else { b"\n" };
    let final_eol = !rng.chance(1, 5);
    join_lines(&lines, eol, final_eol)
}

/// A random variation of `base` (a list of lines): each line kept, replaced,
/// deleted, or followed by an inserted line.
pub fn mutate_lines<'a>(rng: &mut Rng, base: &[&'a [u8]], vocab: &[&'a [u8]], rate: usize) -> Vec<&'a [u8]> {
    let mut out = vec![];
    for l in base {
        match rng.below(rate.max(4)) {
            0 => out.push(*rng.pick(vocab)),
            1 => {}
            2 => {
                out.push(*l);
                out.push(*rng.pick(vocab));
            }
            _ => out.push(*l),
        }
    }
    if rng.chance(1, 6) {
        out.push(*rng.pick(vocab));
    }
    out
}
