//! Shared helpers: option parsing, deterministic RNG, ndjson output.

use std::collections::HashMap;
use std::fs::File;
use std::io::BufRead;
use std::io::BufReader;
use std::io::BufWriter;
use std::io::Write;

use serde_json::Value;

pub struct Opts {
    map: HashMap<String, String>,
}

impl Opts {
    pub fn parse(args: &[String]) -> Self {
        let mut map = HashMap::new();
        let mut i = 0;
        while i < args.len() {
            let k = args[i].trim_start_matches("--").to_string();
            if i + 1 < args.len() && !args[i + 1].starts_with("--") {
                map.insert(k, args[i + 1].clone());
                i += 2;
            } else {
                map.insert(k, "true".to_string());
                i += 1;
            }
        }
        Self { map }
    }
    pub fn get(&self, k: &str) -> Option<&str> {
        self.map.get(k).map(|s| s.as_str())
    }
    pub fn str(&self, k: &str, d: &str) -> String {
        self.get(k).unwrap_or(d).to_string()
    }
    pub fn u64(&self, k: &str, d: u64) -> u64 {
        self.get(k).and_then(|s| s.parse().ok()).unwrap_or(d)
    }
    pub fn usize(&self, k: &str, d: usize) -> usize {
        self.u64(k, d as u64) as usize
    }
    pub fn flag(&self, k: &str) -> bool {
        self.get(k).is_some_and(|v| v != "false" && v != "0")
    }
    pub fn thorough(&self) -> bool {
        self.get("tier") == Some("thorough")
    }
}

/// splitmix64 — deterministic, dependency-free.
#[derive(Clone)]
pub struct Rng(pub u64);

impl Rng {
    pub fn new(seed: u64) -> Self {
        // scramble the seed so that consecutive seeds give unrelated streams
        let mut z = seed ^ 0x1234_5678_9ABC_DEF1;
        z = (z ^ (z >> 30)).wrapping_mul(0xBF58_476D_1CE4_E5B9);
        z = (z ^ (z >> 27)).wrapping_mul(0x94D0_49BB_1331_11EB);
        z ^= z >> 31;
        z = z.wrapping_mul(0xD6E8_FEB8_6659_FD93) ^ (z >> 32);
        Self(z)
    }
    pub fn next(&mut self) -> u64 {
        self.0 = self.0.wrapping_add(0x9E37_79B9_7F4A_7C15);
        let mut z = self.0;
        z = (z ^ (z >> 30)).wrapping_mul(0xBF58_476D_1CE4_E5B9);
        z = (z ^ (z >> 27)).wrapping_mul(0x94D0_49BB_1331_11EB);
        z ^ (z >> 31)
    }
    /// uniform in 0..n (n > 0)
    pub fn below(&mut self, n: usize) -> usize {
        (self.next() % n as u64) as usize
    }
    /// uniform in lo..=hi
    pub fn range(&mut self, lo: usize, hi: usize) -> usize {
        lo + self.below(hi - lo + 1)
    }
    pub fn chance(&mut self, num: usize, den: usize) -> bool {
        self.below(den) < num
    }
    pub fn pick<'a, T>(&mut self, xs: &'a [T]) -> &'a T {
        &xs[self.below(xs.len())]
    }
    pub fn shuffle<T>(&mut self, xs: &mut [T]) {
        for i in (1..xs.len()).rev() {
            let j = self.below(i + 1);
            xs.swap(i, j);
        }
    }
}

pub struct Out {
    w: BufWriter<File>,
    pub n: usize,
}

impl Out {
    pub fn create(path: &str) -> Result<Self, String> {
        let f = File::create(path).map_err(|e| format!("create {path}: {e}"))?;
        Ok(Self {
            w: BufWriter::new(f),
            n: 0,
        })
    }
    pub fn emit(&mut self, v: &Value) {
        serde_json::to_writer(&mut self.w, v).unwrap();
        self.w.write_all(b"\n").unwrap();
        self.n += 1;
    }
    pub fn finish(mut self) -> usize {
        self.w.flush().unwrap();
        self.n
    }
}

pub fn read_ndjson(path: &str) -> Result<Vec<Value>, String> {
    let f = File::open(path).map_err(|e| format!("open {path}: {e}"))?;
    let mut out = vec![];
    for line in BufReader::new(f).lines() {
        let line = line.map_err(|e| e.to_string())?;
        if line.trim().is_empty() {
            continue;
        }
        out.push(serde_json::from_str(&line).map_err(|e| format!("{path}: {e}: {line}"))?);
    }
    Ok(out)
}

/// Run `f`, turning a panic into Err(message).  A panic in code under test is
/// data, not a harness failure.
pub fn catch<T>(f: impl FnOnce() -> T + std::panic::UnwindSafe) -> Result<T, String> {
    std::panic::catch_unwind(f).map_err(|e| {
        if let Some(s) = e.downcast_ref::<&str>() {
            s.to_string()
        } else if let Some(s) = e.downcast_ref::<String>() {
            s.clone()
        } else {
            "panic".to_string()
        }
    })
}

pub fn quiet_panics() {
    std::panic::set_hook(Box::new(|_| {}));
}
