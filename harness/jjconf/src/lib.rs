//! jjconf: conformance harness binding the TLA+ specifications under
//! /verif/spec to the real jj code.  Shared helpers live here; one binary per
//! specification group lives under src/bin/.
pub mod util;
