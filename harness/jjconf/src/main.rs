//! jjconf: conformance harness binding the TLA+ specifications under
//! /verif/spec to the real jj-lib code.  One sub-module per spec module.
mod util;
mod m_merge;

use std::process::ExitCode;

fn main() -> ExitCode {
    let args: Vec<String> = std::env::args().collect();
    if args.len() < 3 {
        eprintln!("usage: jjconf <module> <mode> [--key value]...");
        return ExitCode::from(2);
    }
    let opts = util::Opts::parse(&args[3..]);
    let r = match args[1].as_str() {
        "merge" => m_merge::run(&args[2], &opts),
        m => Err(format!("unknown module {m}")),
    };
    match r {
        Ok(()) => ExitCode::SUCCESS,
        Err(e) => {
            eprintln!("jjconf: {e}");
            ExitCode::from(2)
        }
    }
}
