"""Registry of claimed properties: collected from checks/cNN.py modules.

Each check module defines
  META  = dict(category, engine, technique, text, note, design)   (MANIFEST fields)
  READY = True      once the check passes on the unchanged tree (only then is it registered)
  LEVEL = META["category"]
  run(ctx)
"""
import glob
import importlib
import os

HERE = os.path.dirname(os.path.abspath(__file__))


def collect():
    out = {}
    for p in sorted(glob.glob(os.path.join(HERE, "c[0-9][0-9].py"))):
        name = os.path.basename(p)[:-3]
        try:
            mod = importlib.import_module("checks." + name)
        except Exception as e:  # a builder may be mid-edit; not registered then
            print("registry: skipping %s (%s)" % (name, e))
            continue
        if getattr(mod, "READY", False) and hasattr(mod, "META"):
            out[name.upper()] = mod.META
    return out


# reasons for properties not claimed (yet); keyed by id
NOT_APPLICABLE = {}
DEFAULT_NA = "not claimed yet: the specification module for this property (DESIGN.md section 4) is not built in this revision"
