"""Registry of claimed properties: the single source for MANIFEST.json (tools/mkmanifest.py)."""

# id -> dict(category, text, note, technique, engine, design)
CHECKS = {
    "C01": dict(
        category="model_checking",
        engine="MergeAlgebra",
        technique="TLA+ spec MergeAlgebra: TLC exhaustive on the model + TLC-judged traces of the real Merge<T>",
        text=("TLC proves the transcribed simplify/flatten/write-back meet the C01 contracts for every merge over 3 "
              "values up to 7 terms (4 values/9 terms thorough) and every 3x3 nesting; the real Merge<T> is then run "
              "on the same exhaustive domain plus random merges up to 31 terms and every call is judged by TLC against "
              "the same contracts (trace validation, I->S). Exhaustive within the bounds, sampled beyond."),
        note="Values are integers (Merge<T> is generic in T: Eq). Trusted: TLC, the 60-line recorder in harness/jjconf/src/m_merge.rs.",
        design="4 C01"),
    "C02": dict(
        category="model_checking",
        engine="MergeAlgebra",
        technique="TLA+ spec MergeAlgebra: TLC exhaustive on the model + TLC-judged traces of the real trivial_merge",
        text=("TLC proves fast path = counting path and the cancellation contract TrivialOK on the model; the real "
              "trivial_merge / resolve_trivial are run on every merge over 3 values up to 7 terms x {Keep, Accept} "
              "(4/9 thorough) plus random up to 31 terms, each call judged by TLC."),
        note="Statement leaves one zone open (same-change on, one surviving side, >=2 distinct surviving bases): either answer accepted there.",
        design="4 C02"),
}

# reasons for properties not claimed (yet)
NOT_APPLICABLE = {}
DEFAULT_NA = "not claimed yet: the specification module for this property (DESIGN.md section 4) is not built in this revision"
