"""C39 Log graph edges preserve ancestry (spec/GraphLog, oracle spec/Dag)."""
import json
import random

import vf
from checks.c18 import scratch_env

META = dict(
    category='model_checking',
    engine='GraphLog',
    technique='TLA+ spec GraphLog: contract on the (node, edges) stream stated with Dag operators; TLC enumerates all small '
              'DAGs x all shown subsets, proves the reference edges meet the contract, and judges the real graph iterator',
    text='Contract: the nodes are exactly the shown set, newest first with every commit before its ancestors; a direct edge '
         'targets a shown parent; an indirect edge targets a shown commit reached through at least one hidden commit and only '
         'hidden commits; a missing edge targets a hidden ancestor; every ancestry relation between shown commits is implied by '
         'the emitted edges; with transitive-edge skipping no indirect edge is implied by the commit\'s other edges. TLC checks '
         'the transcribed reference (jj\'s RevsetGraphWalk, both modes) against the contract on every DAG with <= 4 commits '
         '(5 thorough, octopus merges) x every non-empty subset including the root, and prints every (DAG, subset) pair. All of '
         'them (a seeded sample of the 5-commit ones in thorough) are built as real commits and walked by '
         'DefaultReadonlyIndexRevset::iter_graph_impl(false/true) and by the public Revset::stream_graph; TLC judges every '
         'stream. Seeded random DAGs up to 14 commits with sparse subsets, several index segments, reload from disk and 50-66 '
         'padding commits (positions across the 64-bit bit-set boundary) are judged the same way.',
    note='Minimality of the skipped edge set beyond indirect edges (jj keeps transitive direct edges when a commit has no '
         'indirect edge) and duplicate identical edges are reported as divergence_from_reference, not as violations: the '
         'property statement does not forbid them. The revset is Commits(S) (any set of commits); the rendering layer '
         '(graph.rs TopoGroupedGraph, renderer) is not covered.',
    design='4 C39',
)
READY = True
LEVEL = META["category"]


def nontrivial(r):
    if r.get("op") != "graph":
        return False
    return len(r["s"]) >= 3 and any(e[1] == "i" for node in r["out"] for e in node[1])


def run(ctx):
    rnd = random.Random(ctx.seed)
    cfg = ctx.q("MC_GraphLog", "MC_GraphLog_thorough")
    cases, r = vf.tlc_generate("MC_GraphLog", cfg, workers=ctx.q(8, 12), timeout=ctx.q(900, 3000), seed=ctx.seed)
    ctx.add_mc(r, cfg)
    vf.tlc_mc("MC_GraphLog", "MC_GraphLog_neg_walk_through", expect_violation="InvReferenceMeetsContract", workers=4, timeout=600)
    ctx.cov["tlc_runs"].append({"run": "negative:walk_through", "outcome": "fails as required (InvReferenceMeetsContract)"})
    n_enum = len(cases)
    k = ctx.q(2500, 6000)
    small = [c for c in cases if len(c["par"]) <= 4]
    big = [c for c in cases if len(c["par"]) > 4]
    picked = small + (big if len(big) <= k else rnd.sample(big, k))
    by = {}
    for c in picked:
        by.setdefault(json.dumps(c["par"]), []).append(c["s"])
    grouped = [{"par": json.loads(p), "sets": v} for p, v in by.items()]
    cf = ctx.path("cases.json")
    with open(cf, "w") as f:
        json.dump(grouped, f)
    env = scratch_env()
    t1 = ctx.path("replay.ndjson")
    ctx.harness("index", ["graph-replay", "--in", cf, "--out", t1, "--seed", ctx.seed], env=env, timeout=1800)
    t2 = ctx.path("random.ndjson")
    ctx.harness("index", ["graph-random", "--out", t2, "--seed", ctx.seed, "--n", ctx.q(40, 150), "--sets", 10,
                          "--maxn", 14], env=env, timeout=1800)
    sig = lambda rec, verdict: "%s:skip=%s" % (verdict, rec.get("skip"))
    j1 = vf.judge_records(ctx, "Trace_GraphLog", t1, sig_fn=sig, nontrivial_fn=nontrivial, chunk=ctx.q(1700, 4000))
    j2 = vf.judge_records(ctx, "Trace_GraphLog", t2, sig_fn=sig, nontrivial_fn=nontrivial, chunk=ctx.q(400, 1500))
    if j1["judged"] != 3 * len(picked):
        raise vf.ToolError("replayed %d streams, expected %d" % (j1["judged"], 3 * len(picked)))
    recs = [x for x in j1["records"] + j2["records"] if x.get("op") == "graph"]
    kinds = {"d": 0, "i": 0, "m": 0}
    for x in recs:
        for node in x["out"]:
            for e in node[1]:
                kinds[e[1]] += 1
    ctx.cov["enumerated_cases"] = n_enum
    ctx.cov["enumerated_cases_replayed"] = len(picked)
    ctx.cov["exhaustive"] = len(picked) == n_enum
    ctx.cov["edges_judged"] = kinds
    ctx.cov["padded_cases"] = len({x["case"] for x in recs if x.get("pad", 0) > 0})
    ctx.cov["rule"] = ("record = one (node, edges) stream of the real graph iterator for (DAG, shown set, skip mode, api); "
                       "non-trivial = >= 3 shown commits and at least one indirect edge; distinct by full record")
    for x in recs:
        if nontrivial(x) and len(x["par"]) >= 5:
            ctx.sample({k2: x[k2] for k2 in ("par", "s", "skip", "api", "out")}, 4)
    ctx.assumptions += ["the shown set is evaluated from Commits(S); commit ids are compared modulo renaming",
                        "TLC evaluates spec/GraphLog.tla and spec/Dag.tla correctly"]
