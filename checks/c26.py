"""C26 Edits after a command finished are always detected (spec/WcMtime)."""
import json

import vf
from checks import wcutil

META = dict(
    category='model_checking',
    engine='WcMtime',
    technique='TLA+ spec WcMtime: TLC exhaustive over a coarse clock + every generated behaviour replayed on a real LocalWorkingCopy with forced mtimes, judged by TLC',
    text='TLC checks on the WcMtime state machine (check-out write, state save, same-size user edit, "restore an older copy" (same size, mtime 1 or 2 ticks older than the recorded one), snapshot stat, clock tick, one action each) that with the guard "clean iff same (type, mtime, size) and recorded mtime < state-file mtime" every edit made while no jj command runs is seen by the next snapshot, for every interleaving up to 3 (thorough 5) coarse ticks, 2 check-outs, 2 (3) snapshots, 3 (4) edits; the "<=" guard is a negative config that fails. Then TLC enumerates every complete behaviour of two smaller instances (up to 2 ticks x 1 snapshot command x 2 edits, and 1 tick x 3 snapshot commands x 2 edits, i.e. with one or two no-change snapshots interposed between the state save and the edits) and each one is replayed on a real working copy: real check-out and state save, same-size edits, the mtimes of the edited file and of tree_state forced to the model ticks at 1 ms, 1 s and 2 s granularity, the workspace reloaded from disk for every snapshot; TLC re-runs the model along each behaviour and judges what the real snapshot recorded against the contract SeenOK.',
    note='One tracked file (the decision is per file against one own_mtime). Edits made while a jj command is running carry no requirement (the model tracks them as noreq). Timestamps are forced after the fact with File::set_modified (tree_state only right after a real rewrite, detected by inode; a finish() that does not rewrite it leaves whatever mtime jj left); the recorded check-out mtime is the real one and anchors the tick scale. Trusted: TLC, the 150-line replayer harness/jjconf/src/bin/wc/mtime.rs.',
    design='4 C26',
)
READY = True
LEVEL = META["category"]


def nontrivial(r):
    # a behaviour with an edit in the same tick as the state save or the recorded mtime
    if r.get("op") != "mtime":
        return False
    acts = [s["a"] for s in r["steps"]]
    return any(a in acts for a in ("UserEdit", "RestoreOld1", "RestoreOld2"))


def sig(r, verdict):
    if verdict != "SeenOK":
        return verdict
    # structural shape: was some edit stamped with the same tick as a state save?
    saves = {s["t"] for s in r["steps"] if s["a"] == "SaveState"}
    edits = {s["t"] for s in r["steps"] if s["a"] == "UserEdit"}
    return "SeenOK:edit-tick-equals-save-tick" if saves & edits else "SeenOK:edit-tick-differs-from-save-tick"


def run(ctx):
    cfg = ctx.q("MC_WcMtime", "MC_WcMtime_thorough")
    r = vf.tlc_mc("MC_WcMtime", cfg, workers=ctx.q(6, 12), timeout=ctx.q(300, 1500))
    ctx.add_mc(r, cfg)
    vf.tlc_mc("MC_WcMtime", "MC_WcMtime_neg_le", expect_violation="Inv_Seen", workers=4)
    ctx.cov["tlc_runs"].append({"run": "negative:le-guard", "outcome": "fails as required (Inv_Seen)"})
    vf.tlc_mc("MC_WcMtime", "MC_WcMtime_neg_clean_le", expect_violation="Inv_Seen", workers=4)
    ctx.cov["tlc_runs"].append({"run": "negative:clean-le (mtime <= recorded counts as clean)", "outcome": "fails as required (Inv_Seen)"})
    # S->I: every complete behaviour of the generator instance
    # two generator instances: more clock ticks with one snapshot command, and up to three
    # snapshot commands (no-change snapshots interposed between the save and the edits)
    gens = ctx.q(["MC_WcMtime_gen", "MC_WcMtime_gen_snaps", "MC_WcMtime_gen_restore"],
                 ["MC_WcMtime_gen_thorough", "MC_WcMtime_gen_snaps_thorough", "MC_WcMtime_gen_restore"])
    behaviours = []
    for gen in gens:
        bs, g = vf.tlc_generate("MC_WcMtime", gen, timeout=ctx.q(300, 1200))
        ctx.add_mc(g, gen)
        behaviours += bs
    behaviours = wcutil._dedupe(behaviours)
    gen = "+".join(gens)
    if len(behaviours) < 100:
        raise vf.ToolError("generator produced only %d behaviours" % len(behaviours))
    obs = ctx.path("c26-obs.ndjson")
    n = wcutil.harness_parallel(ctx, "mtime-replay", behaviours, obs, ["--gran", "1,1000,2000"], par=8)
    if n != 3 * len(behaviours):
        raise vf.ToolError("replayer returned %d records for %d behaviours x 3 granularities" % (n, len(behaviours)))
    j = vf.judge_records(ctx, "Trace_WcMtime", obs, nontrivial_fn=nontrivial, sig_fn=sig, chunk=500)
    ctx.cov["exhaustive"] = True
    ctx.cov["exhaustive_domain"] = "every complete behaviour of %s (%d) x granularities {1 ms, 1 s, 2 s}" % (gen, len(behaviours))
    ctx.cov["rule"] = ("records = one generated behaviour replayed on a real working copy at one granularity; "
                       "non-trivial = behaviours containing at least one same-size user edit; distinct by full record")
    for rec in j["records"]:
        if nontrivial(rec) and any(s["a"] == "SnapStat" for s in rec["steps"]):
            ctx.sample({"steps": [s["a"] + "@" + str(s["t"]) for s in rec["steps"]], "gran": rec["gran"],
                        "seen": [o["seen"] for o in rec["obs"] if o["seen"] >= 0]}, 4)
    ctx.assumptions += [
        "forcing mtimes with File::set_modified after the write is equivalent to a file system with that clock granularity",
        "one tracked file suffices: FileState::is_clean and the own_mtime comparison are per file",
        "TLC evaluates spec/WcMtime.tla correctly",
    ]
