"""C24 Checkout writes the tree and an immediate snapshot sees no change (spec/WorkingCopy)."""
from checks import wcutil

META = dict(
    category='model_checking',
    engine='WorkingCopy',
    technique='TLA+ state machine WorkingCopy: TLC model checking of the transcribed per-path update against the C24 contract + TLC-generated check-out/snapshot/sparse behaviours replayed on a real LocalWorkingCopy + seeded random scripts, every step judged by TLC',
    text='CheckOut is transcribed entry by entry in file-system order (create_parent_dirs, remove_old_file, can_create_new_file, write, empty-parent removal). Contract CheckOutOK: from a pristine working copy (disk = materialisation of the tree within the sparse patterns) the disk after check-out is exactly the materialisation of the new tree (conflicts as marker files, no stray directories), nothing is skipped, and a snapshot right away returns the identical tree; since the result depends only on the new tree, switching between two trees equals checking out the second from scratch. TLC checks this for every sequence of check-outs among 12 trees (files, executables, symlinks, file<->directory replacements, 3-term file conflicts and file-vs-symlink conflicts, each under two conflict-label sets with identical tree ids, ignore files) and sparse changes, under both exec-bit policies; behaviours are replayed on a real working copy and judged step by step.',
    note='Conflict marker files are decoded with jj\'s own parser (C05 covers that pair); EOL modes are covered by C29, not here; exec policy "ignore" is compared modulo the exec bit on disk. The disk value of a materialised conflict carries its terms and the id of the label set embedded in the markers / description, so a label-only switch must rewrite every conflict file. Bounded: 7-path universe, 12 trees in the model checker (random trees with random label sets in the I->S driver; half of the random check-outs of a conflicted tree are followed by the same tree under the other label set).',
    design='4 C24',
)
READY = True
LEVEL = META["category"]


def run(ctx):
    wcutil.run_wc(
        ctx, "C24",
        mc_cfgs=ctx.q(["c24", "c24_xignore"], ["c24_thorough", "c24_xignore"]),
        neg_cfgs=[("neg_co_keep_dirs", "Inv_C24"), ("neg_co_labels_file_only", "Inv_C24")],
        gen_cfgs=[("gen_c24", ctx.q(250, 800)), ("gen_c24_xignore", ctx.q(100, 300))],
        n_random=ctx.q(300, 2000), focus="checkout")
