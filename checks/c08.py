"""C08 Rebasing carries a commit's changes and nothing else (spec/Tree + Dag)."""
import json
import random
from concurrent.futures import ThreadPoolExecutor

import vf

META = dict(
    category='model_checking',
    engine='Tree',
    technique='TLA+ spec Tree+Dag (rebase laws, transcription of find_recursive_merge_commits / merge_commit_trees / '
              'CommitRewriter::rebase): TLC exhaustive on small histories, TLC-generated histories replayed through '
              'the real rebase, every real result judged by TLC',
    text='TLC proves the two per-path laws (unchanged path takes the new parents\' content; agreed path keeps the '
         'commit\'s content) from the path-wise merge for every triple of trees over a 24-tree universe and for '
         'conflicted bases, and checks laws, identity and round trip on the transcription of rebase for every history '
         'of root+2 commits (thorough: root+3) with merges and auto-merged (possibly conflicted) trees; TLC emits the '
         'histories (plus random ones up to 6 commits, 3-parent merges, slot-file content merges) and the harness '
         'builds the real commits and calls the real merge_commit_trees / CommitRewriter::rebase; Trace_Tree (TLC) '
         'judges the observed path values of old, old base, new base, new, and the rebase back.',
    note='Contract = the laws as worded (per path modulo Norm, directory entries judged at the leaves), identity on '
         'tree ids, round trip under disjoint changes, single-parent base = parent tree. The exact path-wise result '
         'is compared with the transcription only as divergence. Known finding: rebase skips the merge when the '
         'parents\' tree lists are equal although the merged bases differ. Trusted: TLC, harness codec.',
    design='4 C08',
)
READY = True
LEVEL = META["category"]

SHAPES = {"FileTermsCancelLeavingTrees/": "file-terms-cancel-leaving-trees",
          "ParentTreesEqualBasesDiffer/": "parent-trees-equal-bases-differ"}


def sig(r, verdict):
    for k, v in SHAPES.items():
        if verdict.startswith(k):
            return v
    return verdict


def nontrivial(r):
    # a rebase that really moves the commit: new parents differ from the old ones, and the history has a merge
    # or the commit changes something
    if r.get("op") != "rebase" or r.get("panic"):
        return False
    return r["np"] != r["par"][r["c"] - 1] and (r["old"]["pv"] != r["old_base"]["pv"] or any(len(p) > 1 for p in r["par"]))


def generate(ctx, cfg, simulate=None, workers=8, timeout=900):
    extra = ["-seed", str(ctx.seed)]
    if simulate:
        extra += ["-depth", "8"]
    r = vf.tlc("MC_Rebase", cfg, timeout=timeout, simulate=simulate, workers=workers, extra=extra)
    if r["error"] is not None:
        raise vf.ToolError("MC_Rebase/%s failed: %s\n%s" % (cfg, r["invariant"] or r["error"], r["raw_tail"]))
    seen, out = set(), []
    for k, a in r["prints"]:
        if k == "REPLAY":
            s = json.loads(a)
            if s not in seen:
                seen.add(s)
                out.append(json.loads(s))
    if simulate:
        ctx.cov["tlc_runs"].append({"run": "%s -simulate %s" % (cfg, simulate), "outcome": "generated %d histories" % len(out)})
    else:
        ctx.add_mc(r, cfg)
    return out


def run(ctx):
    import time
    t0 = time.time()

    def lap(what):
        vf.log("C08 %s at %.0fs" % (what, time.time() - t0))
    rnd = random.Random(ctx.seed)
    # 1. design level
    r = vf.tlc_mc("MC_Tree", "MC_Tree_rebase", workers=8, timeout=900)
    ctx.add_mc(r, "MC_Tree_rebase (laws for all tree triples)")
    if ctx.thorough:
        for cfg in ("MC_Tree_rebase_nested", "MC_Tree_rebase_nested2"):
            r = vf.tlc_mc("MC_Tree", cfg, workers=8, timeout=1500)
            ctx.add_mc(r, cfg + " (laws with conflicted bases)")
    lap("design")
    exh = generate(ctx, ctx.q("MC_Rebase", "MC_Rebase_thorough"), timeout=ctx.q(600, 2400))
    lap("exhaustive")
    sim = generate(ctx, "MC_Rebase_sim", simulate="num=%d" % ctx.q(25, 150), workers=1, timeout=ctx.q(600, 2400))
    lap("sim")
    negs = [("shortcut", "InvLaws"), ("swap", "InvLaws"), ("identity", "InvIdentity"), ("roundtrip", "InvRoundTrip")]

    def neg(b):
        vf.tlc_mc("MC_Rebase", "MC_Rebase_neg_" + b[0], expect_violation=b[1], workers=2, timeout=900)
        return b
    with ThreadPoolExecutor(max_workers=2) as ex:
        for b in ex.map(neg, negs):
            ctx.cov["tlc_runs"].append({"run": "negative:" + b[0], "outcome": "fails as required (%s)" % b[1]})
    lap("negs")
    # 2. binding
    bound = exh if not ctx.thorough else rnd.sample(exh, min(len(exh), 15000))
    casefile = ctx.path("c08-cases.ndjson")
    with open(casefile, "w") as f:
        for c in bound + sim:
            f.write(json.dumps(c) + "\n")
    trace = ctx.path("c08.ndjson")
    ctx.harness("tree", ["rebase", "--cases", casefile, "--out", trace, "--backend", "test",
                         "--keep-every", ctx.q(3, 2)], timeout=2400)
    lap("harness")
    j = vf.judge_records(ctx, "Trace_Tree", trace, sig_fn=sig, nontrivial_fn=nontrivial, chunk=2000)
    lap("judged")
    for rec in j["records"]:
        if nontrivial(rec) and any(len(p) > 1 for p in rec["par"]) and rec["new"]["hc"]:
            ctx.sample({k: rec[k] for k in ("par", "auto", "tree", "c", "np", "accept")} |
                       {"new": rec["new"]["pv"], "old": rec["old"]["pv"]}, 3)
    shown = 0
    for idx, verdict in j["bad"]:
        if sig(None, verdict) != verdict and shown < 2:
            shown += 1
            ctx.sample({"known_finding": verdict, "record": j["records"][idx]}, 6)
    ctx.cov["exhaustive"] = not ctx.thorough
    ctx.cov["exhaustive_domain"] = ("histories of root+%d commits over the configured tree universe, every commit/new-parents choice: %d cases%s; "
                                    "random histories up to 6 commits with 3-parent merges: %d" %
                                    (ctx.q(2, 3), len(exh), "" if not ctx.thorough else " (%d sampled for binding)" % len(bound), len(sim)))
    ctx.cov["rule"] = ("records = real rebases (CommitRewriter::rebase + merge_commit_trees of old and new parents + rebase back + "
                       "rebase in place); non-trivial = new parents differ from the old ones and (the commit changes something "
                       "or the history contains a merge); distinct by full record")
    ctx.assumptions += [
        "trees over the 4-path universe of spec/Tree.tla; conflicted commit trees only arise as auto-merged parents (as in jj)",
        "histories with at most 2 greatest common ancestors per merge (the order in which the index lists 3 or more is not modelled)",
        "A5: the value codec of the harness (common.rs) is correct",
    ]
