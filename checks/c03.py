"""C03 Content diffs partition their inputs deterministically (spec/Diff)."""
import vf
from checks import textlib

META = dict(
    category='exploration',
    engine='Diff',
    technique='TLA+ spec Diff: contract DiffOK model-checked for satisfiability/anti-vacuity by TLC + TLC-judged traces (I->S) of the real ContentDiff',
    text='The contract DiffOK (ranges contiguous from 0 to each input\'s length so concatenation reproduces the input, Matching hunks equal under '
         'the comparison, no all-empty hunk, kinds alternate, hunks() hands out exactly the slices of hunk_ranges(), same hunks on every run) is '
         'stated in TLA+ with no reference alignment - any valid alignment passes.  TLC shows it satisfiable on every tuple of <=3 texts of '
         'length <=3 and checks the comparison lattice and concatenation lemma that make compaction sound; four seeded bad partitions must be '
         'rejected.  The real ContentDiff (by_line, by_word, unrefined, for_tokenizer x 4 tokenizers x 3 comparisons, refine_changed_regions '
         'chains) is run on every 1-/2-tuple of strings of length <=3 and every 3-tuple of length <=2 over {a,SP,LF} (thorough: {a,b,SP,LF}), every pair of length <=2 '
         'over {a,SP,TAB,LF} for all 12 tokenizer x comparison stages and two refinement chains, plus seeded random line texts (CRLF, missing '
         'final newline, empty inputs, repeated lines); each diff is computed twice in-process (fresh RandomState seed each) and, thorough, '
         'again in a second process; TLC judges every record.  A LARGE-INPUT class (30 quick / 300 thorough seeded cases: 2-3 inputs of 2-4 blocks of '
         '600-2000 unique lines with permuted, duplicated and deleted blocks, by_line and word tokenizers) exercises the histogram/LCS path with '
         'thousands of shared unique tokens and reorderings; it is judged on compact records (lengths, ranges, slice hashes).  Exhaustive on '
         'the small domain, sampled beyond: exploration.',
    note='Inputs are bounded byte strings (up to ~60 KB / 8 000 lines in the large-input class); numeric limits (4 GiB, u32 offsets) are not reached.  For the large-input class Matching-equality is hash-based (equal lengths and equal 31-bit FNV-1a slice hashes), because TLC cannot judge byte-level records of that size.  With mixed comparisons in a refinement chain '
         'Matching hunks are judged under the weakest comparison of the chain (lattice checked by TLC).  Trusted: TLC, the recorder in '
         'harness/jjconf/src/bin/text/diff.rs (it only calls jj and logs).',
    design='4 C03',
)
READY = True
LEVEL = META["category"]


def nontrivial(r):
    # a diff of >= 2 inputs whose hunk list has both a Matching and a Different hunk
    if r.get("op") == "bigdiff":
        return {h["k"] for h in r["h1"]} == {0, 1}
    if r.get("op") != "diff" or len(r["inp"]) < 2:
        return False
    kinds = {h["k"] for h in r["h1"]}
    return kinds == {0, 1}


def run(ctx):
    # 1. design level: the contract is satisfiable (witness alignment) and the comparison lemmas hold
    cfg = ctx.q("MC_Diff", "MC_Diff_thorough")
    r = vf.tlc_mc("MC_Diff", cfg, workers=ctx.q(8, 12), timeout=ctx.q(300, 1500))
    ctx.add_mc(r, cfg)
    negs = (("dropbyte", "InvCovers"), ("twodiff", "InvAlternate"), ("wsmatch", "InvMatching"), ("emptyhunk", "InvNonEmpty"))
    textlib.negatives(ctx, "MC_Diff", negs)
    # 2. binding I->S: the real ContentDiff, judged by TLC
    trace = ctx.path("c03.ndjson")
    ctx.harness("text", ["diff", "--out", trace, "--seed", ctx.seed, "--tier", ctx.tier,
                          "--random", ctx.q(1500, 12000), "--big", ctx.q(30, 300)])
    if ctx.thorough:
        # the same diffs recomputed in a second process (new process-wide hash keys)
        trace2 = ctx.path("c03b.ndjson")
        ctx.harness("text", ["diff-again", "--inp", trace, "--out", trace2])
        trace = trace2
    j = textlib.judge(ctx, "Trace_Diff", trace, nontrivial_fn=nontrivial, chunk=ctx.q(5400, 6000), par=8,
                      ops={"diff", "bigdiff", "panic"})
    recs = j["records"]
    doms = {r["kind"]: r for r in recs if r.get("op") == "domain"}
    s3, s2 = 85, (21 if ctx.thorough else 13)
    want_a = s3 * 3 + s3 * s3 * 2 + s2 ** 3 * 2
    nb = 43 if ctx.thorough else 21          # strings of length <= 2 over 6 / 4 bytes
    want_b = nb * nb * 18 + (85 * 85 * 4 if ctx.thorough else 0)
    if doms["A"]["count"] != want_a or doms["B"]["count"] != want_b:
        raise vf.ToolError("harness domain is not the stated domain: %s (want %d, %d)" % (doms, want_a, want_b))
    if doms["big"]["count"] != ctx.q(30, 300) or sum(1 for r in recs if r.get("op") == "bigdiff") != ctx.q(30, 300):
        raise vf.ToolError("large-input class incomplete: %s" % doms["big"])
    if ctx.thorough and any("h3" not in r for r in recs if r.get("op") in ("diff", "bigdiff")):
        raise vf.ToolError("second-process ranges missing")
    ctx.cov["exhaustive"] = False
    ctx.cov["exhaustive_core"] = ("%d diffs: all 1-/2-tuples of strings of length <=3 over {a,b,SP,LF} and 3-tuples of length <=2 over %s x "
                                  "{by_line,by_word(,unrefined)}; %d diffs: all pairs of length <=2 over %s x 12 tokenizer/comparison stages "
                                  "+ 2 refinement chains x 3 comparisons%s" % (
                                      want_a, "{a,b,SP,LF}" if ctx.thorough else "{a,SP,LF}", want_b, "{a,SP,TAB,LF,CR,NUL}" if ctx.thorough else "{a,SP,TAB,LF}",
                                      "; pairs of length <=3 over {a,SP,LF,CR} x 4 whitespace-insensitive stages" if ctx.thorough else ""))
    big = [r for r in recs if r.get("op") == "bigdiff"]
    ctx.cov["large_input_class"] = {
        "cases": len(big),
        "what": "seeded line-structured inputs of 2-4 blocks of 600-2000 unique lines, the other 1-2 inputs with permuted / duplicated / "
                "deleted blocks and a few line edits; by_line and for_tokenizer (line; word+nonword refinement); the record carries input "
                "lengths and per hunk kind, ranges and a 31-bit FNV-1a hash of every slice, for two in-process runs%s" % (
                    " and a second process" if ctx.thorough else ""),
        "judged": "contiguity from 0 to each length, alternation, no all-empty hunk, run1 = run2%s; Matching-equality is HASH-BASED for "
                  "this class (equal slice lengths and equal slice hashes), byte-exact only for the small classes" % (
                      " = other process" if ctx.thorough else ""),
        "min_max_input_bytes": [min(min(r["lens"]) for r in big), max(max(r["lens"]) for r in big)] if big else [],
        "max_hunks": max(len(r["h1"]) for r in big) if big else 0,
        "reordered_blocks": sum(1 for r in big if any(o != sorted(o) for o in r["shape"]["orders"])),
    }
    ctx.cov["rule"] = ("records = one real ContentDiff each (ranges of two runs%s + contents); generated exhaustively on the small domains "
                       "above and randomly (seeded) for line texts of up to %d lines, plus the large-input class (compact hash records, see "
                       "large_input_class); non-trivial = >= 2 inputs and both a Matching and a "
                       "Different hunk; distinct by full record" % (" + a second process" if ctx.thorough else "", ctx.q(12, 40)))
    for r in big:
        if 4 <= len(r["h1"]) <= 12:
            ctx.sample({k: r[k] for k in ("op", "api", "stages", "shape", "lens", "h1")}, 1)
    for r in recs:
        if r.get("op") == "diff" and nontrivial(r) and len(r["inp"]) == 3 and len(r["h1"]) >= 4:
            ctx.sample({k: r[k] for k in ("api", "stages", "cmp", "inp", "h1")}, 4)
    for r in recs:
        if r.get("op") == "diff" and nontrivial(r) and r["cmp"] != "exact" and len(r["h1"]) >= 3:
            ctx.sample({k: r[k] for k in ("api", "stages", "cmp", "inp", "h1")}, 6)
    ctx.assumptions += ["inputs are bounded byte strings (lengths far below u32/usize limits)",
                        "TLC evaluates the contracts of spec/Diff.tla correctly",
                        "run-to-run determinism is observed on two in-process runs (fresh RandomState per ContentDiff) and, thorough, one more process"]
