"""CLI-level driver shared by C09, C40, C41, C42 (group "cli").

Runs the real `jj` (harness binary `jjcli`, built from /repo's working tree) in
the hermetic environment of jj's own TestEnvironment and projects repository
state through the jj-lib based `dump` binary.  Nothing here decides a
property: it executes, projects and logs.
"""
import json
import os
import shutil
import stat
import subprocess
import tempfile

import vf

SHORT = 10  # hex digits kept of commit / operation ids and digests


def short(x):
    return x[:SHORT]


def fnv_digest(entries):
    """entries: iterable of (path str, kind str, bytes).  Same function as dump.rs."""
    h = 0xcbf29ce484222325
    M = 0xFFFFFFFFFFFFFFFF
    P = 0x100000001b3

    def feed(h, bs):
        for b in bs:
            h = ((h ^ b) * P) & M
        return h
    for p, k, bs in sorted((p.encode(), k, bs) for p, k, bs in entries):
        h = feed(h, p + b"\0" + k.encode() + b"\0" + str(len(bs)).encode() + b"\0")
        h = feed(h, bs)
        h = feed(h, b"\n")
    return "%016x" % h


def disk_entries(root):
    out = []
    for dp, dns, fns in os.walk(root):
        if dp == root:
            dns[:] = [d for d in dns if d != ".jj"]
        for fn in fns:
            p = os.path.join(dp, fn)
            rel = os.path.relpath(p, root).replace(os.sep, "/")
            st = os.lstat(p)
            if stat.S_ISLNK(st.st_mode):
                out.append((rel, "l", os.readlink(p).encode()))
            elif stat.S_ISREG(st.st_mode):
                with open(p, "rb") as f:
                    bs = f.read()
                out.append((rel, "x" if st.st_mode & 0o100 else "-", bs))
    return out


def disk_digest(root):
    return short(fnv_digest(disk_entries(root)))


BASE_CONFIG = """
[git]
colocate = false

[ui]
editor = "true"
paginate = "never"
color = "never"

[template-aliases]
'format_time_range(time_range)' = 'time_range.start() ++ " - " ++ time_range.end()'
"""


class Env:
    """One hermetic jj environment (a temp dir holding HOME, config and repos)."""

    def __init__(self, extra_config=""):
        self.jj_bin = vf.build("jjcli")
        self.dump_bin = vf.build("dump")
        self.root = os.path.realpath(tempfile.mkdtemp(prefix="vf-cli-"))
        for d in ("home", "tmp", "config"):
            os.mkdir(os.path.join(self.root, d))
        self.config_dir = os.path.join(self.root, "config")
        self.nconfig = 0
        self.n = 0
        self.add_config(BASE_CONFIG + extra_config)
        self.log = []           # (cwd, argv, rc) of every jj run, for replay artefacts

    def add_config(self, text):
        self.nconfig += 1
        with open(os.path.join(self.config_dir, "config%04d.toml" % self.nconfig), "w") as f:
            f.write(text)

    def set_config_file(self, name, text):
        """(over)write one named config file; later names override earlier ones"""
        with open(os.path.join(self.config_dir, name), "w") as f:
            f.write(text)

    def path(self, *p):
        return os.path.join(self.root, *p)

    def environ(self):
        self.n += 1
        n = self.n
        # 2001-02-03T04:05:06+07:00 plus n seconds
        secs = 6 + n
        ts = "2001-02-03T%02d:%02d:%02d+07:00" % (4 + (5 * 60 + secs) // 3600, ((5 * 60 + secs) // 60) % 60, secs % 60)
        extra = {}
        if os.environ.get("VERIF_MUT"):
            # mutation testing on a scratch copy of jj (BUILDER_GUIDE rule 5); never set in normal runs
            extra["VERIF_MUT"] = os.environ["VERIF_MUT"]
        return {
            **extra,
            "COLUMNS": "100", "RUST_BACKTRACE": "0", "PATH": os.environ.get("PATH", ""),
            "HOME": self.path("home"), "TMPDIR": self.path("tmp"),
            "GIT_CONFIG_SYSTEM": "/dev/null", "GIT_CONFIG_GLOBAL": "/dev/null",
            "JJ_CONFIG": self.config_dir, "JJ_USER": "Test User", "JJ_EMAIL": "test.user@example.com",
            "JJ_OP_HOSTNAME": "host.example.com", "JJ_OP_USERNAME": "test-username",
            "JJ_TZ_OFFSET_MINS": "660", "JJ_RANDOMNESS_SEED": str(n),
            "JJ_TIMESTAMP": ts, "JJ_OP_TIMESTAMP": ts,
        }

    def jj(self, cwd, *args, timeout=60):
        """run jj; returns (rc, stdout, stderr).  rc 124 = timeout."""
        argv = [str(a) for a in args]
        try:
            p = subprocess.run([self.jj_bin] + argv, cwd=cwd, env=self.environ(), timeout=timeout,
                               stdout=subprocess.PIPE, stderr=subprocess.PIPE, text=True,
                               stdin=subprocess.DEVNULL)
            rc, out, err = p.returncode, p.stdout, p.stderr
        except subprocess.TimeoutExpired:
            rc, out, err = 124, "", "timeout"
        self.log.append((os.path.relpath(cwd, self.root), argv, rc))
        return rc, out, err

    def jj_ok(self, cwd, *args):
        rc, out, err = self.jj(cwd, *args)
        if rc != 0:
            raise vf.ToolError("jj %s failed rc=%d in setup: %s" % (" ".join(map(str, args)), rc, err[-2000:]))
        return out

    def dump(self, ws, extra_ws=(), digest_all=False, paths=False):
        cmd = [self.dump_bin, "state", "--ws", ws]
        if extra_ws:
            cmd += ["--extra-ws", ",".join(extra_ws)]
        if digest_all:
            cmd.append("--digest-all")
        if paths:
            cmd.append("--paths")
        p = subprocess.run(cmd, stdout=subprocess.PIPE, stderr=subprocess.PIPE, text=True, timeout=120)
        if p.returncode != 0:
            raise vf.ToolError("dump failed: " + p.stderr[-2000:])
        return json.loads(p.stdout)

    def close(self):
        shutil.rmtree(self.root, ignore_errors=True)

    def __enter__(self):
        return self

    def __exit__(self, *a):
        self.close()


# --------------------------------------------------------------------------
# projections of a dump

def op_index(d):
    return {o["id"]: o for o in d["ops"]}


def visible_commits(d, op):
    """ids of all commits visible in operation `op` (ancestors of its view heads)"""
    out, stack = set(), list(op["view"]["heads"])
    while stack:
        c = stack.pop()
        if c in out:
            continue
        out.add(c)
        stack.extend(d["commits"][c]["parents"])
    return out


def canon_commit(d, cid, memo):
    """a commit up to renaming of hashes: (change, description, tree, canonical parents)"""
    if cid in memo:
        return memo[cid]
    c = d["commits"][cid]
    v = (c["change"], c["desc"], c["tree"], tuple(canon_commit(d, p, memo) for p in c["parents"]))
    memo[cid] = v
    return v


def single_head(d):
    if len(d["op_heads"]) != 1:
        return None
    return op_index(d)[d["op_heads"][0]]
