"""C02 Automatic conflict resolution is exactly the cancellation rule (spec/MergeAlgebra)."""
import vf

META = dict(
    category='model_checking',
    engine='MergeAlgebra',
    technique='TLA+ spec MergeAlgebra: TLC exhaustive on the model + TLC-judged traces of the real trivial_merge',
    text='TLC proves fast path = counting path and the cancellation contract TrivialOK on the model; the real trivial_merge / resolve_trivial are run on every merge over 3 values up to 7 terms x {Keep, Accept} (4/9 thorough) plus random up to 31 terms, each call judged by TLC.',
    note='Statement leaves one zone open (same-change on, one surviving side, >=2 distinct surviving bases): either answer accepted there.',
    design='4 C02',
)
READY = True
LEVEL = META["category"]


def nontrivial(r):
    return r.get("op") == "trivial" and len(r["inp"]) >= 3


def run(ctx):
    cfg = ctx.q("MC_MergeAlgebra", "MC_MergeAlgebra_thorough")
    r = vf.tlc_mc("MC_MergeAlgebra", cfg, workers=ctx.q(8, 16), timeout=ctx.q(300, 3000))
    ctx.add_mc(r, cfg)
    vf.tlc_mc("MC_MergeAlgebra", "MC_MergeAlgebra_neg_trivial", expect_violation="InvTrivial", workers=4)
    ctx.cov["tlc_runs"].append({"run": "negative:trivial", "outcome": "fails as required (InvTrivial)"})
    trace = ctx.path("c02.ndjson")
    V, L = ctx.q((3, 7), (4, 9))
    ctx.harness("merge", ["record", "--what", "c02", "--out", trace, "--seed", ctx.seed,
                           "--values", V, "--maxlen", L, "--random", ctx.q(3000, 60000)])
    j = vf.judge_records(ctx, "Trace_MergeAlgebra", trace, nontrivial_fn=nontrivial)
    recs = j["records"]
    want = 2 * sum(V ** k for k in range(1, L + 1, 2))
    dom = [r for r in recs if r.get("op") == "domain"][0]
    if dom["count"] != want:
        raise vf.ToolError("harness domain is not the spec's domain: %s (want %d)" % (dom, want))
    ctx.cov["exhaustive"] = True
    ctx.cov["exhaustive_domain"] = "all merges over %d values with <= %d terms x {Keep, Accept} (%d) plus random up to 31 terms" % (V, L, want)
    ctx.cov["rule"] = ("records = calls of trivial_merge and Merge::resolve_trivial on the real code; "
                       "non-trivial = 3 or more terms; distinct by full record")
    for r in recs:
        if nontrivial(r) and r["out"] != 0 and len(r["inp"]) >= 5:
            ctx.sample(r, 3)
    for r in recs:
        if nontrivial(r) and r["out"] == 0 and len(r["inp"]) >= 5:
            ctx.sample(r, 5)
    ctx.assumptions += ["values are integers; trivial_merge is generic over T: Eq + Hash",
                        "callers in tree_merge.rs and refs.rs are exercised through C07/C12"]
