"""C45 Pushing never overwrites remote changes jj has not seen (spec/GitPush)."""
import json
from concurrent.futures import ThreadPoolExecutor

import vf

META = dict(
    category='model_checking',
    engine='GitPush',
    technique='TLA+ spec GitPush (state machine JjSet/JjDelete/OtherSet/OtherDelete/Fetch/Push(S) over local bookmark, remote-tracking bookmark, actual remote branch): TLC exhaustive reachability with step contracts and a ghost "unseen remote work" invariant + TLC-generated behaviours replayed against a local bare remote and a second clone driven by the real git CLI (S->I) + seeded random histories recorded and judged by TLC (I->S)',
    text='TLC explores every reachable state of the model (2 bookmarks, 3 commits quick / 4 thorough, one commit known only to the other clone, unbounded depth) and checks on every transition PushOK (per pushed bookmark: the remote branch changes only if it is where jj last recorded it and only to the pushed value; a stale bookmark is rejected, reported, and jj\'s remote-tracking record and local bookmark stay untouched; the record moves only to what the remote really holds; when the lease holds the push goes through), FetchOK, and the ghost invariant that work the other clone pushed and jj has not fetched is never replaced. The real push path (classify_ref_push_action + git::push_refs, i.e. the real `git push --force-with-lease` subprocess) is bound both ways: every transition of a 1-bookmark model up to depth 5 (2 commits quick; 4 commits, plus 2 bookmarks depth 3, thorough) and simulated 6-step behaviours are replayed against a bare remote with a second clone that really pushes/deletes with the git CLI; seeded random histories (2 bookmarks, 5 commits, up to 10 steps, subsets pushed together, every 5th with 70/140 fillers) are recorded; a many-refs dimension replays TLC-generated stale pushes (delete / fast-forward / other of an unseen remote position, 3-commit chain) together with 70 or 140 in-sync filler bookmarks that are all moved by the push, so that the modelled bookmark is passed to git after position 64 / 128 or first (kind-balanced seeded selection in quick, all 216 in thorough); TLC judges every observed step from the observed pre-state, including create/move/delete on both sides, the same value pushed by both, and deleting an already deleted branch. Exhaustive on the model, sampled on longer histories.',
    note='The installed git (2.39) lacks `git fetch --porcelain`, which jj\'s GitFetch requires (git >= 2.41), so the Fetch action is `git fetch --prune` by the git CLI followed by the real jj_lib::git::import_refs with origin auto-tracked; GitFetch::fetch itself is not exercised. Push is sequential with the other clone (an update landing between jj\'s lease computation and git\'s compare-and-swap is inside git itself). Local path transport, no hooks, no tags, bookmarks tracked. Trusted: TLC, the projection in harness/jjconf/src/bin/gitsync/push.rs (remote refs read from ref files and confirmed by `git update-ref --stdin verify` at every step).',
    design='4 C45',
)
READY = True
LEVEL = META["category"]

NEG = [("no_lease", "InvNoLostUpdate"), ("lease_on_new", "InvStep"), ("track_after_reject", "InvStep")]


def is_reset(line):
    return '"op":"reset"' in line


def maximal(behs):
    """drop behaviours that are a strict prefix of another one (the replayer compares
    after every action, so the longer behaviour covers the shorter)"""
    keys = [json.dumps([(s["a"], s["b"], s["c"], s["set"]) for s in b["steps"]]) for b in behs]
    prefixes = set()
    for b in behs:
        acts = [(s["a"], s["b"], s["c"], s["set"]) for s in b["steps"]]
        for k in range(1, len(acts)):
            prefixes.add(json.dumps(acts[:k]))
    seen, out = set(), []
    for b, k in zip(behs, keys):
        if k in prefixes or k in seen:
            continue
        seen.add(k)
        out.append(b)
    return out


def shards(ctx, jobs):
    """run harness invocations in parallel; jobs = list of arg lists"""
    vf.build("gitsync")
    with ThreadPoolExecutor(max_workers=min(len(jobs), 8)) as ex:
        list(ex.map(lambda a: ctx.harness("gitsync", a, timeout=3000), jobs))


def classify(recs):
    """per step: (record, pre-state) for the coverage rule"""
    pre = None
    for r in recs:
        if r["op"] == "reset":
            pre = r["post"]
            continue
        if "post" not in r:
            continue
        yield r, pre
        pre = r["post"]


def pick_many(behs, per_choice, seed):
    """many-refs behaviours (each ends in a push of a stale bookmark): a seeded, kind-balanced
    selection per filler choice; kind = what jj's update of the stale bookmark is relative to the
    remote's actual position (delete / fast-forward / other).  per_choice=None keeps everything."""
    import random
    anc = {1: {1}, 2: {1, 2}, 3: {1, 2, 3}}       # MC_Chain3
    groups = {}
    for b in behs:
        local = track = remote = 0
        for st in b["steps"][:-1]:
            p = st["post"]
            local = p["local"][0][0] if len(p["local"][0]) == 1 else -1
            track, remote = p["track"][0], p["remote"][0]
        kind = "delete" if local == 0 else ("ff" if remote != 0 and local > 0 and remote in anc[local] and remote != local else "other")
        groups.setdefault((b["fill"]["n"], b["fill"]["place"]), {}).setdefault(kind, []).append(b)
    out = []
    for key in sorted(groups):
        kinds = groups[key]
        rnd = random.Random(seed * 7919 + key[0] + len(key[1]))
        for k in kinds.values():
            rnd.shuffle(k)
        if per_choice is None:
            for k in sorted(kinds):
                out += kinds[k]
            continue
        i, took = 0, 0
        order = [k for k in ("delete", "ff", "other") if k in kinds]
        while took < per_choice and any(kinds[k] for k in order):
            k = order[i % len(order)]
            i += 1
            if kinds[k]:
                out.append(kinds[k].pop())
                took += 1
    return out


def nontrivial(r, pre):
    if r["op"] == "Push":
        # some pushed bookmark whose remote branch is not where jj last recorded it
        return any(pre["remote"][b - 1] != pre["track"][b - 1] for b in r["asked"])
    if r["op"] == "Fetch":
        nb = len(pre["remote"])
        return any(pre["remote"][b] != pre["track"][b] and pre["local"][b] != [pre["track"][b]] for b in range(nb))
    return False


def run(ctx):
    cfg = ctx.q("MC_GitPush", "MC_GitPush_thorough")
    gens = ctx.q(["MC_GitPush_gen_all"], ["MC_GitPush_gen_all5", "MC_GitPush_gen_all2"])
    with ThreadPoolExecutor(max_workers=4) as ex:
        f_mc = ex.submit(vf.tlc_mc, "MC_GitPush", cfg, workers=ctx.q(6, 12), timeout=ctx.q(600, 2400))
        f_neg = [(bug, inv, ex.submit(vf.tlc_mc, "MC_GitPush", "MC_GitPush_neg_" + bug, expect_violation=inv,
                                      workers=1, timeout=300)) for bug, inv in NEG]
        f_gen = [(g, ex.submit(vf.tlc_generate, "MC_GitPush", g, timeout=900)) for g in gens]
        f_many = ex.submit(vf.tlc_generate, "MC_GitPush", "MC_GitPush_gen_many", timeout=900)
        f_sim = ex.submit(vf.tlc_generate, "MC_GitPush", "MC_GitPush_gen_sim", simulate="num=%d" % ctx.q(4, 25),
                          seed=ctx.seed, timeout=900)
        ctx.add_mc(f_mc.result(), cfg)
        for bug, inv, f in f_neg:
            f.result()
            ctx.cov["tlc_runs"].append({"run": "negative:" + bug, "outcome": "fails as required (%s)" % inv})
        behs = []
        for g, f in f_gen:
            b, gr = f.result()
            ctx.add_mc(gr, g)
            behs += maximal(b)
        n_exh = len(behs)
        b, gr = f_sim.result()
        ctx.add_mc(gr, "MC_GitPush_gen_sim")
        behs += maximal(b)
        # many-refs dimension: stale pushes together with 70 / 140 in-sync filler bookmarks, modelled
        # bookmark after position 64 / 128 ("after") or first ("before")
        b, gr = f_many.result()
        ctx.add_mc(gr, "MC_GitPush_gen_many")
        many = pick_many(b, ctx.q(8, None), ctx.seed)
        behs += many
    behf = ctx.path("behaviours.ndjson")
    with open(behf, "w") as f:
        for x in behs:
            f.write(json.dumps(x) + "\n")
    K = 8
    # quick: the other clone really pushes only when objects have to travel, otherwise the remote's branch is
    # moved by git in the remote repository itself; thorough: every edit of the other clone is a real `git push`
    other = "fast"   # a real `git push` by the other clone in every step made the thorough tier exceed its budget (never completed); jj's own push is always the real subprocess
    jobs = [["push", "--replay", behf, "--shard", i, "--of", K, "--otherpush", other,
             "--out", ctx.path("replay%d.ndjson" % i)] for i in range(K)]
    n_rand = ctx.q(80, 400)
    jobs += [["push", "--random", n_rand // K, "--seed", ctx.seed * 1000 + i, "--maxsteps", 10, "--nb", 2,
              "--otherpush", other, "--fillevery", 5, "--out", ctx.path("random%d.ndjson" % i)] for i in range(K)]
    shards(ctx, jobs)
    trace = ctx.path("c45.ndjson")
    with open(trace, "w") as out:
        for i in range(K):
            for name in ("replay%d.ndjson" % i, "random%d.ndjson" % i):
                with open(ctx.path(name)) as f:
                    out.write(f.read())

    j = vf.judge_records(ctx, "Trace_GitPush", trace, case_start=is_reset, chunk=ctx.q(2000, 6000),
                         sig_fn=lambda rec, verdict: "%s:%s" % (verdict, rec.get("act") or rec.get("op")))
    recs = j["records"]
    # a violation's replay artefact carries the whole history of its case, not just the failing step
    by_id = {id(x): i for i, x in enumerate(recs)}
    for v in ctx.violations + [h[1] for h in ctx.known_hits]:
        i = by_id.get(id(v["case"]))
        if i is not None:
            start = max(k for k in range(i + 1) if recs[k]["op"] == "reset")
            v["detail"] = {"history": recs[start:i + 1]}
            brief = [[x.get("act") or x["op"], x.get("b"), x.get("c")] + ([x["set"]] if x.get("set") else [])
                     for x in recs[start + 1:i + 1]]
            vf.log("violation %s: %s | case %s | last record %s" % (
                v["contract"], json.dumps(brief), json.dumps({k: recs[start].get(k) for k in ("src", "par", "gitonly", "otheronly", "abandon", "nb")}),
                json.dumps(recs[i])[:700]))
    n_cases = sum(1 for x in recs if x["op"] == "reset")
    n_replayed = sum(1 for x in recs if x["op"] == "reset" and x["src"] == "tlc")
    if n_replayed != len(behs):
        raise vf.ToolError("replayed %d behaviours, generated %d" % (n_replayed, len(behs)))
    flagged = set(j["diverges"]) | {i for i, _ in j["bad"]}
    case_flagged, cur = {}, None
    for i, x in enumerate(recs):
        if x["op"] == "reset":
            cur = i
        if i in flagged:
            case_flagged[cur] = True
    cur, mism = None, 0
    for i, x in enumerate(recs):
        if x["op"] == "reset":
            cur = i
        if x.get("match") is False:
            mism += 1
            if not case_flagged.get(cur):
                raise vf.ToolError("replay step %d differs from the model's expected state but the judge saw nothing: %s" % (i, x))
    ctx.cov["replay_mismatches"] = mism
    seen, pushes, rejected, many_pushes, many_stale = set(), 0, 0, 0, 0
    for x, pre in classify(recs):
        if x["op"] == "Push" and (x["asked"] or x.get("fillers")):
            pushes += 1
            rejected += 1 if x["rejected"] else 0
            if x.get("fillers"):
                many_pushes += 1
                many_stale += 1 if any(pre["remote"][b - 1] != pre["track"][b - 1] for b in x["asked"]) else 0
        if nontrivial(x, pre):
            key = json.dumps([pre["local"], pre["track"], pre["remote"], x["op"], x.get("set"), x["post"]["local"],
                              x["post"]["track"], x["post"]["remote"]])
            if key not in seen:
                seen.add(key)
                if x["op"] == "Push" and x["rejected"] and x["pushed"]:
                    ctx.sample({"pre": pre, "step": x}, 2)
                elif x["op"] == "Push":
                    ctx.sample({"pre": pre, "step": x}, 4)
    ctx.cov["distinct_nontrivial"] = len(seen)
    ctx.cov["behaviours_replayed"] = n_replayed
    ctx.cov["behaviours_exhaustive_transitions"] = n_exh
    ctx.cov["random_histories"] = n_cases - n_replayed
    ctx.cov["real_git_pushes_by_jj"] = pushes
    ctx.cov["pushes_with_a_rejection"] = rejected
    ctx.cov["many_ref_behaviours_replayed"] = len(many)
    ctx.cov["pushes_of_more_than_64_refs"] = many_pushes
    ctx.cov["of_which_with_a_stale_modelled_bookmark"] = many_stale
    ctx.cov["exhaustive"] = True
    ctx.cov["exhaustive_domain"] = ("model: all reachable states, 2 bookmarks, %d commits (one known only to the other clone); "
                                    "binding: every transition of the 1-bookmark model (%s) up to depth 5%s" % (
                                        ctx.q(3, 4), ctx.q("2 commits", "4 commits"),
                                        ctx.q("", " and of the 2-bookmark model up to depth 3")))
    ctx.cov["rule"] = ("steps = model actions executed on the real repositories and judged by TLC; non-trivial = a Push of a "
                       "bookmark whose remote branch is not where jj last recorded it (stale, deleted, or already at the new "
                       "value), or a Fetch that has to merge a remote move into a locally moved bookmark; distinct by "
                       "(pre-state, action, post-state)")
    if many_pushes == 0 or many_stale == 0:
        raise vf.ToolError("the many-refs dimension was not exercised (%d pushes, %d stale)" % (many_pushes, many_stale))
    ctx.assumptions += [
        "filler bookmarks of the many-refs dimension are in sync before every push and all moved by it (1 <-> 2); the recorder checks that each went through (FillersPushedOK)",
        "pushes by jj and by the other clone are sequential; the compare-and-swap inside `git push --force-with-lease` / receive-pack is git's",
        "Fetch = git CLI fetch + jj import_refs (installed git 2.39 < 2.41 required by jj's GitFetch)",
        "A5: the projection (commit id -> model number) is correct; remote refs read from ref files are confirmed by git itself at every step",
    ]
