"""C42 Immutable commits are never rewritten (spec/Workspace)."""
import json
from concurrent.futures import ThreadPoolExecutor

import vf
from checks import c40

META = dict(
    category="exploration",
    engine="Workspace",
    technique="TLA+ spec Workspace (CheckRewritable, snapshot on an immutable working-copy commit): TLC model "
              "checking + seeded random jj CLI sessions with random immutable_heads() settings judged by TLC",
    text="Workspace.tla models check_rewritable and the two places where the CLI avoids touching an immutable "
         "working-copy commit (snapshot creates a child; a working-copy commit that became immutable gets a child); "
         "TLC checks InvImmutable - every commit immutable in the view a command loaded is still visible, same id, in "
         "every view the command produces - over all interleavings of 2 commands in 2 workspaces with commands that "
         "move the immutable heads; three negative configs (no check, heads-only instead of ancestors, snapshot "
         "amends) must fail. The real jj is then driven through seeded random sessions with a random "
         "revset-aliases.\"immutable_heads()\" (9 settings: bookmarks, tags, descriptions, named bookmark, none, "
         "default), targets given by commit id, change id, bookmark, tag or @-relative expressions, ~30 command "
         "shapes without --ignore-immutable; before each command jj itself lists immutable(), afterwards all "
         "visible commits are projected through jj-lib; TLC judges ImmutableKeptOK per command. Sampled.",
    note="Commands that restore an operation's view (undo, redo, op restore, op revert) are exempt: they may hide "
         "commits by design and are judged by C41. No remotes, so untracked_remote_bookmarks() is empty. "
         "Trusted: TLC, jj's own evaluation of immutable() as the reference set, dump.rs.",
    design="4 C42",
)
READY = True
LEVEL = META["category"]


def sig_fn(r, verdict):
    if verdict == "Panic":
        return c40.cs_panic_sig(r)
    if verdict == "ImmutableKeptOK":
        return "ImmutableKeptOK:%s" % r["kind"]
    return verdict


def run(ctx):
    cfg = ctx.q("MC_Workspace_imm_q", "MC_Workspace_imm_thorough")
    r = vf.tlc_mc("MC_Workspace", cfg, workers=ctx.q(8, 12), timeout=ctx.q(600, 2400))
    ctx.add_mc(r, cfg)
    negs = [("snap_amends_immutable", "InvImmutable"), ("no_check", "InvImmutable"), ("imm_heads_only", "InvImmutable")]
    with ThreadPoolExecutor(max_workers=3) as ex:
        list(ex.map(lambda b: vf.tlc_mc("MC_Workspace", "MC_Workspace_neg_" + b[0], expect_violation=b[1],
                                        workers=2, timeout=900), negs))
    for b, inv in negs:
        ctx.cov["tlc_runs"].append({"run": "negative:" + b, "outcome": "fails as required (%s)" % inv})
    sessions = c40.run_sessions(ctx, "c42", n_max=ctx.q(24, 400), n_min=ctx.q(10, 60), ncmds=ctx.q(12, 20),
                                budget_s=ctx.q(55, 420), par=ctx.q(8, 12))
    trace = ctx.path("c42.ndjson")
    with open(trace, "w") as f:
        for s in sessions:
            for rec in s.records:
                f.write(json.dumps(rec) + "\n")

    def nontrivial(r):
        # a command that was refused for immutability, or that succeeded while some non-root commit was immutable
        return r.get("op") == "imm" and not r["exempt"] and (
            "immutable" in r["err"] or (r["rc"] == 0 and r["nops"] > 0 and len(r["imm_before"]) > 1))
    j = vf.judge_records(ctx, "Trace_Workspace", trace, sig_fn=sig_fn, chunk=600, nontrivial_fn=nontrivial)
    recs = [r for r in j["records"] if r.get("op") == "imm"]
    ctx.cov["evaluations"] = len(recs)
    ctx.cov["sessions"] = len(sessions)
    ctx.cov["refused_as_immutable"] = sum(1 for r in recs if "immutable" in r["err"])
    ctx.cov["exempt_restore_commands"] = sum(1 for r in recs if r["exempt"])
    ctx.cov["settings"] = sorted({r["setting"] for r in recs})
    kinds = {}
    for r in recs:
        k = "%s/%s" % (r["kind"], "ok" if r["rc"] == 0 else ("immutable" if "immutable" in r["err"] else "fails"))
        kinds[k] = kinds.get(k, 0) + 1
    ctx.cov["command_kinds"] = kinds
    ctx.cov["rule"] = ("records = jj commands of seeded random sessions under a random immutable_heads() setting; non-trivial = "
                       "distinct records where jj refused the command because a target was immutable, or a command committed "
                       "an operation while at least one non-root commit was immutable")
    for r in recs:
        if nontrivial(r):
            ctx.sample({k: r[k] for k in ("ws", "argv", "rc", "setting", "imm_before", "err")}, 4)
    ctx.assumptions += ["jj's own `immutable()` revset evaluated before the command defines the protected set",
                        "undo/redo/op restore/op revert are out of scope (judged by C41)",
                        "A5: projections (dump.rs) are correct"]
