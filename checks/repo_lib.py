"""Shared by checks c10, c11, c13, c46 (spec/Repo.tla): run the random transaction
driver against the real jj-lib, have TLC (Trace_Repo) judge the log case by case,
run the design-level model checks of MC_Repo, replay TLC-generated behaviours."""
import json
import os
import tempfile
from concurrent.futures import ThreadPoolExecutor

import vf

# which verdict / panic belongs to which property
FAMILY = {
    "C10": dict(verdicts=("ViewOK:",), calls=("commit", "edit", "check_out", "remove_workspace")),
    "C11": dict(verdicts=("RebaseOK:", "PredsOK:rewrite-without-predecessor"), calls=("rebase",)),
    "C13": dict(verdicts=("MergeOK:",), calls=("merge_operations", "load_at_head")),
    # a rewrite without its predecessor record breaks both C11 ("records its predecessor") and
    # C46 ("lists every commit it was rewritten from"): both checks report it
    "C46": dict(verdicts=("WalkOK:", "PredsOK:"), calls=("walk_predecessors",)),
}


def judge_cases(module, path, per_chunk=40, par=6, timeout=1500):
    """TLC judges a trace made of cases (each starts with a reset record); chunks are cut
    at case boundaries because Trace_Repo carries the observed graph from event to event."""
    lines = [x for x in open(path) if x.strip()]
    cases, cur = [], []
    for i, x in enumerate(lines):
        if '"op":"reset"' in x and cur:
            cases.append(cur)
            cur = []
        cur.append((i, x))
    if cur:
        cases.append(cur)
    chunks = [sum(cases[i:i + per_chunk], []) for i in range(0, len(cases), per_chunk)]
    tmp = tempfile.mkdtemp(prefix="vf-repo-")

    def one(k):
        ch = chunks[k]
        p = os.path.join(tmp, "c%d.ndjson" % k)
        with open(p, "w") as f:
            f.writelines(x for _, x in ch)
        j = vf.tlc_judge(module, p, chunk=10 ** 9, par=1, timeout=timeout)
        return [(ch[i][0], v) for i, v in j["bad"]], j["judged"], j["states"], j["transitions"]

    try:
        with ThreadPoolExecutor(par) as ex:
            res = list(ex.map(one, range(len(chunks))))
    finally:
        import shutil
        shutil.rmtree(tmp, ignore_errors=True)
    bad = sum((r[0] for r in res), [])
    return dict(bad=bad, judged=sum(r[1] for r in res), states=sum(r[2] for r in res),
                transitions=sum(r[3] for r in res), records=[json.loads(x) for x in lines], cases=len(cases))


def case_of(recs, idx):
    """the events of the case containing record idx, up to idx (the replayable failing history)"""
    s = idx
    while s > 0 and recs[s].get("op") != "reset":
        s -= 1
    return [r for r in recs[s:idx + 1] if r.get("op") != "walk" or r is recs[idx]]


def record_and_judge(ctx, pid, n_cases, steps, kind_fn, nontrivial_fn):
    """I->S: drive the real code, judge with TLC, report this property's verdicts."""
    trace = ctx.path("repo.ndjson")
    ctx.harness("repo", ["record", "--out", trace, "--seed", ctx.seed, "--n", n_cases, "--steps", steps,
                         "--tier", ctx.tier], timeout=3000)
    j = judge_cases("Trace_Repo", trace, par=ctx.q(6, 10))
    recs = j["records"]
    fam = FAMILY[pid]
    mine = [r for r in recs if kind_fn(r)]
    ctx.cov["states"] += j["states"]
    ctx.cov["transitions"] += j["transitions"]
    ctx.cov["traces_validated_against_impl"] += j["cases"]
    ctx.cov["evaluations"] += len(mine)
    ctx.cov["events_judged_all_properties"] = j["judged"]
    ctx.cov["distinct_nontrivial"] += len({json.dumps(r, sort_keys=True) for r in mine if nontrivial_fn(r)})
    for idx, verdict in j["bad"]:
        r = recs[idx]
        if verdict.startswith("harness:"):
            raise vf.ToolError("harness produced a malformed record %d: %s %s" % (idx, verdict, r))
        if verdict.startswith("Panic"):
            if r.get("call") in fam["calls"]:
                ctx.violation(verdict, "NoPanic:" + r.get("call", "?"), case_of(recs, idx), detail=r.get("msg"))
        elif verdict.startswith(fam["verdicts"]):
            ctx.violation(verdict, verdict, case_of(recs, idx))
    for r in mine:
        if nontrivial_fn(r):
            ctx.sample(r, 4)
    return j


def model_check(ctx, cfgs, negatives):
    """design level: TLC explores MC_Repo (the transcribed MutableRepo/Transaction state
    machine) and checks the contracts as invariants; negative configs must fail."""
    for cfg, workers, timeout in cfgs:
        r = vf.tlc_mc("MC_Repo", cfg, workers=workers, timeout=timeout)
        ctx.add_mc(r, cfg)
    for cfg, inv in negatives:
        vf.tlc_mc("MC_Repo", cfg, expect_violation=inv, workers=4, timeout=600)
        ctx.cov["tlc_runs"].append({"run": "negative:" + cfg, "outcome": "fails as required (%s)" % inv})


COMMON_ASSUMPTIONS = [
    "A5: the projection in harness/jjconf/src/bin/repo/world.rs (commit/change/operation ids -> small integers, views -> [heads, bm, wc]) is correct",
    "domain: rewrite records are acyclic; a commit gets at most one plain rewrite between two rebase_descendants calls; a workspace is not moved off a commit that has a pending record; concurrent transactions reparent commits only onto their own ancestors (no cross-side cycles)",
    "trees are per-commit unique files (no content conflicts); emptiness is what Commit::is_empty reports",
]


def simulate(ctx, num, depth=40):
    """design level, beyond the exhaustive bounds: random behaviours of the larger model
    (MaxActs=3, 10 commits, 5 operations), every invariant evaluated in every state."""
    r = vf.tlc("MC_Repo", "MC_Repo_sim", workers=ctx.q(4, 8), timeout=ctx.q(900, 2400),
               simulate="num=%d" % num, extra=["-depth", str(depth), "-seed", str(ctx.seed)])
    if r["error"] is not None:
        raise vf.ToolError("MC_Repo_sim: the model violates its own invariants: %s\n%s" % (
            r["invariant"] or r["error"], r["raw_tail"]))
    m = [int(x) for x in __import__("re").findall(r"The number of states generated: (\d+)", r["raw_tail"])]
    n = m[-1] if m else 0
    ctx.cov["states"] += n
    ctx.cov["transitions"] += n
    ctx.cov["tlc_runs"].append({"run": "MC_Repo_sim (simulation num=%d)" % num, "generated": n,
                                "wall_s": round(r["wall"], 1), "outcome": "ok"})


# which replay mismatch belongs to which property
REPLAY_OWNER = {"RebaseDescendants": "C11", "MergeHeads": "C13"}


def replay(ctx, pid, num):
    """S->I: TLC generates behaviours of the Repo machine (actions + expected abstract state
    after each); the harness replays them through the real MutableRepo/Transaction/RepoLoader
    and compares the projected state after every action."""
    behs, r = vf.tlc_generate("MC_RepoGen", "MC_RepoGen", simulate="num=%d" % num, seed=ctx.seed,
                              timeout=ctx.q(900, 2400))
    if not behs:
        raise vf.ToolError("generator produced no behaviour:\n" + r["raw_tail"])
    # plus, exhaustively, every single-action transaction from the seeded history (MaxActs = 1): this
    # always contains "a fresh transaction that only creates a commit / a merge commit on the HIDDEN
    # commit 5" and every other action alone in its transaction
    small, r2 = vf.tlc_generate("MC_RepoGen", "MC_RepoGen_small", timeout=900, workers=4)
    ctx.cov["tlc_runs"].append({"run": "MC_RepoGen_small (exhaustive single-action transactions)",
                                "behaviours": len(small), "distinct": r2["distinct"],
                                "wall_s": round(r2["wall"], 1), "outcome": "ok"})
    ctx.cov["states"] += r2["distinct"]
    ctx.cov["transitions"] += r2["generated"]
    behs = small + behs
    bf = ctx.path("behaviours.ndjson")
    with open(bf, "w") as f:
        for b in behs:
            f.write(json.dumps({"model": "Repo", "steps": b}) + "\n")
    of = ctx.path("replayed.ndjson")
    ctx.harness("repo", ["replay", "--behaviours", bf, "--out", of], timeout=3000)
    res = [json.loads(x) for x in open(of)]
    if len(res) != len(behs):
        raise vf.ToolError("replayer returned %d results for %d behaviours" % (len(res), len(behs)))
    steps = sum(x["steps"] for x in res)
    ctx.cov["traces_validated_against_impl"] += len(res)
    ctx.cov["evaluations"] += steps
    ctx.cov["replayed_behaviours"] = len(res)
    ctx.cov["replayed_steps"] = steps
    ctx.cov["tlc_runs"].append({"run": "MC_RepoGen (behaviour generator, simulation num=%d)" % num,
                                "behaviours": len(behs), "wall_s": round(r["wall"], 1), "outcome": "ok"})
    acts = {}
    for b in behs:
        for s in b:
            acts[s["a"]] = acts.get(s["a"], 0) + 1
    ctx.cov["replayed_actions"] = acts
    for x in res:
        if x["ok"]:
            continue
        f = x["fail"]
        owner = REPLAY_OWNER.get(f["action"])
        if owner is None:
            owner = "C46" if "predecessor" in f["why"] else "C10"
        if owner == pid:
            steps_run = behs[x["idx"]][:f["at"]]
            ctx.violation("replay:%s:%s" % (f["action"], f["why"].replace(" ", "-")),
                          "Replay:" + f["action"], {"behaviour": steps_run, "mismatch": f})
    return behs
