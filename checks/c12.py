"""C12 Bookmark target merges resolve only when safe (spec/RefTarget)."""
import json

import vf

META = dict(
    category='model_checking',
    engine='RefTarget',
    technique='TLA+ spec RefTarget (transcription of merge_ref_targets + contract RefMergeOK): TLC exhaustive on the model + TLC-judged calls of the real merge_ref_targets on real commits',
    text='TLC proves the transcribed merge_ref_targets (trivial 3-way, flatten+simplify, find_pair_to_remove/swap_remove loop) meets RefMergeOK for every triple of targets with <=3 terms over {absent,c1,c2,c3} on all five ancestry relations three commits can have (15 680 triples quick, 1 572 160 thorough). The real merge_ref_targets is then called on real commits of a TestRepo for the same exhaustive domain (<=1 conflicted input quick, <=2 thorough, sampled 3-conflicted) plus random DAGs of <=6 commits with targets of <=5 terms; TLC judges every call against the same contract. Exhaustive inside the bounds, sampled beyond.',
    note='Contract = unchanged side / both agree / fast-forward along one line / no invented commit / no surviving side dropped unless an ancestor of a kept side / resolved inputs resolve only in those cases. The exact transcription result is compared as divergence only. merge_remote_refs (state field) is not covered.',
    design='4 C12',
)
READY = True
LEVEL = META["category"]


def nontrivial(r):
    # none of the three trivial cases applies, i.e. flatten/simplify/ancestry decide
    return r.get("op") == "refmerge" and not (r["l"] == r["b"] or r["r"] == r["b"] or r["l"] == r["r"])


def run(ctx):
    cfg = ctx.q("MC_RefTarget", "MC_RefTarget_thorough")
    r = vf.tlc_mc("MC_RefTarget", cfg, workers=ctx.q(6, 12), timeout=ctx.q(300, 1500))
    ctx.add_mc(r, cfg)
    for bug in ("pick", "noff", "stale"):
        vf.tlc_mc("MC_RefTarget", "MC_RefTarget_neg_" + bug, expect_violation="InvRefMerge", workers=2)
        ctx.cov["tlc_runs"].append({"run": "negative:" + bug, "outcome": "fails as required (InvRefMerge)"})
    trace = ctx.path("c12.ndjson")
    mc = ctx.q(1, 2)
    ctx.harness("repo", ["refmerge", "--out", trace, "--seed", ctx.seed, "--maxconflicted", mc,
                         "--sample", ctx.q(3000, 40000), "--random", ctx.q(3000, 30000)])
    j = vf.tlc_judge("Trace_RefTarget", trace, chunk=ctx.q(4000, 12000), par=ctx.q(6, 12), timeout=1500)
    recs = j["records"]
    ctx.cov["states"] += j["states"]
    ctx.cov["transitions"] += j["transitions"]
    ctx.cov["traces_validated_against_impl"] += j["judged"]
    ctx.cov["evaluations"] += j["judged"]
    ctx.cov["divergence_from_reference"] += len(j["diverges"])
    ctx.cov["distinct_nontrivial"] += len({json.dumps(x, sort_keys=True) for x in recs if nontrivial(x)})
    for idx, verdict in j["bad"]:
        x = recs[idx]
        if verdict.startswith("harness:"):
            raise vf.ToolError("harness produced a malformed record %d: %s %s" % (idx, verdict, x))
        ctx.violation(verdict, verdict, x)
    dom = [x for x in recs if x.get("op") == "domain"][0]
    want = 5 * {1: 3136, 2: 52288, 3: 314432}[mc]
    if dom["count"] != want:
        raise vf.ToolError("harness domain is not the spec's domain: %s (want %d)" % (dom, want))
    ctx.cov["exhaustive"] = True
    ctx.cov["exhaustive_domain"] = ("all triples of targets with <=3 terms over {absent,c1,c2,c3}, at most %d conflicted, "
                                    "on 5 ancestry shapes (%d), plus sampled fully conflicted triples and random DAGs "
                                    "(<=6 commits, <=5 terms)" % (mc, want))
    ctx.cov["rule"] = ("records = calls of merge_ref_targets on real commits; non-trivial = none of L=B, R=B, L=R holds "
                       "(flatten/simplify/ancestry decide); distinct by full record (DAG + three targets)")
    for x in recs:
        if nontrivial(x) and len(x["out"]) == 1 and len(x["l"]) == 3:
            ctx.sample(x, 2)
    for x in recs:
        if nontrivial(x) and len(x["out"]) >= 3 and len(x["par"]) > 3:
            ctx.sample(x, 5)
    ctx.assumptions += ["ancestry among <=3 named commits is one of the 5 posets on 3 elements; unnamed commits do not influence merge_ref_targets",
                        "A5: the id<->integer projection in harness/jjconf/src/bin/repo/c12.rs is correct (unknown ids map to -1 and are judged as invented)"]
