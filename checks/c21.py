"""C21 Stacked tables keep every saved entry under concurrent writers (spec/StackedTable)."""
import json

import vf

META = dict(
    category="model_checking",
    engine="StackedTable",
    technique="TLA+ spec StackedTable: TLC exhaustive on the model + TLC-generated writer scripts replayed on the real TableStore + TLC-judged logs",
    text=("The squash rule, merge_in walk, save_table and get_head(_locked) are transcribed; TLC checks AllSavedFound, "
          "HeadsNeverLost, SaveView and 'every LaterWins violation has the known squash shape' over all behaviours of 2-3 "
          "writers with stale tables, divergent heads and both directory-listing orders (negative configs: merge that drops "
          "entries, merge that removes its own head, plain LaterWins must fail). Binding: every maximal behaviour of the model "
          "(plus simulated and seeded random scripts) is executed on a real on-disk TableStore with one TableStore::load per "
          "writer; lookups, segment chains and head files are logged after every operation and TLC judges each log against "
          "the same contracts, rebuilding the ghost state from the log."),
    note=("Operations (get_head, save_table) are atomic steps; the interleaving of their file-system sub-steps is not "
          "explored here (C15 covers crash points). Directory-listing order is read by the harness with the same readdir call "
          "just before get_head. Values are unique per put so a value identifies the save that wrote it."),
    design="4 C21")
READY = True
LEVEL = META["category"]


def to_script(hist):
    out = []
    for h in hist:
        if h["op"] == "gethead":
            out.append({"op": "gethead", "w": h["w"]})
        else:
            for i, k in enumerate(h["ks"]):
                out.append({"op": "put", "w": h["w"], "k": k, "v": h["v"] + i})
            out.append({"op": "save", "w": h["w"]})
    return out


def sig(rec, verdict):
    if verdict == "LaterWins:squash-hides-ancestry":
        return "squash-hides-ancestry"
    if verdict == "LaterWins:shared-ancestor-recopied":
        return "shared-ancestor-recopied"
    return verdict


def run(ctx):
    cfg = ctx.q("MC_StackedTable_q", "MC_StackedTable_thorough")
    r = vf.tlc_mc("MC_StackedTable", cfg, workers=ctx.q(6, 12), timeout=ctx.q(600, 2400))
    ctx.add_mc(r, cfg)
    for neg, inv in (("neg_rmmerged", "HeadsNeverLost"), ("neg_mergedrops", "AllSavedFound"), ("finding", "LaterWins")):
        vf.tlc_mc("MC_StackedTable", "MC_StackedTable_" + neg, expect_violation=inv, workers=4, timeout=600)
        ctx.cov["tlc_runs"].append({"run": "negative:" + neg, "outcome": "fails as required (%s)" % inv})
    # S->I scripts from the model: every maximal behaviour (2 writers) + simulated (3 writers)
    hists, g = vf.tlc_generate("MC_StackedTable", "MC_StackedTable_gen", workers=4, timeout=900)
    ctx.add_mc(g, "script generator (every maximal behaviour, 2 writers)")
    hs2, g2 = vf.tlc_generate("MC_StackedTable", "MC_StackedTable_gensim", workers=1, timeout=900,
                              simulate="num=%d" % ctx.q(300, 4000), seed=ctx.seed + 1)
    if ctx.tier == "quick" and len(hists) > 4000:
        # deterministic subsample for the quick tier; thorough runs them all
        step = len(hists) // 4000 + 1
        hists = hists[ctx.seed % step::step]
    traces = []
    for tag, hh, writers in (("gen", hists, 2), ("sim", hs2, 3)):
        sp = ctx.path(tag + "-scripts.ndjson")
        with open(sp, "w") as f:
            for h in hh:
                f.write(json.dumps(to_script(h)) + "\n")
        tp = ctx.path(tag + "-trace.ndjson")
        ctx.harness("stable", ["run", "--scripts", sp, "--out", tp, "--keys", 4, "--writers", writers])
        traces.append(tp)
    tp = ctx.path("rand-trace.ndjson")
    ctx.harness("stable", ["run", "--out", tp, "--keys", 4, "--writers", 3, "--n", ctx.q(600, 8000),
                           "--len", 16, "--seed", ctx.seed])
    traces.append(tp)
    merged = ctx.path("all.ndjson")
    with open(merged, "w") as out:
        for t in traces:
            out.write(open(t).read())
    j = vf.judge_records(ctx, "Trace_StackedTable", merged, chunk=4000, sig_fn=sig,
                         case_start=lambda line: '"op":"reset"' in line)
    recs = j["records"]
    cases = sum(1 for r in recs if r.get("op") == "reset")
    merges = {json.dumps(r, sort_keys=True) for r in recs if r.get("op") == "gethead" and len(r.get("order", [])) > 1}
    ctx.cov["traces_validated_against_impl"] = cases
    ctx.cov["scripts_from_tlc"] = len(hists) + len(hs2)
    ctx.cov["distinct_nontrivial"] = len(merges)
    ctx.cov["rule"] = ("a case = one script of gethead/put/save/reload by 2-3 writers on a real TableStore, ending with a load by a "
                       "fresh process; evaluations = logged operations judged by TLC; distinct_nontrivial = distinct get_head "
                       "events that merged divergent heads (by full record)")
    for r in recs:
        if r.get("op") == "gethead" and len(r.get("order", [])) > 1:
            ctx.sample(r, 3)
    ctx.assumptions += ["get_head and save_table are atomic with respect to each other",
                        "readdir order of an unchanged directory is stable between two listings"]
