"""C11 Rewrites leave no orphans and references follow (spec/Repo)."""
from checks import repo_lib

META = dict(
    category='model_checking',
    engine='Repo',
    technique='TLA+ spec Repo.RebaseDescendants (transcription of rebase_descendants: ordering, new_parents, bookmark/working-copy/head updates) + contract RebaseOK: TLC on the model; TLC-judged log of real rebase_descendants calls (I->S); TLC-generated behaviours replayed (S->I)',
    text='Contract RebaseOK after every rebase_descendants call: no visible commit sits on a rewritten/abandoned commit (divergent records excepted, as documented), old commits are hidden, each rebased commit keeps change id and description and (at commit) has its source in the predecessor records, nothing visible is lost, bookmarks at rewritten commits follow / at abandoned ones move to the resolved parents or are deleted when asked, working copies follow (fresh empty child for an abandoned one), two visible commits share a change id only after a divergent record or divergent input. TLC checks the transcription against it over the bounded state machine (chains A->B->C, chains ending in an abandoned commit, abandoned merges, divergent rewrites, keep/abandon-empty policies, delete-bookmarks flag) and generates behaviours that are replayed exactly; the random driver logs real calls (all three empty policies, conflicted bookmarks, two workspaces) that TLC judges. Two genuine findings are reported as KNOWN-FINDING (see notes/repo.md).',
    note='immutable set is always empty; simplify_ancestor_merge off. Exact new-parent lists are compared in the S->I replay; the I->S judge states the property only.',
    design='4 C11',
)
READY = True
LEVEL = META["category"]


def is_mine(r):
    return r.get("op") == "rebase"


def nontrivial(r):
    return len(r["rb"]) >= 1 or r["v0"]["bm"] != r["v1"]["bm"] or r["v0"]["wc"] != r["v1"]["wc"]


def run(ctx):
    repo_lib.model_check(ctx,
                         [(ctx.q("MC_Repo_quick", "MC_Repo"), ctx.q(6, 10), ctx.q(900, 3000))],
                         [("MC_Repo_neg_nobm", "InvC11")] + ctx.q([], [("MC_Repo_neg_nopred", "InvC11")])
                         + [("MC_Repo_finding", "InvC11")])
    ctx.cov["tlc_runs"][-1]["note"] = "MC_Repo_finding: with the guard against the known findings' shapes lifted TLC reproduces the finding on the model"
    repo_lib.simulate(ctx, ctx.q(50, 600))
    repo_lib.record_and_judge(ctx, "C11", ctx.q(60, 600), ctx.q(6, 8), is_mine, nontrivial)
    repo_lib.replay(ctx, "C11", ctx.q(20, 300))
    ctx.cov["rule"] = ("evaluations = real rebase_descendants calls judged by TLC (I->S) + replayed model steps (S->I); "
                       "non-trivial = at least one descendant rebased or a bookmark / working copy moved; distinct by the full "
                       "event (records, options, view before and after, new commits)")
    ctx.assumptions += repo_lib.COMMON_ASSUMPTIONS
