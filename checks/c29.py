"""C29 Line-ending conversion round-trips normalized content (spec/Eol)."""
import vf
from checks import wcutil

META = dict(
    category='exploration',
    engine='Eol',
    technique='TLA+ spec Eol: TLC exhaustive on run-length contents around the 8 KiB probe limit + TLC-judged records of real check-out/snapshot under each eol-conversion mode',
    text='File content is modelled as a run-length list over {text, CR, LF, NUL} with run lengths 1, 2 and 8190..8193 (the probe limit is 8192). TLC proves for every content of up to 4 runs (thorough: 5 runs) that the transcribed probe rule (incl. CR at the limit), ToLf and ToCrlf meet the contracts: binary content passes through, LF text is written as CRLF, snapshot(check-out(c)) = c for binary or LF-normalised c, and LF->CRLF expansion never makes a text file probe as binary; two seeded bugs (conversion of binary files, no CR-at-limit rule) fail. The same exhaustive domain (up to 3 runs, thorough 4) plus seeded random contents of up to 7 runs are then taken through a real LocalWorkingCopy check-out and snapshot (and a user-written file + snapshot) under each of none / input / input-output, and every record is judged by TLC against the same contracts.',
    note='Input space bounded (token classes, run-length vocabulary) - hence exploration. "Binary" means an indicator (NUL, CR not followed by LF) within the 8192-byte probe window as documented in eol.rs; text bytes are a single letter. eol.rs functions are pub(crate), so the binding goes through check-out and snapshot; snapshot is made to re-read each file by touching its mtime. Trusted: TLC, the byte<->run-length projection in harness/jjconf/src/bin/wc/eol.rs.',
    design='4 C29',
)
READY = True
LEVEL = META["category"]

P = 8192


def total(rle):
    return sum(n for _, n in rle)


def nontrivial(r):
    # content that reaches the probe limit, or contains a CR, or a NUL, under a converting mode
    if r.get("op") not in ("eol", "eolsnap") or r["mode"] == "none":
        return False
    c = r["stored"] if r["op"] == "eol" else r["disk"]
    return total(c) >= P - 2 or any(cls in (1, 3) for cls, _ in c)


def sig(r, verdict):
    c = r.get("stored") if r.get("op") == "eol" else r.get("disk")
    if c is None:
        return verdict
    near = "at-limit" if total(c) >= P - 2 else "short"
    kind = "nul" if any(cls == 3 for cls, _ in c) else "cr" if any(cls == 1 for cls, _ in c) else "lf-text"
    return "%s:%s:%s:%s" % (verdict, r.get("mode"), kind, near)


def run(ctx):
    cfg = ctx.q("MC_Eol", "MC_Eol_thorough")
    r = vf.tlc_mc("MC_Eol", cfg, workers=ctx.q(8, 14), timeout=ctx.q(300, 1500))
    ctx.add_mc(r, cfg)
    for bug, inv in (("binary", "InvUpdate"), ("limit", "InvRoundTrip")):
        vf.tlc_mc("MC_Eol", "MC_Eol_neg_" + bug, expect_violation=inv, workers=4)
        ctx.cov["tlc_runs"].append({"run": "negative:" + bug, "outcome": "fails as required (%s)" % inv})
    trace = ctx.path("c29.ndjson")
    maxruns = ctx.q(3, 4)
    wcutil.harness_tmp(ctx, ["eol", "--out", trace, "--seed", ctx.seed, "--maxruns", maxruns,
                             "--random", ctx.q(300, 2000)], timeout=ctx.q(600, 1500))
    j = vf.judge_records(ctx, "Trace_Eol", trace, nontrivial_fn=nontrivial, sig_fn=sig, chunk=ctx.q(1500, 6000))
    recs = j["records"]
    dom = [x for x in recs if x.get("op") == "domain"]
    # number of normal-form contents with <= maxruns runs: 12 first runs, then 6 text lengths after a
    # non-text run / 2 lengths x the other classes
    def count(k):
        t, o = 6, 6   # sequences ending in text / in another class, of length 1
        tot = 1 + t + o
        for _ in range(k - 1):
            t, o = o * 6, t * 6 + o * 4
            tot += t + o
        return tot
    if len(dom) != 1 or dom[0]["count"] != count(maxruns):
        raise vf.ToolError("harness domain is not the spec's domain: %s (want %d)" % (dom, count(maxruns)))
    n_eol = sum(1 for x in recs if x.get("op") == "eol")
    if n_eol != 3 * (dom[0]["count"] + dom[0]["random"]):
        raise vf.ToolError("missing records: %d eol records" % n_eol)
    ctx.cov["exhaustive"] = False
    ctx.cov["exhaustive_domain"] = "all contents of <= %d runs over {text,CR,LF,NUL}, text run lengths {1,2,8190..8193}, other {1,2} (%d) x 3 modes x {check-out+snapshot, user file+snapshot}; plus %d random contents" % (maxruns, dom[0]["count"], dom[0]["random"])
    ctx.cov["rule"] = ("records = one content through real check-out+snapshot (eol) or user-write+snapshot (eolsnap) under one mode; "
                       "non-trivial = converting mode and content that reaches the probe limit or contains CR or NUL; distinct by full record")
    k = 0
    for x in recs:
        if nontrivial(x) and x["op"] == "eol" and x["mode"] == "input-output" and total(x["stored"]) > P and k < 4:
            ctx.sample(x, 4)
            k += 1
    ctx.assumptions += [
        "text bytes are represented by one letter; bytes other than CR, LF, NUL are not distinguished by eol.rs",
        "touching a file's mtime makes the next snapshot re-read it (FileState::is_clean)",
        "TLC evaluates spec/Eol.tla correctly",
    ]
