"""C16 Operations and views round-trip and are content-addressed (spec/Encoding)."""
import copy
import json
from concurrent.futures import ThreadPoolExecutor

import vf
from checks import clifn_common as cc

META = dict(
    category='exploration',
    engine='Encoding',
    technique='TLA+ spec Encoding: TLC enumerates a structurally exhaustive family of views/operations and checks the '
              'encoding laws on the model; the real SimpleOpStore writes/reads each member and TLC judges the records',
    text='TLC enumerates every view and operation that differs from a sparse or a rich base value in at most 2 (quick) / 3 '
         '(thorough) of 18 view slots / 11 operation slots (0-2 heads; local targets absent, normal, 3-term with absent add or '
         'remove, 5-term, and conflicted targets with REPEATING terms - [a,b,b], [b,b,a], [a,a,a], [a,absent,absent], [absent,absent,a], 5 terms with one cancelling pair - in every ref category and both remote states; remote bookmarks and tags x {new, tracked} x {absent, normal, conflicted}; empty remote views; git refs; '
         'git heads of the default and a second workspace; 0-2 workspaces; parents, timestamps incl. negative and > 2^31 s, tz, '
         'string classes, attributes, commit predecessors None/empty/non-empty) and proves on the model that the legacy bookmark '
         'form and the whole protobuf form are lossless on valid views. Each member is written through the real SimpleOpStore, '
         'read back through a fresh store instance, written again (built in reverse order) to a second store; TLC judges '
         'read = written, id = BLAKE2b of the ContentHash bytes, same id for the equal value, and over the whole family equal ids '
         '<=> equal values, distinct ContentHash byte streams, and injectivity of the model of the ContentHash stream. '
         'Exploration: the value space is sampled structurally (pairwise / triple-wise), not exhausted.',
    note='Valid views only (no resolved-absent local entries; absent remote refs only tracked under a present local ref), as '
         'jj\'s View setters produce; byte-level protobuf details are not modelled (TLC is enumerator and law judge). Trusted: '
         'TLC, the projection code in harness/jjconf/src/bin/encoding/views.rs (its concretise->project identity is re-checked '
         'on every record).',
    design='4 C16',
)
READY = True
LEVEL = META["category"]

NEG = [("legacy_state", "InvView"), ("legacy_conflict", "InvView"), ("githead", "InvView"), ("simplify", "InvView"), ("op_preds", "InvOp")]


def nontrivial(r):
    w = r.get("written")
    if r.get("op") == "view":
        targets = list(w["local"].values()) + list(w["tags"].values()) + list(w["gitRefs"].values()) + list(w["gitHeads"].values())
        rrefs = [x for rv in w["remotes"].values() for m in (rv["bookmarks"], rv["tags"]) for x in m.values()]
        return any(len(t) > 1 for t in targets) or any(x["t"] for x in rrefs)
    if r.get("op") == "op":
        return bool(w["preds"]) or len(w["parents"]) > 1 or any(w["meta"]["attributes"][k] for k in w["meta"]["attributes"])
    return False


def self_test(ctx, recs):
    """The judge must reject a record with one corrupted field (a tracked remote ref read back as new,
    a lost workspace name) and the negative model config must see a ContentHash collision."""
    def first(pred):
        return copy.deepcopy(next(x for x in recs if pred(x)))
    v = first(lambda x: x["op"] == "view" and x["written"]["remotes"]["origin"]["bookmarks"]["b1"]["s"] == "tracked")
    v["read"]["remotes"]["origin"]["bookmarks"]["b1"]["s"] = "new"
    v["dup_of"] = 0
    o = first(lambda x: x["op"] == "op" and x["written"]["meta"]["workspace_name"])
    o["read"]["meta"]["workspace_name"] = []
    o["dup_of"] = 0
    i = first(lambda x: x["op"] == "view" and x["written"] != v["written"])
    i["id"] = v["id"]
    i["dup_of"] = 1
    # a read-back whose repeating-term targets were simplified by hand ([c1, c2, c2] -> [c1], [c1, absent, absent] -> [c1])
    s1 = first(lambda x: x["op"] == "view" and x["written"]["local"]["b1"] == ["c1", "c2", "c2"])
    s1["read"]["local"]["b1"] = ["c1"]
    s1["dup_of"] = 0
    s2 = first(lambda x: x["op"] == "view" and x["written"]["remotes"]["git"]["tags"]["b1"]["t"] == ["c1", "", ""])
    s2["read"]["remotes"]["git"]["tags"]["b1"]["t"] = ["c1"]
    s2["dup_of"] = 0
    p = cc.write_ndjson(ctx.path("corrupt.ndjson"), [v, o, i, s1, s2])
    j = vf.tlc_judge("Trace_Encoding", p, chunk=10 ** 9)
    got = {v for _, v in j["bad"]}
    for want in ("ViewReadEqualsWritten", "OpReadEqualsWritten", "EqualIdsDifferentValues", "IdIsContentHash"):
        if want not in got:
            raise vf.ToolError("judge did not flag corrupted record with %s: %s" % (want, got))
    for k in (3, 4):
        if (k, "ViewReadEqualsWritten") not in j["bad"]:
            raise vf.ToolError("judge accepted a hand-simplified read-back (record %d): %s" % (k, j["bad"]))
    ctx.cov["tlc_runs"].append({"run": "judge self-test (5 corrupted records, 2 of them hand-simplified read-backs of repeating-term targets)", "outcome": "rejected as required: " + ", ".join(sorted(got))})


def run(ctx):
    # 1. TLC: enumerate the family, check the laws on the model (design level)
    cfgs = ctx.q(["MC_Encoding_c16"], ["MC_Encoding_c16_thorough", "MC_Encoding_c16"])
    uniq = {}
    for cfg in cfgs:
        cs, r = vf.tlc_generate("MC_Encoding", cfg, workers=ctx.q(8, 12), timeout=ctx.q(900, 2400))
        ctx.add_mc(r, cfg)
        if len(cs) != r["distinct"]:
            raise vf.ToolError("generator printed %d members for %d states" % (len(cs), r["distinct"]))
        for c in cs:
            uniq.setdefault(json.dumps(c, sort_keys=True), c)
    cases = list(uniq.values())
    for bug, inv in NEG:
        vf.tlc_mc("MC_Encoding", "MC_Encoding_neg_" + bug, expect_violation=inv, workers=4, timeout=300)
        ctx.cov["tlc_runs"].append({"run": "negative:" + bug, "outcome": "fails as required (%s)" % inv})
    # 2. S->I: the real SimpleOpStore on every member (order depends on the seed); views and operations are
    #    independent families: two harness runs and two judges in parallel
    cases = cc.shuffled(cases, ctx.seed)
    vf.build("encoding")

    def one(kind):
        inp = cc.write_ndjson(ctx.path("cases-%s.ndjson" % kind), [c for c in cases if c["kind"] == kind])
        trace = ctx.path("c16-%s.ndjson" % kind)
        ctx.harness("encoding", ["views", "--in", inp, "--out", trace], env=cc.scratch_env(), timeout=3000)
        return cc.judge(ctx, "Trace_Encoding", trace, nontrivial_fn=nontrivial, timeout=ctx.q(1200, 3000))

    with ThreadPoolExecutor(max_workers=2) as ex:
        js = list(ex.map(one, ["view", "op"]))
    recs = js[0]["records"] + js[1]["records"]
    if len(recs) != len(cases):
        raise vf.ToolError("harness wrote %d records for %d cases" % (len(recs), len(cases)))
    # 3. anti-vacuity of the judge
    if not ctx.violations:      # anti-vacuity of the judge; pointless (and short of clean records) once the run has failed
        self_test(ctx, recs)
    small = cc.write_ndjson(ctx.path("small.ndjson"), [dict(x, dup_of=0) for x in recs if x["op"] == "view" and x["dup_of"] == 0][:1500])
    cc.expect_bad("Trace_Encoding", small, "family:ModelHashInjective", cfg="Trace_Encoding_neg_hash")
    ctx.cov["tlc_runs"].append({"run": "negative:hash_no_length (model ContentHash without length prefixes)",
                                "outcome": "collision found as required (family:ModelHashInjective)"})
    n_view = sum(1 for x in recs if x["op"] == "view")
    n_op = sum(1 for x in recs if x["op"] == "op")
    ctx.cov["views"] = n_view
    ctx.cov["operations"] = n_op
    ctx.cov["rule"] = ("cases = every view / operation within %d slot changes of a sparse or a rich base value (TLC state space of "
                       "MC_Encoding; thorough = the triple-wise family with two repeating-term targets per category united with the pairwise family "
                       "with all six), each written through SimpleOpStore, read by a fresh store and written again to a second store; "
                       "non-trivial = a view with a conflicted target or any remote ref, an operation with several parents, attributes "
                       "or a predecessor map; distinct by abstract value" % ctx.q(2, 3))
    for x in recs:
        if nontrivial(x):
            ctx.sample({"op": x["op"], "written": x["written"], "id": x["id"][:16]}, 3)
    ctx.assumptions += [
        "valid views only: no resolved-absent local entries, absent remote refs only when tracked under a present local ref",
        "ids and hash bytes are compared as strings by TLC; BLAKE2b itself is trusted",
        "A5: the concretise/project code of the harness is correct (proj = written is re-checked per record)",
    ]
