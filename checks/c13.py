"""C13 Concurrent operations are merged without losing work (spec/Repo)."""
from checks import repo_lib

META = dict(
    category='model_checking',
    engine='Repo',
    technique='TLA+ spec Repo.MergeHeads (transcription of merge_view, record_rewrites, merge_wc_commit + rebase_descendants) + contract MergeOK: TLC on the model; TLC-judged log of real reconciliations (I->S); TLC-generated behaviours replayed through RepoLoader::merge_operations (S->I)',
    text='Contract MergeOK on every reconciled view (base, self side, other side, result): every commit either side created is visible or rewritten (per the merged operation\'s predecessor records) into a visible commit of its change, the only exemption being a discardable working-copy commit left behind; commits a side rewrote/abandoned are hidden (except below a divergent rewrite); per bookmark: changed on one side => that side\'s value (pushed through the other side\'s rewrites), changed identically => that value, changed differently => RefMergeOK of C12 (conflict holding both, or the fast-forward), never one side silently; working copies: the changing side\'s value followed through rewrites, both changed => one of the two with the other commit still there. TLC checks the transcription on the bounded machine (transactions started from any operation, both merge orders) and generates behaviours replayed exactly; the driver reconciles random concurrent pairs (load_at_head and merge_operations, both orders), triples (nested pairs, or ONE merge_operations call over three/four heads), nested forks (heads forked from different operations: A->B, A->X->C, X->D[, C->E, C->G], every order of three heads and six orders of four as scripted cases in every run plus random ones; the n-way result is judged as the last pair step against the pairwise intermediate) and criss-cross histories.',
    note='Criss-cross reconciliations are judged for ViewOK and predecessor records only (their virtual base view is internal). Concurrent sides reparent commits only onto their own ancestors (a cross-side cycle has no right answer). Tags/remote refs/git refs not modelled. Merge-order independence is not claimed.',
    design='4 C13',
)
READY = True
LEVEL = META["category"]


def is_mine(r):
    return r.get("op") == "merge"


def nontrivial(r):
    return len(r.get("new", [])) >= 1 or len(r["view"]["heads"]) >= 2


def run(ctx):
    repo_lib.model_check(ctx,
                         [(ctx.q("MC_Repo_quick", "MC_Repo"), ctx.q(6, 10), ctx.q(900, 3000))],
                         [("MC_Repo_neg_dropother", "InvC13")])
    repo_lib.simulate(ctx, ctx.q(50, 600))
    repo_lib.record_and_judge(ctx, "C13", ctx.q(60, 600), ctx.q(7, 9), is_mine, nontrivial)
    repo_lib.replay(ctx, "C13", ctx.q(25, 300))
    ctx.cov["rule"] = ("evaluations = real reconciliations of concurrent operations judged by TLC (I->S) + replayed model steps (S->I); "
                       "non-trivial = the reconciliation rebased at least one commit or left >= 2 heads; distinct by the full event")
    ctx.assumptions += repo_lib.COMMON_ASSUMPTIONS
