"""Helpers shared by the "text" group checks (C03-C06).

`judge(ctx, module, trace, ...)` is vf.judge_records with two additions the text
trace specs need: extra print tags of the trace spec are returned (e.g. INSCOPE,
printed by Trace_ConflictMarkers for every edited snapshot the C06 contract
actually judged) and verdicts starting with "assume:" are reported separately
(they validate an assumption of another module's model, they are not violations
of the property).  The oracle stays in TLA+: this file only runs TLC and sorts
its verdicts.
"""
import json
import os
import re
import shutil
import tempfile
from concurrent.futures import ThreadPoolExecutor

import vf


def tlc_judge_tags(module, trace_path, chunk=1000, timeout=1500, par=None, tags=()):
    with open(trace_path) as f:
        lines = [x for x in f if x.strip()]
    if not lines:
        raise vf.ToolError("empty trace " + trace_path)
    tmpd = tempfile.mkdtemp(prefix="vf-judge-")
    chunks = []
    for i in range(0, len(lines), chunk):
        p = os.path.join(tmpd, "chunk%d.ndjson" % (i // chunk))
        with open(p, "w") as f:
            f.writelines(lines[i:i + chunk])
        chunks.append((i, p, len(lines[i:i + chunk])))

    def one(c):
        off, p, n = c
        r = vf.tlc(module, module, workers=1, timeout=timeout, env={"TRACE": p}, deque=True, xmx="2g")
        judged = [int(a) for k, a in r["prints"] if k == "JUDGED"]
        if r["error"] is not None or judged != [n]:
            raise vf.ToolError("trace judge %s failed on chunk at %d: %s judged=%s\n%s" % (
                module, off, r["error"], judged, r["raw_tail"]))
        bad, div, extra = [], [], {t: [] for t in tags}
        for k, a in r["prints"]:
            if k == "BAD":
                m = re.match(r'^(\d+), "(.*)"$', a)
                bad.append((off + int(m.group(1)) - 1, m.group(2)))
            elif k == "DIVERGES":
                div.append(off + int(a) - 1)
            elif k in extra:
                extra[k].append(off + int(a) - 1)
        return n, bad, div, r["distinct"], r["generated"], extra

    try:
        with ThreadPoolExecutor(max_workers=par or min(8, max(2, vf.NCPU // 2))) as ex:
            res = list(ex.map(one, chunks))
    finally:
        shutil.rmtree(tmpd, ignore_errors=True)
    out = {"judged": 0, "bad": [], "diverges": [], "states": 0, "transitions": 0,
           "tags": {t: [] for t in tags}}
    for n, bad, div, st, tr, extra in res:
        out["judged"] += n
        out["bad"] += bad
        out["diverges"] += div
        out["states"] += st
        out["transitions"] += tr
        for t in tags:
            out["tags"][t] += extra[t]
    out["records"] = [json.loads(x) for x in lines]
    return out


def judge(ctx, module, trace_path, sig_fn=None, nontrivial_fn=None, chunk=1000, par=None, tags=(),
          ops=None):
    """TLC judges the trace; every BAD verdict becomes a violation, except
    "harness:*" (tool error) and "assume:*" (returned in j["assume"])."""
    j = tlc_judge_tags(module, trace_path, chunk=chunk, par=par, tags=tags)
    recs = j["records"]
    ctx.cov["states"] += j["states"]
    ctx.cov["transitions"] += j["transitions"]
    n_real = sum(1 for r in recs if ops is None or r.get("op") in ops)
    ctx.cov["traces_validated_against_impl"] += n_real
    ctx.cov["evaluations"] += n_real
    ctx.cov["divergence_from_reference"] += len(j["diverges"])
    if nontrivial_fn:
        seen = set()
        for r in recs:
            if nontrivial_fn(r):
                seen.add(json.dumps(r, sort_keys=True))
        ctx.cov["distinct_nontrivial"] += len(seen)
    j["assume"] = []
    for idx, verdict in j["bad"]:
        r = recs[idx]
        if verdict.startswith("harness:"):
            raise vf.ToolError("harness produced a malformed record %d: %s %s" % (idx, verdict, str(r)[:600]))
        if verdict.startswith("assume:"):
            j["assume"].append((idx, verdict))
            continue
        sig = sig_fn(r, verdict) if sig_fn else verdict
        ctx.violation(sig, verdict, r)
    return j


def negatives(ctx, module, negs, workers=2, timeout=600):
    """Run the negative (seeded design bug) configs <module>_neg_<bug>.cfg in parallel; each MUST
    violate the named invariant (anti-vacuity)."""
    def one(n):
        bug, inv = n
        vf.tlc_mc(module, "%s_neg_%s" % (module, bug), expect_violation=inv, workers=workers, timeout=timeout)
        return {"run": "negative:" + bug, "outcome": "fails as required (%s)" % inv}
    with ThreadPoolExecutor(max_workers=4) as ex:
        ctx.cov["tlc_runs"] += list(ex.map(one, negs))
