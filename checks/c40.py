"""C40 Working-copy changes are never lost by commands (spec/Workspace)."""
import json
import time
from concurrent.futures import ThreadPoolExecutor

import vf
from checks import cli_session as cs

META = dict(
    category="model_checking",
    engine="Workspace",
    technique="TLA+ spec Workspace: TLC model checking of the CLI command protocol (2 workspaces, interleaved at "
              "protocol-step granularity) + seeded random jj CLI sessions judged by TLC (trace validation)",
    text="Workspace.tla models the protocol the CLI runs around every command (load, lock, check_stale "
         "Fresh/Updated/Stale/Sibling, snapshot, snapshot operation, mutation, check_rewritable, commit, "
         "working-copy update, --at-op, workspace update-stale) for two workspaces sharing one repository; TLC "
         "checks that no disk state present at command start is replaced before it is the tree of the workspace's "
         "working-copy commit in some operation (InvNoLoss), that --at-op commands never touch the working copy "
         "(InvAtOp) and that every operation stays reachable, for all interleavings of 2 commands (3 thorough) "
         "with user edits in between; negative configs (no snapshot, --at-op snapshotting) must fail, and the "
         "configuration with workspace-less views reproduces finding C40 at design level. The real jj binary is "
         "then driven through seeded random sessions (about 30 command shapes incl. --at-op/--ignore-working-copy, "
         "undo, op restore, workspace add/update-stale, file edits between commands, 2 workspaces); per command "
         "the driver records the disk digests before/after, the trees of the working-copy commits of every "
         "operation (through jj-lib, conflicts materialised as checkout does) and the working-copy state files; "
         "TLC judges each record with the same contracts. Exhaustive for the protocol model within the bounds, "
         "sampled for the CLI.",
    note="Files are small regular files in 3 paths (content, exec bit, deletion); no symlinks, no ignore files, "
         "no concurrent commands in the CLI sessions (the model has them), user edits only between commands. "
         "Disk and trees are compared by an FNV-1a digest of the materialised files. Trusted: TLC, dump.rs, "
         "cli_session.py/cli_driver.py.",
    design="4 C40",
)
READY = True
LEVEL = META["category"]


def run_sessions(ctx, mode, n_max, n_min, ncmds, budget_s, par, **kw):
    """run up to n_max seeded sessions (at least n_min), stopping when the time budget is used"""
    vf.build("jjcli")
    vf.build("dump")
    t0 = time.time()
    done = []

    def one(i):
        if i >= n_min and time.time() - t0 > budget_s:
            return None
        s = cs.Session(i, ctx.seed, mode, ncmds, **kw)
        s.run()
        return s
    with ThreadPoolExecutor(max_workers=par) as ex:
        for s in ex.map(one, range(n_max)):
            if s is not None:
                done.append(s)
    return done


def lossy(r):
    return [w for w in r["wss"] if r["post"][w] != r["pre"][w] and r["pre"][w] not in r["rec"][w]]


def sig_fn(r, verdict):
    if verdict == "Panic":
        return cs_panic_sig(r)
    if verdict == "NoLossOK":
        ws = lossy(r)
        if ws and all(r["absent"][w] for w in ws):
            return "NoLossOK:workspace-absent-from-view"
    return verdict


def cs_panic_sig(r):
    err = r.get("err", "")
    msg = ""
    for line in err.splitlines():
        if line.startswith("assertion") or "panicked" in msg:
            msg = line.strip()
            break
        if "panicked" in line:
            msg = line
    if "assertion" in err:
        msg = [x for x in err.splitlines() if x.startswith("assertion")][0]
    return "Panic:%s:%s" % (r["kind"], msg.replace(" ", "_")[:60])


def run(ctx):
    # 1. design level
    cfg = ctx.q("MC_Workspace_q1", "MC_Workspace_q")
    r = vf.tlc_mc("MC_Workspace", cfg, workers=ctx.q(8, 12), timeout=ctx.q(600, 2400))
    ctx.add_mc(r, cfg)
    negs = [("no_snapshot", "InvNoLoss"), ("atop_snapshots", "InvAtOp")]
    with ThreadPoolExecutor(max_workers=2) as ex:
        list(ex.map(lambda b: vf.tlc_mc("MC_Workspace", "MC_Workspace_neg_" + b[0], expect_violation=b[1],
                                        workers=2, timeout=900), negs))
    for b, inv in negs:
        ctx.cov["tlc_runs"].append({"run": "negative:" + b, "outcome": "fails as required (%s)" % inv})
    if ctx.thorough:
        vf.tlc_mc("MC_Workspace", "MC_Workspace_finding_absent", expect_violation="InvNoLoss", workers=8, timeout=1200)
        ctx.cov["tlc_runs"].append({"run": "finding:workspace-absent-from-view",
                                    "outcome": "design-level counterexample of the known finding (InvNoLoss)"})
    # 2. I->S: random CLI sessions judged by TLC
    sessions = run_sessions(ctx, "c40", n_max=ctx.q(24, 400), n_min=ctx.q(10, 60), ncmds=ctx.q(12, 20),
                            budget_s=ctx.q(55, 420), par=ctx.q(8, 12), allow_forget=ctx.thorough)
    trace = ctx.path("c40.ndjson")
    with open(trace, "w") as f:
        for s in sessions:
            for rec in s.records:
                f.write(json.dumps(rec) + "\n")
    j = vf.judge_records(ctx, "Trace_Workspace", trace, sig_fn=sig_fn, chunk=600,
                         nontrivial_fn=lambda r: r.get("op") == "cmd" and r["rc"] == 0 and
                         any(r["post"][w] != r["pre"][w] for w in r["wss"]))
    cmds = [r for r in j["records"] if r.get("op") == "cmd"]
    kinds = {}
    for r in cmds:
        k = "%s%s/%s" % (r["kind"], "@op" if r["atop"] else "", "ok" if r["rc"] == 0 else "fails")
        kinds[k] = kinds.get(k, 0) + 1
    ctx.cov["evaluations"] = len(cmds)
    ctx.cov["sessions"] = len(sessions)
    ctx.cov["command_kinds"] = kinds
    ctx.cov["snapshots"] = sum(r["nsnap"] for r in cmds)
    ctx.cov["stale_failures"] = sum(1 for r in cmds if "stale" in r["err"])
    ctx.cov["at_op_commands"] = sum(1 for r in cmds if r["atop"])
    ctx.cov["rule"] = ("records = jj commands of seeded random sessions (two workspaces, file edits between commands); "
                       "non-trivial = distinct records of successful commands that changed some workspace's files on disk")
    for r in cmds:
        if r["rc"] == 0 and r["nsnap"] and any(r["post"][w] != r["pre"][w] for w in r["wss"]):
            ctx.sample({k: r[k] for k in ("ws", "argv", "rc", "pre", "post", "rec", "wcs_pre", "wcs_post", "nsnap")}, 3)
    ctx.assumptions += ["A5: projections (dump.rs, disk digest) are correct; user edits happen only between commands",
                        "CLI sessions are sequential; concurrency between workspaces is covered by the TLC model only",
                        "TLC evaluates spec/Workspace.tla and spec/WorkspaceContracts.tla correctly"]
