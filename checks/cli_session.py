"""Seeded random CLI sessions for C40 / C42 (I->S): runs command/edit sequences
through the real jj binary in one or two workspaces and records, per command,
what spec/Trace_Workspace.tla judges.  It decides nothing.

Record types written (ndjson):
  {"op":"reset","case":n,"mode":...,"imm":<immutable_heads() setting>}
  {"op":"cmd", ...}   C40 fields: pre/post disk digests, recorded working-copy trees, wc state files
  {"op":"imm", ...}   C42 fields: immutable set before (computed by jj itself), visible set after
"""
import os
import random

import vf
from checks import cli_driver as cd

PATHS = ["a", "b", "d/x"]

IMM_SETTINGS = [
    "builtin_immutable_heads()",
    "bookmarks()",
    "tags()",
    'tags() | bookmarks(glob:"m*")',
    'description(substring:"imm")',
    'heads(description(substring:"imm"))',
    "present(m1)",
    'bookmarks() | tags() | description(substring:"imm")',
    "none()",
]

EXEMPT_KINDS = {"undo", "redo", "op-restore", "op-revert"}


class Session:
    def __init__(self, case, seed, mode, ncmds, two_ws=True, allow_forget=False):
        self.case, self.mode, self.ncmds = case, mode, ncmds
        self.rng = random.Random("%s/%s/%s" % (mode, seed, case))
        self.two_ws = two_ws
        self.allow_forget = allow_forget
        self.records = []
        self.commands = 0
        self.msgn = 0
        self.kinds = {}

    # ------------------------------------------------------------------
    def run(self):
        rng = self.rng
        with cd.Env() as env:
            self.env = env
            env.jj_ok(env.root, "git", "init", "repo")
            self.ws = {"default": env.path("repo")}
            self.imm = None
            if self.mode == "c42":
                self.imm = rng.choice(IMM_SETTINGS)
                self.write_imm()
            self.records.append({"op": "reset", "case": self.case, "mode": self.mode, "imm": self.imm or ""})
            # a little initial history so that targets exist
            for i in range(rng.randint(1, 3)):
                self.edit_files(self.ws["default"])
                env.jj_ok(self.ws["default"], "commit", "-m", self.msg())
            self.d = self.dump()
            for i in range(self.ncmds):
                self.step()
        return self.records

    def write_imm(self):
        self.env.set_config_file("config9000-imm.toml",
                                 "[revset-aliases]\n\"immutable_heads()\" = '''%s'''\n" % self.imm)

    def msg(self):
        self.msgn += 1
        tag = "imm" if self.rng.random() < 0.25 else "m"
        return "%s%d" % (tag, self.msgn)

    def dump(self):
        roots = list(self.ws.values())
        return self.env.dump(roots[0], roots[1:])

    # ------------------------------------------------------------------
    def edit_files(self, root):
        rng = self.rng
        for _ in range(rng.randint(1, 2)):
            p = os.path.join(root, rng.choice(PATHS))
            r = rng.random()
            if r < 0.15 and os.path.exists(p):
                os.remove(p)
                try:
                    os.rmdir(os.path.dirname(p))
                except OSError:
                    pass
            elif r < 0.25 and os.path.exists(p):
                os.chmod(p, os.stat(p).st_mode ^ 0o111)
            else:
                os.makedirs(os.path.dirname(p), exist_ok=True)
                if rng.random() < 0.5:
                    text = "v%d\n" % rng.randint(0, 3)
                else:
                    text = "".join("l%d=%d\n" % (i, rng.randint(0, 2)) for i in range(3))
                with open(p, "w") as f:
                    f.write(text)

    # ------------------------------------------------------------------
    def head_views(self):
        idx = cd.op_index(self.d)
        return [idx[h]["view"] for h in self.d["op_heads"]]

    def visible(self):
        out = set()
        idx = cd.op_index(self.d)
        for h in self.d["op_heads"]:
            out |= cd.visible_commits(self.d, idx[h])
        return sorted(out)

    def rev(self, allow_root=True):
        """a random revision expression naming one visible commit"""
        rng = self.rng
        vis = self.visible()
        r = rng.random()
        views = self.head_views()
        names = sorted(set(n for v in views for n, t in v["bookmarks"].items() if len(t) == 1 and t[0]))
        tags = sorted(set(n for v in views for n, t in v["tags"].items() if len(t) == 1 and t[0]))
        if r < 0.2 and names:
            return rng.choice(names)
        if r < 0.25 and tags:
            return rng.choice(tags)
        if r < 0.4:
            return rng.choice(["@", "@-", "@-", "@--", "@+"])
        if r < 0.5 and len(self.ws) == 2:
            # the other workspace's working-copy commit (a ref on it makes it immutable without giving it a child)
            return rng.choice(sorted(self.ws)) + "@"

        c = rng.choice(vis)
        if r < 0.6:
            return self.d["commits"][c]["change"][:12]
        return c[:16]

    def paths(self):
        k = self.rng.randint(1, 2)
        return self.rng.sample(PATHS, k)

    def pick_command(self, wsname):
        """returns (kind, argv)"""
        rng = self.rng
        R = self.rev
        table = [
            (8, "new", lambda: ["new"] + ([R()] if rng.random() < 0.6 else []) + (["-m", self.msg()] if rng.random() < 0.3 else [])),
            (2, "new-merge", lambda: ["new", R(), R()]),
            (3, "new-insert", lambda: ["new", rng.choice(["-A", "-B"]), R()]),
            (6, "edit", lambda: ["edit", R()]),
            (6, "describe", lambda: ["describe", "-m", self.msg()] + (["-r", R()] if rng.random() < 0.6 else [])),
            (5, "commit", lambda: ["commit", "-m", self.msg()] + (self.paths() if rng.random() < 0.3 else [])),
            (6, "squash", lambda: ["squash"] + (["-r", R()] if rng.random() < 0.5 else []) + (self.paths() if rng.random() < 0.3 else [])),
            (4, "squash-from", lambda: ["squash", "--from", R(), "--into", R()] + (["-u"] if rng.random() < 0.5 else ["-m", self.msg()])),
            (5, "split", lambda: ["split", "-r", R(), "-m", self.msg()] + self.paths()),
            (5, "abandon", lambda: ["abandon", R()]),
            (7, "rebase", lambda: ["rebase", rng.choice(["-r", "-s", "-b"]), R(), rng.choice(["-d", "-d", "-A", "-B"]), R()]),
            (4, "restore", lambda: ["restore"] + (["--from", R()] if rng.random() < 0.6 else []) + (["--into", R()] if rng.random() < 0.4 else []) + (self.paths() if rng.random() < 0.4 else [])),
            (2, "restore-changes", lambda: ["restore", "--changes-in", R()]),
            (2, "duplicate", lambda: ["duplicate", R()] + ([rng.choice(["-A", "-B", "-d"]), R()] if rng.random() < 0.6 else [])),
            (2, "parallelize", lambda: ["parallelize", "%s::%s" % (R(), R())]),
            (2, "metaedit", lambda: ["metaedit", "--update-change-id", R()]),
            (2, "revert", lambda: ["revert", "-r", R(), rng.choice(["-d", "-A", "-B"]), R()]),
            (2, "absorb", lambda: ["absorb"] + (["--from", R()] if rng.random() < 0.4 else [])),
            (1, "simplify-parents", lambda: ["simplify-parents", "-r", R()]),
            (5, "undo", lambda: ["undo"]),
            (2, "redo", lambda: ["redo"]),
            (4, "op-restore", lambda: ["op", "restore", rng.choice(self.d["ops"])["id"][:16]]),
            (2, "op-revert", lambda: ["op", "revert", rng.choice(self.d["ops"])["id"][:16]]),
            (4, "status", lambda: [rng.choice(["status", "log", "diff"])]),
            (4, "update-stale", lambda: ["workspace", "update-stale"]),
            (4, "bookmark", lambda: ["bookmark", rng.choice(["create", "set", "set", "move"])] +
                ([rng.choice(["b1", "b2", "m1"])] if True else []) + ["--to" if False else "-r", R()]),
            (1, "bookmark-delete", lambda: ["bookmark", "delete", rng.choice(["b1", "b2", "m1"])]),
            (2, "tag", lambda: ["tag", "set", rng.choice(["t1", "t2"]), "-r", R()] + (["--allow-move"] if rng.random() < 0.5 else [])),
        ]
        if self.two_ws and "w2" not in self.ws:
            table.append((10, "workspace-add", lambda: ["workspace", "add", "../w2", "--name", "w2"] + (["-r", R()] if rng.random() < 0.7 else [])))
        if self.allow_forget and len(self.ws) == 2:
            table.append((2, "workspace-forget", lambda: ["workspace", "forget", rng.choice(["default", "w2"])]))
        if self.mode == "c42" and len(self.ws) == 2:
            # put a ref / an "imm" description on the other workspace's working-copy commit: it becomes
            # immutable under most settings without getting a child, so its next snapshot must create one
            other = [n for n in sorted(self.ws) if n != wsname][0] + "@"
            table.append((6, "pin-other", lambda: rng.choice([
                ["bookmark", "set", rng.choice(["b1", "m1"]), "-r", other, "--allow-backwards"],
                ["tag", "set", rng.choice(["t1", "t2"]), "-r", other, "--allow-move"],
                ["describe", "-r", other, "-m", "imm%d" % rng.randint(100, 999)]])))
        if self.mode == "c42":
            table = [(w * 2 if k in ("bookmark", "tag", "describe") else w, k, f) for w, k, f in table]
        total = sum(w for w, _, _ in table)
        x = rng.uniform(0, total)
        for w, kind, f in table:
            x -= w
            if x <= 0:
                argv = f()
                if kind == "bookmark" and argv[1] == "move":
                    argv = ["bookmark", "move", argv[2], "--to", argv[4]] + (["--allow-backwards"] if rng.random() < 0.5 else [])
                elif kind == "bookmark" and argv[1] == "set" and rng.random() < 0.5:
                    argv.append("--allow-backwards")
                return kind, argv
        raise AssertionError

    # ------------------------------------------------------------------
    def disk(self):
        return {n: cd.disk_digest(p) for n, p in self.ws.items()}

    def recorded(self, d):
        """per workspace: digests of the tree of its working-copy commit in every operation reachable from the heads"""
        out = {n: set() for n in self.ws}
        for o in d["ops"]:
            for n, c in o["view"]["wc"].items():
                if n in out:
                    out[n].add(cd.short(d["commits"][c]["digest"]))
        return {n: sorted(s) for n, s in out.items()}

    def wcstate(self, d):
        return {n: [cd.short(d["wcstate"][p]["op"]), cd.short(d["wcstate"][p]["digest"])] for n, p in self.ws.items()}

    def immutable_now(self, wsroot, at_op=None):
        args = ["log", "--ignore-working-copy", "--no-graph", "-r", "immutable()", "-T", 'commit_id ++ "\\n"']
        if at_op:
            args = ["--at-op", at_op] + args
        rc, out, err = self.env.jj(wsroot, *args)
        if rc != 0:
            return None
        return sorted(cd.short(x) for x in out.split())

    def step(self):
        rng, env = self.rng, self.env
        names = sorted(self.ws)
        wsname = rng.choice(names)
        root = self.ws[wsname]
        # file edits between commands, in any workspace
        for n in names:
            if rng.random() < 0.55:
                self.edit_files(self.ws[n])
        if self.mode == "c42" and rng.random() < 0.12:
            self.imm = rng.choice(IMM_SETTINGS)
            self.write_imm()
            self.records.append({"op": "config", "imm": self.imm})
        kind, argv = self.pick_command(wsname)
        atop = ""
        r = rng.random()
        if r < 0.10 and kind not in ("update-stale", "workspace-add"):
            atop = rng.choice(self.d["ops"])["id"][:16]
            argv = ["--at-op", atop] + argv
        elif r < 0.15 and kind not in ("update-stale", "workspace-add"):
            atop = "@"
            argv = ["--ignore-working-copy"] + argv
        imm_before = None
        if self.mode == "c42":
            at = atop if atop not in ("", "@") else None
            imm_before = self.immutable_now(root, at)
            if at is None:
                self.d = self.dump()   # the query may have merged divergent operation heads
        d0 = self.d
        vis_before = None
        if self.mode == "c42":
            # commits visible in the view the command starts from (the --at-op operation, or the head)
            idx0 = cd.op_index(d0)
            if atop not in ("", "@"):
                at_ops = [o for o in d0["ops"] if o["id"].startswith(atop)]
            else:
                at_ops = [idx0[h] for h in d0["op_heads"]]
            if len(at_ops) == 1:
                vis_before = sorted(cd.short(c) for c in cd.visible_commits(d0, at_ops[0]))
        pre = self.disk()
        rec_pre = self.recorded(d0)
        wcs_pre = self.wcstate(d0)
        absent = {n: any(n not in v["wc"] for v in self.head_views()) for n in names}
        ops0 = {o["id"] for o in d0["ops"]}
        rc, out, err = env.jj(root, *argv)
        self.commands += 1
        if rc == 101 or rc < 0:
            # a crash of jj (Rust panic / signal) is data; exit code 255 ("Internal error: ...") is an ordinary failure
            self.records.append({"op": "panic", "case": self.case, "ws": wsname, "kind": kind, "argv": argv,
                                 "rc": rc, "err": err[-400:]})
        if kind == "workspace-add" and rc == 0:
            self.ws["w2"] = env.path("w2")
        d1 = self.dump()
        self.d = d1
        post = self.disk()
        new_ops = [o for o in d1["ops"] if o["id"] not in ops0]
        self.kinds[(kind, rc == 0)] = self.kinds.get((kind, rc == 0), 0) + 1
        names1 = sorted(self.ws)
        if self.mode == "c40":
            rec = self.recorded(d1)
            wcs_post = self.wcstate(d1)
            self.records.append({
                "op": "cmd", "case": self.case, "i": self.commands, "ws": wsname, "kind": kind, "argv": argv,
                "atop": bool(atop), "rc": rc,
                "wss": names,                                  # workspaces that existed when the command started
                "pre": pre, "post": {n: post[n] for n in names},
                "rec_pre": rec_pre, "rec": {n: rec[n] for n in names},
                "wcs_pre": wcs_pre, "wcs_post": {n: wcs_post[n] for n in names},
                "absent": absent,
                "nops": len(new_ops), "nsnap": sum(1 for o in new_ops if o["snapshot"]),
                "err": err[-160:] if rc != 0 else "",
            })
        else:
            if imm_before is None or vis_before is None:
                return
            idx = cd.op_index(d1)
            if atop not in ("", "@"):
                # the operation the command created on top of the --at-op operation
                mine = [o for o in new_ops if any(p.startswith(atop) for p in o["parents"]) and len(o["parents"]) == 1]
                if len(mine) != 1:
                    return
                after_op = mine[0]
            elif atop == "@" or len(d1["op_heads"]) == 1:
                # --ignore-working-copy at the head, or a normal command: the single new head;
                # with --ignore-working-copy the new operation is the child of the old head
                if len(d1["op_heads"]) != 1:
                    return
                after_op = idx[d1["op_heads"][0]]
            else:
                return
            vis = sorted(cd.short(c) for c in cd.visible_commits(d1, after_op))
            self.records.append({
                "op": "imm", "case": self.case, "i": self.commands, "ws": wsname, "kind": kind, "argv": argv,
                "atop": bool(atop), "rc": rc, "exempt": kind in EXEMPT_KINDS,
                "setting": self.imm, "imm_before": imm_before, "visible_before": vis_before, "visible_after": vis,
                "nops": len(new_ops), "err": err[-160:] if rc != 0 else "",
            })
