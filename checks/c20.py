"""C20 Shortest unique id prefixes are unique, minimal and resolvable (spec/IdPrefix)."""
import json
import os
from concurrent.futures import ThreadPoolExecutor

import vf
from checks.c18 import scratch_env

META = dict(
    category='exploration',
    engine='IdPrefix',
    technique='TLA+ spec IdPrefix: contracts for shortest-prefix length and prefix resolution (plain, two-level with a '
              'disambiguation set, with ref names taking precedence); TLC model-checks the transcribed neighbour rule on a '
              'small id universe and judges traces of the real index / IdPrefixIndex as a state machine (load ids, answer queries)',
    text='Contract: the reported length n makes Prefix(id, n) resolve to exactly that id (that change) and no shorter prefix '
         'does; for an id that is not indexed, n is the shortest prefix matching nothing; a prefix resolves to none / the single '
         'match / ambiguous exactly by counting matches among ALL indexed ids (hidden ones included); a change prefix returns '
         'every visible commit of the change flagged visible and only hidden commits of it flagged hidden; with a '
         'disambiguation set a match inside the set wins and no match falls back to the whole index; bookmark/tag names that '
         'spell a prefix lengthen the reported length. TLC proves the transcription of composite.rs/id_prefix.rs meets these '
         'contracts for every set of <= 4 ids of 3 digits over 2 digits (thorough: <= 3 ids over 3 digits) x every disambiguation subset x ref names. '
         'The harness builds repositories of 60-120 (thorough 60-200) commits over several index segments with change ids '
         'sharing up to 7 leading digits, commit ids steered to share 2-5 digits (best of 48 candidate descriptions), divergent '
         'and hidden commits, and prefix-like bookmark/tag names, reloads them from disk, and logs '
         'Index::{shortest_unique_commit_id_prefix_len, resolve_commit_id_prefix}, '
         'Repo::{shortest_unique_change_id_prefix_len, resolve_change_id_prefix} and IdPrefixIndex::{shortest_*, resolve_*} '
         'without and with two disambiguation sets; TLC judges every answer.',
    note='Sampled (exploration): commit ids are whatever the backend hashes to. Prefixes are probed at every length up to '
         'one past the reported length plus mutated last digits; the empty prefix is not probed. Reverse-hex spelling of '
         'change ids is handled by the harness (digits are compared). Extension symbol resolvers are not covered.',
    design='4 C20',
)
READY = True
LEVEL = META["category"]


def run(ctx):
    cfg = ctx.q("MC_IdPrefix", "MC_IdPrefix_thorough")
    r = vf.tlc_mc("MC_IdPrefix", cfg, workers=ctx.q(8, 12), timeout=ctx.q(900, 3000))
    ctx.add_mc(r, cfg)
    vf.tlc_mc("MC_IdPrefix", "MC_IdPrefix_neg_one_short", expect_violation=True, workers=4, timeout=600)
    ctx.cov["tlc_runs"].append({"run": "negative:one_short", "outcome": "fails as required"})
    trace = ctx.path("prefix.ndjson")
    ctx.harness("index", ["prefix", "--out", trace, "--seed", ctx.seed, "--n", ctx.q(5, 10), "--min", 60,
                          "--max", ctx.q(120, 200)], env=scratch_env(), timeout=3000)
    # one file per repository state: an "ids" record followed by its queries (the judge is stateful)
    files, cur = [], None
    with open(trace) as f:
        for line in f:
            rec = json.loads(line)
            if rec.get("op") in ("ids", "panic") or cur is None:
                cur = open(ctx.path("part%d.ndjson" % len(files)), "w")
                files.append(cur.name)
            cur.write(line)

    def judge(p):
        return vf.tlc_judge("Trace_IdPrefix", p, chunk=10 ** 9, timeout=2400, par=1)

    # close the part files before TLC reads them
    cur.close()
    with ThreadPoolExecutor(max_workers=4) as ex:
        results = list(ex.map(judge, files))
    stats = {"loads": 0, "queries": 0, "lengthened_by_refs": 0, "single": 0, "amb": 0, "none": 0,
             "with_dset": 0, "max_len": 0, "segments": []}
    seen = set()
    for j in results:
        recs = j["records"]
        ctx.cov["states"] += j["states"]
        ctx.cov["transitions"] += j["transitions"]
        ctx.cov["traces_validated_against_impl"] += j["judged"]
        ctx.cov["evaluations"] += j["judged"]
        ctx.cov["divergence_from_reference"] += len(j["diverges"])
        has_d = False
        for x in recs:
            if x.get("op") == "ids":
                stats["loads"] += 1
                has_d = x["has_d"]
                stats["segments"].append(x["levels"])
            elif x.get("op") == "q":
                stats["queries"] += 1
                stats["with_dset"] += 1 if has_d else 0
                if "kind" in x:
                    stats[x["kind"]] += 1
                if x["k"] == "ctx_short_commit" and x["out"] > x["exact"]:
                    stats["lengthened_by_refs"] += 1
                if x["k"].endswith("short") or x["k"].startswith("ctx_short"):
                    stats["max_len"] = max(stats["max_len"], x["out"])
                    if x["out"] >= 3:
                        seen.add(json.dumps(x, sort_keys=True))
        for idx, verdict in j["bad"]:
            rec = recs[idx]
            if verdict.startswith("harness:"):
                raise vf.ToolError("harness produced a malformed record %d: %s" % (idx, verdict))
            ctx.violation("%s:%s" % (verdict, rec.get("k", "-")), verdict,
                          {"query": rec, "ids_record_index": max(i for i in range(idx + 1) if recs[i].get("op") == "ids")
                           if any(recs[i].get("op") == "ids" for i in range(idx + 1)) else None})
    stats["segments"] = stats["segments"][:6]
    ctx.cov["distinct_nontrivial"] = len(seen)
    ctx.cov["queries"] = stats
    ctx.cov["rule"] = ("evaluation = one judged record (an ids load or one query answered by the real code); non-trivial = a "
                       "shortest-length query whose answer is >= 3 digits (neighbouring ids share >= 2 digits); distinct by full record")
    for j in results[:2]:
        for x in j["records"]:
            if x.get("op") == "q" and x["k"] in ("ctx_short_commit", "ch_resolve") and len(ctx.cov["samples"]) < 5:
                ctx.sample(x)
    ctx.assumptions += ["the harness's digit projection of commit/change ids (hex / reverse hex) is correct",
                        "TLC evaluates spec/IdPrefix.tla correctly"]
