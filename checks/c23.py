"""C23 Snapshots record exactly what is on disk (spec/WorkingCopy)."""
from checks import wcutil

META = dict(
    category='model_checking',
    engine='WorkingCopy',
    technique='TLA+ state machine WorkingCopy: TLC model checking of the transcribed snapshot walk against the C23 contract + TLC-generated behaviours replayed on a real LocalWorkingCopy + seeded random edit scripts, every step judged by TLC',
    text='WorkingCopy models the disk (files with content/exec bit, symlinks, directories, .gitignore files at two levels), the working-copy tree, the recorded file states and the sparse patterns; user edits (Write, Chmod, Symlink, Delete, FileToDir, DirToFile, RmTree) and jj\'s Snapshot/CheckOut/SetSparse are actions. The snapshot is transcribed as the directory walk (present-entry sets, ignored directory => only tracked paths, deleted-file detection per directory chunk); the C23 contract SnapshotOK is the closed form "tracked or not-ignored paths carry the disk\'s content/exec/target, everything else is absent". TLC checks the contract on every transition of the bounded model (4 seeded walk bugs fail, incl. "a tracked path inside an ignored directory that became a directory or special file is not reported deleted"), generates behaviours that are replayed on a real working copy in a temp dir, and judges the projected real state after every action of those and of seeded random scripts (same-size edits, chmod, symlinks, file<->directory swaps, nested ignore files).',
    note='Universe: 7 paths incl. d vs d/x vs d/x/z (any path may be an empty directory or a fifo), 2 contents, 7 ignore files (single-component patterns incl. negation, dir-only, anchored, *), 3-term conflicts; bounded behaviours (10-12 actions). "Already tracked" is read as "in the working-copy tree". Three debug-assertion panics of the jj snapshot reached by the model are known findings (see known-findings.txt). Trusted: TLC, the projection code in harness/jjconf/src/bin/wc/script.rs.',
    design='4 C23',
)
READY = True
LEVEL = META["category"]


def run(ctx):
    wcutil.run_wc(
        ctx, "C23",
        mc_cfgs=ctx.q(["c23", "c23_ignored"], ["c23_thorough", "c23_ignored_thorough"]),
        neg_cfgs=[("neg_snap_ignore_tracked", "Inv_C23"), ("neg_snap_no_dir_delete", "Inv_C23"),
                  ("neg_snap_skip_ignored_dir", "Inv_C23"), ("neg_snap_tracked_nonfile", "Inv_C23"),
                  ("finding_stale_state", "Inv_C23"),
                  ("finding_dir_conflict", "Inv_C23"), ("finding_tracked_dir", "Inv_C23"),
                  ("finding_stale_ignored", "Inv_C23"), ("finding_notdir", "Inv_C23"), ("finding_through_symlink", "Inv_C23")],
        gen_cfgs=[("gen_c23", ctx.q(250, 600)), ("gen_c23_ignored", ctx.q(120, 300))],
        n_random=ctx.q(300, 1500), focus="snapshot")
