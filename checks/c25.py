"""C25 Checkout never destroys files it does not own (spec/WorkingCopy)."""
from checks import wcutil

META = dict(
    category='model_checking',
    engine='WorkingCopy',
    technique='TLA+ state machine WorkingCopy: TLC model checking of the transcribed update (skip outcomes) against the C25 contract + TLC-generated behaviours with foreign files, directories and symlinks in the way replayed on a real LocalWorkingCopy + seeded random scripts, every step judged by TLC',
    text='Contract UpdateSafe, evaluated on every CheckOut transition: a file or symlink at a path the update does not touch (untracked, ignored, or tracked and modified) is byte-for-byte unchanged; an untracked file standing where the new tree wants a file is left alone and the path is reported skipped; the sentinel directory outside the workspace (pre-populated with the same sub-paths x/, x/z; target of symlinks that replace the directory d or d/x at either depth) is never written at any depth; no path is dropped silently (skipped >= number of tree paths not materialised). TLC checks it on the bounded model (seeded bugs "overwrite the untracked file" "resolve through the symlinked directory" and "only the immediate parent is checked on the in-place fast path" fail) and on the real code for TLC-generated and random scripts.',
    note='As the statement says, files modified since the last snapshot are protected only on paths the update does not touch (the code\'s own TODO). The debug-assertion panic "changed_file_states must be sorted" reached when a directory of the old tree was replaced by a file/symlink is a known finding.',
    design='4 C25',
)
READY = True
LEVEL = META["category"]


def run(ctx):
    wcutil.run_wc(
        ctx, "C25",
        mc_cfgs=ctx.q(["c25", "c25_symlink"], ["c25_thorough", "c25_symlink_thorough"]),
        neg_cfgs=[("neg_co_overwrite", "Inv_C25"), ("neg_co_follow_symlink", "Inv_C25"), ("neg_co_follow_ancestor_symlink", "Inv_C25"), ("finding_unsorted", "Inv_C25")],
        gen_cfgs=[("gen_c25", ctx.q(250, 700)), ("gen_c25_symlink", ctx.q(120, 300))],
        n_random=ctx.q(300, 2000), focus="checkout")
