"""C15 A crash at any point leaves a loadable repo and loses no committed operation (spec/Durability)."""
import json
import os
import random
import shutil
import subprocess
from concurrent.futures import ThreadPoolExecutor

import vf
from checks import cli_driver

META = dict(
    category="fault_enumeration",
    engine="Durability",
    technique="TLA+ spec Durability: TLC on the guarded effect machine + trace validation of real effect sequences + real kills at every hooked point judged against the model state",
    text=("Durability.tla models a command as its sequence of durable effects with four ordering guards (head added only when the operation's and its view's objects are durable; head removed only under a descendant head; working-copy files touched only after every written operation is published; tree_state after the last file write and checkout after tree_state); TLC shows every "
          "guarded sequence is crash-safe in every state (Loadable, NoCommittedOpLost, BeforeOrAfter) and that dropping a "
          "guard breaks it. Binding: the real jj CLI (built with the cfg-gated points) runs representative commands on a "
          "prepared Git-backed workspace with a dirty working copy; JJ_VERIF_TRACE logs the real effect sequence, which TLC "
          "validates against the guarded actions; then the command is re-run from a pristine copy once per point with "
          "JJ_VERIF_CRASH_AT=i (abort() before the i-th durable step), a fresh process loads the repo, and the observation "
          "(op log loads, resolved head, object files decode, working copy fresh/stale, update-stale recovers, no file "
          "content lost) is judged by TLC against what the model state at that prefix allows."),
    note=("Process kill (abort) at instrumented durable-write points, not power loss (no un-synced directory entries); "
          "writes performed inside gix (Git object files, refs) are not instrumented; quick tier samples kill points of "
          "content-addressed store objects and takes every ordering-relevant point."),
    design="4 C15")
READY = True
LEVEL = META["category"]

FILES = ["f1.txt", "f2.txt", "d/f3.txt", "d/f4.txt", "d/e/f5.txt", "f6.txt"]


def sh_run(cmd, cwd, env, timeout=120):
    try:
        p = subprocess.run(cmd, cwd=cwd, env=env, timeout=timeout, stdin=subprocess.DEVNULL,
                           stdout=subprocess.PIPE, stderr=subprocess.PIPE)
        return p.returncode, p.stdout.decode("utf-8", "replace"), p.stderr.decode("utf-8", "replace")
    except subprocess.TimeoutExpired:
        return 124, "", "timeout"


def write(root, rel, text):
    p = os.path.join(root, rel)
    os.makedirs(os.path.dirname(p), exist_ok=True)
    with open(p, "w") as f:
        f.write(text)


def disk_files(ws):
    out = {}
    for dp, dns, fns in os.walk(ws):
        if dp == ws:
            dns[:] = [d for d in dns if d != ".jj"]
        for fn in fns:
            p = os.path.join(dp, fn)
            if os.path.isfile(p) and not os.path.islink(p):
                out[os.path.relpath(p, ws)] = open(p, "rb").read()
    return out


class Lab:
    """A prepared repository plus helpers to restore / run / observe it."""

    def __init__(self, ctx):
        self.ctx = ctx
        self.env = cli_driver.Env()
        self.jj = self.env.jj_bin
        self.fsck = vf.build("fsck")
        self.base = self.env.path("base")
        self.n = 0
        os.mkdir(self.base)
        ws = os.path.join(self.base, "ws")
        self.ok(self.base, "git", "init", "ws")
        for i, f in enumerate(FILES):
            write(ws, f, "line %d\n" % i * 3)
        self.ok(ws, "commit", "-m", "c1")
        for i, f in enumerate(FILES[:4]):
            write(ws, f, "changed %d\n" % i * 2)
        os.remove(os.path.join(ws, FILES[5]))
        write(ws, "g7.txt", "new file\n")
        self.ok(ws, "commit", "-m", "c2")
        self.ok(ws, "bookmark", "create", "main", "-r", "@-")
        self.ok(ws, "bookmark", "create", "first", "-r", "@--")
        self.ok(ws, "describe", "-m", "wip")
        # un-snapshotted edits: the dirty working copy every scenario starts from
        write(ws, "f1.txt", "dirty edit\n")
        write(ws, "d/new8.txt", "brand new\n")

    def environ(self, extra=None):
        e = self.env.environ()
        if extra:
            e.update(extra)
        return e

    def ok(self, cwd, *args):
        rc, out, err = sh_run([self.jj] + list(args), cwd, self.environ())
        if rc != 0:
            raise vf.ToolError("setup: jj %s failed: %s" % (" ".join(args), err[-1500:]))
        return out

    def copy(self, src):
        self.n += 1
        dst = self.env.path("run%d" % self.n)
        shutil.copytree(src, dst, symlinks=True)
        return dst

    def ops(self, ws):
        rc, out, err = sh_run([self.jj, "op", "log", "--ignore-working-copy", "--no-graph", "-T",
                            'id.short(16) ++ " " ++ parents.map(|p| p.id().short(16)).join(",") ++ "\\n"'],
                           ws, self.environ())
        if rc != 0:
            return None
        res = []
        for line in out.splitlines():
            parts = line.split(" ")
            res.append([parts[0], [p for p in (parts[1].split(",") if len(parts) > 1 else []) if p]])
        return res


def classify(site, detail, ws_prefix=None):
    if detail.startswith("/"):
        detail = os.path.normpath(detail)       # e.g. <root>/ws/../ws2/f is not inside <root>/ws
    if site == "file.persist":
        if "/op_store/operations/" in detail:
            return {"e": "op", "id": os.path.basename(detail)[:16]}
        if "/op_store/views/" in detail:
            return {"e": "view", "id": os.path.basename(detail)[:16]}
        if detail.endswith("/working_copy/tree_state") or detail.endswith("/working_copy/checkout"):
            if ws_prefix and not detail.startswith(ws_prefix):
                return {"e": "other", "id": ""}
            return {"e": "treestate" if detail.endswith("tree_state") else "checkout", "id": ""}
        return {"e": "other", "id": ""}
    if site == "opheads.add":
        return {"e": "headadd", "id": detail[:16]}
    if site == "opheads.remove":
        return {"e": "headrm", "id": detail[:16]}
    if site in ("wc.write", "wc.remove"):
        # files of ANOTHER workspace (e.g. the one `jj workspace add` is creating) are not the
        # observed working copy: no claim about them
        if ws_prefix and not detail.startswith(ws_prefix):
            return {"e": "other", "id": ""}
        return {"e": "wctouch", "id": ""}
    return {"e": "noop", "id": ""}


SCENARIOS = [
    # name, preparation commands (un-traced), the command under test
    ("describe-dirty", [], ["describe", "-m", "described"]),
    ("new-dirty", [], ["new"]),
    ("edit-checkout", [["status"]], ["edit", "first"]),
    ("squash-dirty", [], ["squash"]),
    ("undo", [["describe", "-m", "to be undone"]], ["undo"]),
    ("abandon-parent", [["status"]], ["abandon", "@-"]),
    ("bookmark-set", [], ["bookmark", "set", "main", "-r", "@", "--allow-backwards"]),
    ("commit-dirty", [], ["commit", "-m", "c3"]),
    ("rebase", [["status"]], ["rebase", "-r", "@", "-d", "first"]),
    ("restore", [], ["restore", "--from", "first"]),
    ("workspace-add", [], ["workspace", "add", "../ws2"]),
    ("op-restore", [["describe", "-m", "later"]], ["op", "restore", "@--"]),
]


def observe(lab, root, pre_files):
    """Load the killed repository with fresh processes and report what is seen."""
    ws = os.path.join(root, "ws")
    obs = {"oplog_ok": False, "head": "", "torn": 0, "wc": "error", "recovered": False, "lost": 0, "msg": ""}
    rc, out, err = sh_run([lab.fsck, os.path.join(ws, ".jj", "repo")], ws, lab.environ())
    if rc == 0:
        f = json.loads(out)
        obs["torn"] = len(f["torn"]) + len(f["dangling_heads"])
        if obs["torn"]:
            obs["msg"] = "; ".join(f["torn"] + f["dangling_heads"])[:300]
    rc, out, err = sh_run([lab.jj, "op", "log", "--ignore-working-copy", "--no-graph", "-n", "1", "-T", "id.short(16)"],
                       ws, lab.environ())
    if rc != 0:
        obs["msg"] = "op log: " + err[-300:]
        return obs
    obs["oplog_ok"], obs["head"] = True, out.strip()
    rc, out, err = sh_run([lab.jj, "status"], ws, lab.environ())
    if rc == 0:
        obs["wc"] = "fresh"
        obs["recovered"] = True
    elif "stale" in err:
        obs["wc"] = "stale"
        rc2, out2, err2 = sh_run([lab.jj, "workspace", "update-stale"], ws, lab.environ())
        rc3, out3, err3 = sh_run([lab.jj, "status"], ws, lab.environ())
        obs["recovered"] = rc2 == 0 and rc3 == 0
        if not obs["recovered"]:
            obs["msg"] = ("update-stale: " + err2[-200:] + " | status: " + err3[-200:])
    else:
        obs["msg"] = "status: " + err[-300:]
        return obs
    # no file content lost: every (path, content) that was on disk before the command is on disk
    # now or is the content of that path in the working-copy commit of some operation
    now = disk_files(ws)
    missing = [(p, c) for p, c in pre_files.items() if now.get(p) != c]
    if missing:
        ops = lab.ops(ws) or []
        for p, c in missing:
            found = False
            for oid, _ in ops:
                rc, out, err = sh_run([lab.jj, "--at-op", oid, "--ignore-working-copy", "file", "show", "-r", "@", p],
                                   ws, lab.environ())
                if rc == 0 and out.encode() == c:
                    found = True
                    break
            if not found:
                obs["lost"] += 1
                obs["msg"] += " lost:" + p
    return obs


def run_scenario(ctx, lab, name, prep, cmd, rng, max_kills):
    """returns the list of trace records of this case"""
    root = lab.copy(lab.base)
    ws = os.path.join(root, "ws")
    for p in prep:
        lab.ok(ws, *p)
    pristine = lab.copy(root)
    shutil.rmtree(root)
    pws = os.path.join(pristine, "ws")
    repo = os.path.join(pws, ".jj", "repo")
    start = sorted(n[:16] for n in os.listdir(os.path.join(repo, "op_heads", "heads")) if len(n) >= 32)
    existing = sorted(n[:16] for n in os.listdir(os.path.join(repo, "op_store", "operations")) if len(n) >= 32)
    existing_views = sorted(n[:16] for n in os.listdir(os.path.join(repo, "op_store", "views")) if len(n) >= 32)
    pre_files = disk_files(pws)
    # traced, uninterrupted run
    full = lab.copy(pristine)
    tr = os.path.join(full, "trace.txt")
    # one environment (timestamps, randomness seed) for the traced run and every kill run, so
    # that the operation ids written by the command are the same in all of them
    cmd_env = lab.environ()
    rc, out, err = sh_run([lab.jj] + cmd, os.path.join(full, "ws"), {**cmd_env, "JJ_VERIF_TRACE": tr})
    if rc != 0:
        raise vf.ToolError("scenario %s: command failed uninterrupted: %s" % (name, err[-1500:]))
    points = []
    for line in open(tr):
        parts = line.rstrip("\n").split(" ", 3)
        points.append((int(parts[1]), parts[2], parts[3] if len(parts) > 3 else ""))
    ops = lab.ops(os.path.join(full, "ws"))
    rc, out, err = sh_run([lab.fsck, os.path.join(full, "ws", ".jj", "repo")], full, lab.environ())
    if rc != 0:
        raise vf.ToolError("fsck failed: " + err[-500:])
    viewof = sorted([o[:16], v[:16]] for o, v in json.loads(out)["view_of"].items())
    shutil.rmtree(full)
    effs = [classify(s, d, os.path.join(full, "ws") + os.sep) for _, s, d in points]
    K = len(points)
    important = [i for i in range(K) if effs[i]["e"] not in ("other", "noop")]
    rest = [i for i in range(K) if effs[i]["e"] in ("other", "noop")]
    rng.shuffle(rest)
    kills = sorted(set(important + rest[:max(0, max_kills - len(important))]))

    def kill_at(i):
        root = lab.copy(pristine)
        rc, out, err = sh_run([lab.jj] + cmd, os.path.join(root, "ws"), {**cmd_env, "JJ_VERIF_CRASH_AT": str(i + 1)})
        obs = observe(lab, root, pre_files)
        obs["killed"] = rc not in (0, 1, 2)
        shutil.rmtree(root, ignore_errors=True)
        return i, obs

    with ThreadPoolExecutor(max_workers=6) as ex:
        results = dict(ex.map(kill_at, kills))
    shutil.rmtree(pristine, ignore_errors=True)
    recs = [{"a": "reset", "case": name, "cmd": " ".join(cmd), "ops": ops, "start": start, "existing": existing,
             "existing_views": existing_views, "viewof": viewof,
             "points": K}]
    for i in range(K):
        if i in results:
            o = results[i]
            recs.append({"a": "crash", "i": i + 1, "site": points[i][1], "head": o["head"], "oplog_ok": o["oplog_ok"],
                         "torn": o["torn"], "wc": o["wc"], "recovered": o["recovered"], "lost": o["lost"],
                         "killed": o["killed"], "msg": o["msg"]})
        recs.append({"a": "eff", "i": i + 1, "site": points[i][1], **effs[i]})
    return recs, len(kills)


def run_check(ctx):
    for cfg, inv in (("all", None), ("neg_g2", "Loadable"), ("neg_g3", "NoCommittedOpLost")):
        r = vf.tlc_mc("MC_Durability", "MC_Durability_" + cfg, expect_violation=inv, workers=4, timeout=600)
        if inv is None:
            ctx.add_mc(r, "MC_Durability_all (every guarded effect sequence is crash-safe in every state)")
        else:
            ctx.cov["tlc_runs"].append({"run": "negative: guard dropped (%s)" % cfg, "outcome": "fails as required (%s)" % inv})
    lab = Lab(ctx)
    rng = random.Random(ctx.seed)
    scen = SCENARIOS[:ctx.q(5, len(SCENARIOS))]
    all_recs, kills = [], 0
    try:
        for name, prep, cmd in scen:
            recs, k = run_scenario(ctx, lab, name, prep, cmd, rng, ctx.q(22, 400))
            all_recs += recs
            kills += k
    finally:
        lab.env.close()
    trace = ctx.path("c15.ndjson")
    with open(trace, "w") as f:
        for r in all_recs:
            f.write(json.dumps(r) + "\n")
    j = vf.judge_records(ctx, "Trace_Durability", trace, chunk=100000,
                         case_start=lambda line: '"a": "reset"' in line or '"a":"reset"' in line,
                         sig_fn=lambda r, v: v + (":" + r.get("site", "") if r.get("a") == "crash" else ":" + r.get("e", "")))
    crashes = [r for r in all_recs if r["a"] == "crash"]
    ctx.cov["evaluations"] = len(crashes)
    ctx.cov["distinct_nontrivial"] = len({(r["i"], r["site"], r["head"], r["wc"]) for r in crashes if r["killed"]})
    ctx.cov["kill_points_total"] = sum(r["points"] for r in all_recs if r["a"] == "reset")
    ctx.cov["commands"] = [r["cmd"] for r in all_recs if r["a"] == "reset"]
    ctx.cov["exhaustive"] = ctx.thorough
    ctx.cov["rule"] = ("a case = one jj command on a prepared repository; evaluations = real process kills (abort before the i-th "
                       "hooked durable step) each followed by a load with fresh processes; non-trivial = the process really died "
                       "at the point; distinct by (point index, site, resolved head, working-copy status)")
    for r in crashes[:2] + [r for r in crashes if r["wc"] == "stale"][:2]:
        ctx.sample(r, 4)
    ctx.assumptions += ["A3: crashes are process kills (abort), not power loss", "gix-internal writes are not instrumented",
                        "rename of a synced temp file is atomic"]


def run(ctx):
    run_check(ctx)
