"""C36 Expression parsers never crash - restricted scope (spec/Grammar)."""
import json
from concurrent.futures import ThreadPoolExecutor

import vf
from checks import fn_common as fc

META = dict(
    category='exploration',
    engine='Grammar',
    technique='TLA+ spec Grammar: TLC generates token sentences, grammar derivations, nesting descriptors and alias graphs and model-checks alias expansion as a stack machine (bounded stack, agreement with the functional reference and with the static cycle/error reachability, termination); every case is parsed by the real revset, fileset and template parsers in child processes under a per-case timeout (S->I) and TLC judges the observed outcomes',
    text='Inputs: all token sentences of <=3 tokens over a 22-token alphabet (thorough: also all 4-token sentences over its 14 structural tokens) (identifiers, brackets, prefix/postfix/infix operators, @ : . , string literals incl. unterminated, escaped, invalid-escape and raw, unicode identifier/symbol, space, integer) plus pseudo-random 5-token sentences, all derivations of a 14-production token grammar up to 5 (6) tokens, nesting generators (prefix operators, postfix operators, infix chains, argument lists, long string literals to 100 000; parentheses and nested calls to 10 because each level is parsed three times, plus calls at 10 000/100 000 where the first descent ends the run), and alias graphs over the symbol aliases A, x and the function alias F(x) with 14 bodies each (3000 pseudo-random graph x expression pairs quick, 15 000 thorough; the model itself is checked on all 50 625 pairs in thorough). Contract: the outcome is Ok or Err - never a panic, abort or stack overflow - and alias expansion fails exactly when the model expansion does (recursion found on the stack, wrong arity, unparsable definition). TLC proves for the model that expansion terminates with a stack of distinct aliases and fails iff a cycle or a local error is reachable in the alias graph.',
    note='Crash-freedom on arbitrary byte strings is fuzzing territory and is NOT claimed (DESIGN 5): only model-derived inputs. A timeout on a sentence or a nesting case (nested calls between 11 and the overflow depth would take 3^n steps) is recorded, not judged; a timeout on an alias case (after one retry alone with 6x the limit) is a failure to terminate. Parsing runs on a thread with an 8 MiB stack in a dev-profile (opt-level 1) build; the overflow depth depends on both. Known finding: stack overflow at nesting depth >= 5000 (known-findings.txt).',
    design='4 C36, 5, 7',
)
READY = True
LEVEL = META["category"]

LANGS = ("revset", "fileset", "template")
DEEP = 5000   # spec/Grammar.tla DeepNest


def sig(r, verdict):
    if r.get("batch"):
        return "%s:sentence-batch:%s" % (verdict, "+".join(sorted(r["outcomes"])))
    c = r["case"]
    what = r["kind"] or r["outcome"]
    if verdict != "NoCrash":
        return "%s:%s:%s" % (verdict, c["t"], c["lang"])
    if c["t"] == "nest":
        if c["n"] >= DEEP:
            return "%s:nest:depth>=%d" % (what, DEEP)
        return "%s:nest:%s:%s:n=%d" % (what, c["kind"], c["lang"], c["n"])
    return "%s:%s:%s" % (what, c["t"], c["lang"])


def nontrivial(r):
    # a case that is not a plain short sentence: deep nesting, a derivation with structure,
    # an alias graph whose expansion enters at least one definition, or any abnormal outcome
    if r.get("batch"):
        return False
    c = r["case"]
    if r["outcome"] not in ("ok", "err"):
        return True
    if c["t"] == "nest":
        return c["n"] >= 100
    if c["t"] == "derived":
        return len(c["toks"]) >= 4
    if c["t"] == "alias":
        return len(c["defs"]) >= 2
    return False


def run(ctx):
    T = ctx.thorough
    gen = {}
    gen["sent"] = fc.generate(ctx, "MC_Grammar", ctx.q("MC_Grammar_sent", "MC_Grammar_sent_thorough"), workers=ctx.q(6, 12), timeout=2400)["CASE"]
    gen["derived"] = fc.generate(ctx, "MC_Grammar", ctx.q("MC_Grammar_derive", "MC_Grammar_derive_thorough"), workers=4)["CASE"]
    gen["nest"] = fc.generate(ctx, "MC_Grammar", "MC_Grammar_nest", workers=2)["CASE"]
    gen["alias"] = fc.generate(ctx, "MC_Grammar", ctx.q("MC_Grammar_alias", "MC_Grammar_alias_thorough"), workers=ctx.q(6, 12), timeout=2400)["CASE"]
    # termination of the alias machine (liveness) and anti-vacuity
    r = vf.tlc_mc("MC_Grammar", "MC_Grammar_alias_live", workers=ctx.q(4, 8), timeout=1800)
    ctx.add_mc(r, "MC_Grammar_alias_live (PROPERTY Terminates)")
    if T:   # the alias machine on ALL 50 625 (graph, expression) pairs
        r = vf.tlc_mc("MC_Grammar", "MC_Grammar_alias_all", workers=12, timeout=2400)
        ctx.add_mc(r, "MC_Grammar_alias_all")
    fc.negative(ctx, "MC_Grammar", "MC_Grammar_neg_nocycle", "InvStack")

    # cases per language: structured cases first, the many plain sentences last
    per_lang = {}
    for lang in LANGS:
        cs = []
        for key in ("nest", "alias", "derived", "sent"):
            for c in gen[key]:
                d = dict(c)
                d["lang"] = lang
                cs.append(d)
        per_lang[lang] = cs
    lib_cases = per_lang["revset"] + per_lang["fileset"]
    tpl_cases = per_lang["template"]
    f_lib, f_tpl = fc.write_ndjson(ctx.path("lib.cases"), lib_cases), fc.write_ndjson(ctx.path("tpl.cases"), tpl_cases)
    o_lib, o_tpl = ctx.path("lib.out"), ctx.path("tpl.out")
    tmo = ctx.q(5000, 10000)
    vf.build("paths")
    vf.build("jjcli")

    def run_lib():
        return ctx.harness("paths", ["parse-supervise", "--cases", f_lib, "--out", o_lib, "--jobs", ctx.q(6, 8),
                                     "--timeout-ms", tmo, "--batch", 1000], timeout=3000)

    def run_tpl():
        return ctx.harness("jjcli", ["verif-parse-supervise", "--cases", f_tpl, "--out", o_tpl, "--jobs", ctx.q(3, 4),
                                     "--timeout-ms", tmo, "--batch", 1000], timeout=3000)

    with ThreadPoolExecutor(max_workers=2) as ex:
        for fut in [ex.submit(run_lib), ex.submit(run_tpl)]:
            fut.result()
    trace = ctx.path("t.ndjson")
    n_cases = 0
    outcomes = {}
    with open(trace, "w") as f:
        for p in (o_lib, o_tpl):
            for line in open(p):
                r = json.loads(line)
                if r.get("batch"):
                    n_cases += r["n"]
                    for k, v in r["outcomes"].items():
                        outcomes[k] = outcomes.get(k, 0) + v
                else:
                    n_cases += 1
                    outcomes[r["outcome"]] = outcomes.get(r["outcome"], 0) + 1
                f.write(line)
    if n_cases != len(lib_cases) + len(tpl_cases):
        raise vf.ToolError("supervisors reported %d of %d cases" % (n_cases, len(lib_cases) + len(tpl_cases)))
    j = fc.judge(ctx, "Trace_Grammar", trace, nontrivial, sig, chunk=ctx.q(3000, 8000))
    ctx.cov["evaluations"] = n_cases          # parses executed (batch records stand for many)
    ctx.cov["traces_validated_against_impl"] = n_cases
    ctx.cov["outcomes"] = outcomes
    ctx.cov["cases_by_kind"] = {k: len(v) * len(LANGS) for k, v in gen.items()}
    ctx.cov["rule"] = ("one evaluation = one (case, language) parsed by the real parser in a child process; cases are TLC-generated token "
                       "sentences, grammar derivations, nesting descriptors and alias graphs (MC_Grammar); non-trivial = nesting depth "
                       ">= 100, a derivation of >= 4 tokens, an alias graph with >= 2 definitions, or any outcome other than ok/err; "
                       "distinct by record")
    shown = set()
    for r in j["records"]:
        if not r.get("batch") and nontrivial(r):
            key = (r["case"]["t"], r["outcome"])
            if key not in shown and len(shown) < 6:
                shown.add(key)
                ctx.sample({"case": r["case"], "outcome": r["outcome"], "kind": r["kind"]}, 6)
    ctx.assumptions += ["each parse runs on a thread with an 8 MiB stack inside a child process; a child death is attributed to the case it was running",
                        "token texts per language: harness/jjconf/src/bin/paths/grammar_text.rs",
                        "for the fileset language (whose public parse also resolves names) an unknown-function error counts as successful alias expansion",
                        "a timeout (%d ms per case) on a sentence / nesting case is recorded, not judged" % tmo]
