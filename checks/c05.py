"""C05 Materialized conflicts parse back to the same conflict (spec/ConflictMarkers)."""
import vf
from checks import textlib

META = dict(
    category='exploration',
    engine='ConflictMarkers',
    technique='TLA+ spec ConflictMarkers: the conflict-marker format as a line-driven state machine, Parse o Materialize = id model-checked by TLC + TLC-judged traces (I->S) of the real materialize_merge_result_to_bytes / parse_conflict',
    text='The specification defines the format: SpecParse, an outer machine (resolved / in-conflict, one step per line) and two inner machines '
         '(jj style unknown/diff/remove/add, Git style left/base/right) over marker lines of a minimum length.  TLC checks on the model that '
         'the transcribed writer followed by SpecParse is the identity for every 3-term conflict of 0..1 lines (thorough 0..2) and 5-term '
         'conflicts over a vocabulary with marker look-alikes, diff-prefix lines, blank lines, CR bytes and unterminated last lines, in all '
         'four styles, every snapshot position of the diff style, LF and CRLF, with resolved text before/after/between conflicts; four '
         'seeded bugs (no length increment, +1 increment, no EOL spreading, separator not stripped) must fail; MC_ConflictParser runs the same parser one TLA+ step per line and checks prefix/open-conflict invariants in every intermediate state of every parse of two-conflict files.  Binding: the real code '
         'materialises 4 000 exhaustive small conflicts (10^3 term triples x 4 styles) and seeded random conflicts of 2-4 sides (look-alikes '
         'of all eight marker characters at lengths 6/7/8/11, CR, empty sides, missing final newline, LF/CRLF, labels incl. marker-like '
         'labels, explicit longer marker lengths, line and word hunk level); TLC decodes the REAL BYTES with SpecParse and requires '
         'SpecParse(bytes) = merge_hunks(m) (writer) and parse_conflict(bytes) = merge_hunks(m) (parser).',
    note='The contract is the round trip only; the marker-length rule (max run + 4, min 7) is a reference transcription - a different length '
         'that still round-trips is divergence, not a violation (TLC shows increment 1 is not enough, >= 2 is).  Explicit marker lengths are '
         'only tried at or above the automatic one.  Inputs are bounded line texts.',
    design='4 C05',
)
READY = True
LEVEL = META["category"]

MARKER_BYTES = {60, 62, 43, 45, 37, 92, 124, 61}


def has_lookalike(r):
    for t in r["terms"]:
        start = True
        for b in t:
            if start and b in MARKER_BYTES:
                return True
            start = b == 10
    return False


def nontrivial(r):
    # a materialised file that really contains a conflict (markers were written and parsed back)
    return r.get("op") == "roundtrip" and not r["mh"]["res"]


def run(ctx):
    cfgs = ctx.q(("MC_ConflictMarkers", "MC_ConflictMarkers_crlf", "MC_ConflictMarkers_5"),
                 ("MC_ConflictMarkers", "MC_ConflictMarkers_crlf", "MC_ConflictMarkers_thorough", "MC_ConflictMarkers_thorough5"))
    for cfg in cfgs:
        r = vf.tlc_mc("MC_ConflictMarkers", cfg, workers=ctx.q(8, 14), timeout=ctx.q(400, 3000))
        ctx.add_mc(r, cfg)
    textlib.negatives(ctx, "MC_ConflictMarkers", (("shortmarker", "InvRoundTrip"), ("plusone", "InvRoundTrip"),
                                                  ("nospread", "InvRoundTrip"), ("nostrip", "InvRoundTrip")))
    # the same parser run as an explicit per-line state machine: invariants in every intermediate state
    cfg = ctx.q("MC_ConflictParser", "MC_ConflictParser_thorough")
    r = vf.tlc_mc("MC_ConflictParser", cfg, workers=ctx.q(8, 14), timeout=ctx.q(600, 3000))
    ctx.add_mc(r, cfg)
    textlib.negatives(ctx, "MC_ConflictParser", (("shortmarker", "InvPrefix"),))
    trace = ctx.path("c05.ndjson")
    ctx.harness("text", ["markers", "--out", trace, "--seed", ctx.seed, "--random", ctx.q(3000, 40000)])
    j = textlib.judge(ctx, "Trace_ConflictMarkers", trace, nontrivial_fn=nontrivial, chunk=ctx.q(900, 3000), par=8,
                      ops={"roundtrip", "panic"})
    recs = j["records"]
    dom = [r for r in recs if r.get("op") == "domain"][0]
    if dom["count"] != 10 ** 3 * 4:
        raise vf.ToolError("core domain is not exhaustive: %s" % dom)
    rt = [r for r in recs if r.get("op") == "roundtrip"]
    ctx.cov["exhaustive"] = False
    ctx.cov["exhaustive_core"] = "all 3-term conflicts with terms of 0..1 lines from {a, +++++++, ------ x, >>>>>>>, empty line}, terminated or not (10^3) x 4 styles = 4000"
    ctx.cov["conflicts_with_markers"] = sum(1 for r in rt if not r["mh"]["res"])
    ctx.cov["by_style"] = {s: sum(1 for r in rt if r["style"] == s and not r["mh"]["res"]) for s in ("diff", "diffexp", "snapshot", "git")}
    ctx.cov["with_lookalike_lines"] = sum(1 for r in rt if not r["mh"]["res"] and has_lookalike(r))
    ctx.cov["marker_len_above_min"] = sum(1 for r in rt if not r["mh"]["res"] and r["len"] > 7)
    ctx.cov["unterminated_side"] = sum(1 for r in rt if not r["mh"]["res"] and any(t and t[-1] != 10 for t in r["terms"]))
    ctx.cov["crlf_files"] = sum(1 for r in rt if not r["mh"]["res"] and any(13 in t for t in r["terms"]))
    ctx.cov["four_sides"] = sum(1 for r in rt if not r["mh"]["res"] and len(r["terms"]) == 7)
    ctx.cov["rule"] = ("records = one real materialise + parse each; generated exhaustively on the core domain and randomly (seeded) "
                       "beyond; non-trivial = the merge left at least one conflict hunk, so markers were written and read back; "
                       "distinct by full record")
    for r in rt:
        if nontrivial(r) and r["len"] > 7 and len(r["terms"]) == 5 and len(r["mat"]) < 260:
            ctx.sample({"style": r["style"], "terms": ["".join(map(chr, t)) for t in r["terms"]], "len": r["len"],
                        "materialised": "".join(map(chr, r["mat"]))}, 3)
    ctx.assumptions += ["SpecParse (spec/ConflictMarkers.tla) is the definition of the conflict-marker format",
                        "explicit marker lengths below the automatic one are outside the property",
                        "TLC evaluates the specification correctly"]
