"""C38 Annotations blame the commit that introduced each line (spec/Annotate)."""
import json
import random
from concurrent.futures import ThreadPoolExecutor

import vf

META = dict(
    category='model_checking',
    engine='Annotate',
    technique='TLA+ spec Annotate (unique-line-token histories, Blame, the ideal annotation walk as a state machine, '
              'contract on the annotator\'s answer): TLC explores every valid history and runs the walk; the same '
              'histories are annotated by the real FileAnnotator and each answer is judged by TLC',
    text='TLC builds every valid history (every token introduced exactly once; merges included) of one file on up to 3 '
         'commits x 3 tokens with every contiguous domain g..s and on up to 4 commits x 2 tokens containing a merge '
         '(thorough: 4x2 with domains, 4x3), runs the ideal walk and checks it meets the contract and equals Blame. '
         'TLC emits each history; the harness writes the real commits (one line per token), runs '
         'FileAnnotator::from_commit + compute within the domain, and Trace_Annotate (TLC) judges: annotated text = '
         'file, every Ok origin is an in-domain ancestor that has the line while none of its in-domain parents has, '
         'origin = Blame exactly, Err lines only when Blame lies outside the domain. Random histories up to 6 commits '
         'x 4 tokens by TLC simulation.',
    note='Known finding (DESIGN 7): a merge that keeps a line one parent deleted and the other left untouched is '
         'blamed for it. Only unique-token histories (no moved or duplicated lines) are generated, so that Blame is '
         'unambiguous; the DESIGN\'s additional random-text histories under the general contract are not built. '
         'An Err origin inside the domain (nearest parent not entered by the walk) is counted as divergence from jj\'s '
         'doc comment, not as a violation. Trusted: TLC, the recorder c38.rs.',
    design='4 C38',
)
READY = True
LEVEL = META["category"]

SHAPE = "MergeKeepsLine/"
SHAPES = {SHAPE: "merge-keeps-line-one-parent-deleted",
          "UnresolvedRootCountedTwice/": "unresolved-root-counted-twice"}


def sig(r, verdict):
    for k, v in SHAPES.items():
        if verdict.startswith(k):
            return v
    return verdict


def nontrivial(r):
    # lines of at least two different origins, or a merge among the ancestors of the start commit
    if r.get("op") != "annotate":
        return False
    origins = {(e["c"], e["ok"]) for e in r.get("out", [])}
    return len(origins) >= 2 or any(len(p) > 1 for p in r["par"][:r["s"]])


def gen(ctx, cfg, timeout=900, simulate=None):
    extra = ["-seed", str(ctx.seed)]
    if simulate:
        extra += ["-depth", "9"]
    r = vf.tlc("MC_Annotate", cfg, timeout=timeout, simulate=simulate, workers=1 if simulate else 8, extra=extra)
    if r["error"] is not None:
        raise vf.ToolError("MC_Annotate/%s failed: %s\n%s" % (cfg, r["invariant"] or r["error"], r["raw_tail"]))
    seen, out = set(), []
    for k, a in r["prints"]:
        if k == "REPLAY":
            s = json.loads(a)
            if s not in seen:
                seen.add(s)
                out.append(json.loads(s))
    if simulate:
        ctx.cov["tlc_runs"].append({"run": "%s -simulate %s" % (cfg, simulate), "outcome": "generated %d histories" % len(out)})
    else:
        ctx.add_mc(r, cfg)
    return out


def run(ctx):
    rnd = random.Random(ctx.seed)
    cases, exhaustive = [], []
    for cfg in ctx.q(("MC_Annotate_b", "MC_Annotate_m"), ("MC_Annotate_b", "MC_Annotate", "MC_Annotate_c")):
        cs = gen(ctx, cfg, timeout=ctx.q(600, 2400))
        exhaustive.append("%s=%d" % (cfg, len(cs)))
        cases += cs
    cases += gen(ctx, "MC_Annotate_sim", simulate="num=%d" % ctx.q(60, 400), timeout=ctx.q(600, 2400))
    negs = [("firstparent", "InvWalkMeetsContract"), ("droplast", "InvWalkMeetsContract")]

    def neg(b):
        vf.tlc_mc("MC_Annotate", "MC_Annotate_neg_" + b[0], expect_violation=b[1], workers=2, timeout=600)
        return b
    with ThreadPoolExecutor(max_workers=2) as ex:
        for b in ex.map(neg, negs):
            ctx.cov["tlc_runs"].append({"run": "negative:" + b[0], "outcome": "fails as required (%s)" % b[1]})
    casefile = ctx.path("c38-cases.ndjson")
    with open(casefile, "w") as f:
        for c in cases:
            f.write(json.dumps(c) + "\n")
    trace = ctx.path("c38.ndjson")
    ctx.harness("tree", ["annotate", "--cases", casefile, "--out", trace], timeout=2400)
    j = vf.judge_records(ctx, "Trace_Annotate", trace, sig_fn=sig, nontrivial_fn=nontrivial)
    for rec in j["records"]:
        if len({(e["c"], e["ok"]) for e in rec.get("out", [])}) >= 3 and any(len(p) > 1 for p in rec["par"]):
            ctx.sample(rec, 3)
    shown = set()
    for idx, verdict in j["bad"]:
        s = sig(None, verdict)
        if s != verdict and s not in shown:
            shown.add(s)
            ctx.sample({"known_finding": verdict, "record": j["records"][idx]}, 6)
    ctx.cov["exhaustive"] = True
    ctx.cov["exhaustive_domain"] = ("histories generated by TLC and all annotated by the real FileAnnotator: " + ", ".join(exhaustive) +
                                    " (MC_Annotate_<x>: see spec/*.cfg for commits x tokens), plus simulated histories up to 6 commits x 4 tokens")
    ctx.cov["rule"] = ("records = runs of the real FileAnnotator (from_commit + compute within the domain); non-trivial = lines of "
                       ">= 2 different origins or a merge among the commits up to the start commit; distinct by full record")
    ctx.assumptions += [
        "unique line tokens written in token order: no moved, duplicated or re-added lines, so that Blame is unambiguous",
        "domains are the whole history or contiguous ranges g..s",
        "the line diff of unique-line files is exact (every common line is matched) - C03's territory",
    ]
