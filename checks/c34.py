"""C34 Git import and export converge without dropping updates (spec/GitSync)."""
import json
import os
from concurrent.futures import ThreadPoolExecutor

import vf

META = dict(
    category='model_checking',
    engine='GitSync',
    technique='TLA+ spec GitSync (state machine JjSet/JjDelete/GitSet/GitDelete/Import/Export over local bookmark, last-seen git ref, @git ref, actual Git ref): TLC exhaustive reachability with step contracts + TLC-generated behaviours replayed on a Git-backed repo with the real git CLI (S->I) + seeded random histories recorded and judged by TLC (I->S)',
    text='TLC explores every reachable state of the model (2 bookmarks, chain+fork of 3 commits quick / 4 commits thorough, one commit initially unknown to jj, unbounded depth) and checks on every transition the contracts ImportOK (one-sided Git change propagates incl. deletion, same change on both sides is kept, two-sided change loses no side: same signed multiset, or a fast-forward relative to the base: base <= dropped side <= kept side), ExportOK (a ref changed in Git since jj last saw it is never overwritten, one-sided jj change reaches Git, failures are reported exactly), Import;Export convergence and import idempotence. The real import_refs/export_refs are then bound both ways: scripted middle-of-chain races at the start of every run, every transition of a small model (1 bookmark, chain of 3 + fork, depth 5 quick / 6 thorough, plus 2 bookmarks depth 4 thorough) and TLC-simulated 6-step behaviours are replayed with Git-side edits done by the real `git update-ref`, and seeded random histories (3 bookmarks, 5 commits, up to 10 steps, git.abandon-unreachable-commits on and off) are recorded; TLC judges every observed step against the same contracts from the observed pre-state. Exhaustive on the model, sampled on longer histories.',
    note='Names without file/directory clashes, bookmarks only (no tags), one workspace-less repo with an internal Git backend; concurrent processes are not modelled (each action is atomic). Commits that exist only in Git are created with gix in the object store. Trusted: TLC, the projection in harness/jjconf/src/bin/gitsync/sync.rs (refs read from ref files and confirmed by `git update-ref --stdin verify` at every step and by `git for-each-ref` per repository). Exact conflict shape is compared with the transcription of merge_ref_targets as divergence only.',
    design='4 C34',
)
READY = True
LEVEL = META["category"]

NEG = [("ff_shortcut", "InvStep"), ("export_overwrites", "InvStep"), ("import_drops_deletion", "InvStep"), ("conflict_takes_git", "InvStep"),
       ("reimport_resolves", "InvIdem"), ("export_silent", "InvConverge")]


def scripted():
    """Scenarios replayed at the start of every run (chain 1 <- 2 <- 3, fork 4): the bookmark is
    synchronised at the MIDDLE commit; then one side moves it back to the ancestor and the other side
    forward to the descendant (both ways round, synchronised via export or via import, plus deletions
    and fork moves) and Import runs.  Only 'base <= v <= w' is a fast-forward; back-vs-forward must
    become the conflict."""
    par = [[], [1], [2], [1]]

    def J(c):
        return {"a": "JjSet", "b": 1, "c": c}

    def G(c):
        return {"a": "GitSet", "b": 1, "c": c}
    JD, GD = {"a": "JjDelete", "b": 1, "c": 0}, {"a": "GitDelete", "b": 1, "c": 0}
    I, E = {"a": "Import", "b": 0, "c": 0}, {"a": "Export", "b": 0, "c": 0}
    tails = [[I], [I, E, I], [E, I, E]]
    out = []
    for sync in ([J(2), E], [G(2), I]):
        for moves in ([J(1), G(3)], [G(3), J(1)], [G(1), J(3)], [J(3), G(1)],      # back vs forward: conflict
                      [J(3), G(3)], [J(1), G(1)],                                  # the same move on both sides
                      [J(3), G(4)], [J(4), G(3)], [J(1), G(4)],                    # fork
                      [JD, G(3)], [J(3), GD], [J(1), GD], [JD, G(1)]):             # delete vs move
            for t in tails:
                out.append({"par": par, "gitonly": [], "nb": 1, "abandon": False, "scripted": True,
                            "steps": sync + moves + t})
    # the same races when the bookmark was never synchronised (base absent: two creations)
    for moves in ([J(1), G(3)], [J(3), G(1)], [J(2), G(4)]):
        out.append({"par": par, "gitonly": [], "nb": 1, "abandon": False, "scripted": True,
                    "steps": moves + [I, E, I]})
    return out


def is_reset(line):
    return '"op":"reset"' in line


def maximal(behs):
    """drop behaviours that are a strict prefix of another one (the replayer compares
    after every action, so the longer behaviour covers the shorter)"""
    keys = [json.dumps([(s["a"], s["b"], s["c"]) for s in b["steps"]]) for b in behs]
    prefixes = set()
    for b in behs:
        acts = [(s["a"], s["b"], s["c"]) for s in b["steps"]]
        for k in range(1, len(acts)):
            prefixes.add(json.dumps(acts[:k]))
    seen, out = set(), []
    for b, k in zip(behs, keys):
        if k in prefixes or k in seen:
            continue
        seen.add(k)
        out.append(b)
    return out


def shards(ctx, jobs):
    """run harness invocations in parallel; jobs = list of arg lists"""
    vf.build("gitsync")
    with ThreadPoolExecutor(max_workers=min(len(jobs), 8)) as ex:
        list(ex.map(lambda a: ctx.harness("gitsync", a, timeout=1500), jobs))


def classify(recs):
    """per step: (record, pre-state) for the coverage rule"""
    pre = None
    for r in recs:
        if r["op"] == "reset":
            pre = r["post"]
            continue
        if "post" not in r:
            continue
        yield r, pre
        pre = r["post"]


def nontrivial(r, pre):
    nb = len(pre["git"])
    if r["op"] == "Import":
        # some bookmark changed on both sides since the last synchronisation
        return any(pre["git"][b] != pre["atgit"][b] and pre["local"][b] != [pre["atgit"][b]] for b in range(nb))
    if r["op"] == "Export":
        # some bookmark to export whose Git ref moved underneath, or a conflicted bookmark skipped
        return any((len(pre["local"][b]) == 1 and pre["local"][b][0] != pre["seen"][b] and pre["git"][b] != pre["seen"][b])
                   or len(pre["local"][b]) > 1 for b in range(nb))
    return False


def run(ctx):
    # 1. design level, negative configs and the S->I generators: independent TLC runs, in parallel
    cfg = ctx.q("MC_GitSync", "MC_GitSync_thorough")
    # quick's 2-bookmark model has a fork but no chain of three: the 1-bookmark chain+fork model adds it
    r_chain = vf.tlc_mc("MC_GitSync", "MC_GitSync_chain", workers=2, timeout=600)
    ctx.add_mc(r_chain, "MC_GitSync_chain")
    gens = ctx.q(["MC_GitSync_gen_all"], ["MC_GitSync_gen_all5", "MC_GitSync_gen_all2"])
    with ThreadPoolExecutor(max_workers=4) as ex:
        f_mc = ex.submit(vf.tlc_mc, "MC_GitSync", cfg, workers=ctx.q(6, 12), timeout=ctx.q(600, 2400))
        f_neg = [(bug, inv, ex.submit(vf.tlc_mc, "MC_GitSync", "MC_GitSync_neg_" + bug, expect_violation=inv,
                                      workers=1, timeout=300)) for bug, inv in NEG]
        # 2. S->I: every transition of a small model + simulated longer behaviours
        f_gen = [(g, ex.submit(vf.tlc_generate, "MC_GitSync", g, timeout=900)) for g in gens]
        f_sim = ex.submit(vf.tlc_generate, "MC_GitSync", "MC_GitSync_gen_sim", simulate="num=%d" % ctx.q(25, 150),
                          seed=ctx.seed, timeout=900)
        ctx.add_mc(f_mc.result(), cfg)
        for bug, inv, f in f_neg:
            f.result()
            ctx.cov["tlc_runs"].append({"run": "negative:" + bug, "outcome": "fails as required (%s)" % inv})
        behs = scripted()
        n_scripted = len(behs)
        for g, f in f_gen:
            b, gr = f.result()
            ctx.add_mc(gr, g)
            behs += maximal(b)
        n_exh = len(behs) - n_scripted
        b, gr = f_sim.result()
        ctx.add_mc(gr, "MC_GitSync_gen_sim")
        behs += maximal(b)
    behf = ctx.path("behaviours.ndjson")
    with open(behf, "w") as f:
        for x in behs:
            f.write(json.dumps(x) + "\n")
    K = 8
    jobs = [["sync", "--replay", behf, "--shard", i, "--of", K, "--out", ctx.path("replay%d.ndjson" % i)] for i in range(K)]
    # 3. I->S: seeded random histories
    n_rand = ctx.q(800, 4000)
    jobs += [["sync", "--random", n_rand // K, "--seed", ctx.seed * 1000 + i, "--maxsteps", 10, "--nb", 3,
              "--out", ctx.path("random%d.ndjson" % i)] for i in range(K)]
    shards(ctx, jobs)
    trace = ctx.path("c34.ndjson")
    with open(trace, "w") as out:
        for i in range(K):
            for name in ("replay%d.ndjson" % i, "random%d.ndjson" % i):
                with open(ctx.path(name)) as f:
                    out.write(f.read())

    # 4. TLC judges every observed step
    j = vf.judge_records(ctx, "Trace_GitSync", trace, case_start=is_reset, chunk=ctx.q(3000, 8000),
                         sig_fn=lambda rec, verdict: "%s:%s" % (verdict, rec.get("act") or rec.get("op")))
    recs = j["records"]
    # a violation's replay artefact carries the whole history of its case, not just the failing step
    by_id = {id(x): i for i, x in enumerate(recs)}
    for v in ctx.violations + [h[1] for h in ctx.known_hits]:
        i = by_id.get(id(v["case"]))
        if i is not None:
            start = max(k for k in range(i + 1) if recs[k]["op"] == "reset")
            v["detail"] = {"history": recs[start:i + 1]}
            brief = [[x.get("act") or x["op"], x.get("b"), x.get("c")] + ([x["set"]] if x.get("set") else [])
                     for x in recs[start + 1:i + 1]]
            vf.log("violation %s: %s | case %s | last record %s" % (
                v["contract"], json.dumps(brief), json.dumps({k: recs[start].get(k) for k in ("src", "par", "gitonly", "otheronly", "abandon", "nb")}),
                json.dumps(recs[i])[:700]))
    n_cases = sum(1 for x in recs if x["op"] == "reset")
    n_replayed = sum(1 for x in recs if x["op"] == "reset" and x["src"] == "tlc")
    if n_replayed != len(behs):
        raise vf.ToolError("replayed %d behaviours, generated %d" % (n_replayed, len(behs)))
    # structural sanity: a replayed step that differs from TLC's expected state must have been
    # reported by the judge as a divergence or a violation
    flagged = set(j["diverges"]) | {i for i, _ in j["bad"]}
    case_flagged, cur = {}, None
    for i, x in enumerate(recs):
        if x["op"] == "reset":
            cur = i
        if i in flagged:
            case_flagged[cur] = True
    cur = None
    mism = 0
    for i, x in enumerate(recs):
        if x["op"] == "reset":
            cur = i
        if x.get("match") is False:
            mism += 1
            if not case_flagged.get(cur):
                raise vf.ToolError("replay step %d differs from the model's expected state but the judge saw nothing: %s" % (i, x))
    ctx.cov["replay_mismatches"] = mism
    seen = set()
    for x, pre in classify(recs):
        if nontrivial(x, pre):
            key = json.dumps([pre["local"], pre["seen"], pre["atgit"], pre["git"], x["op"], x["post"]["local"], x["post"]["git"]])
            if key not in seen:
                seen.add(key)
                if x["op"] == "Import" and any(len(t) > 1 for t in x["post"]["local"]):
                    ctx.sample({"pre": pre, "step": x}, 2)
                elif x["op"] == "Export" and x["failed"]:
                    ctx.sample({"pre": pre, "step": x}, 4)
    ctx.cov["distinct_nontrivial"] = len(seen)
    ctx.cov["behaviours_replayed"] = n_replayed
    ctx.cov["behaviours_scripted"] = n_scripted
    ctx.cov["behaviours_exhaustive_transitions"] = n_exh
    ctx.cov["random_histories"] = n_cases - n_replayed
    ctx.cov["exhaustive"] = True
    ctx.cov["exhaustive_domain"] = ("model: all reachable states, 2 bookmarks, %d commits (chain+fork, one Git-only); "
                                    "binding: scripted middle-of-chain races + every transition of the 1-bookmark model (chain of 3 + fork) up to depth %d%s" % (
                                        ctx.q(3, 4), ctx.q(5, 6), ctx.q("", " and of the 2-bookmark model up to depth 4")))
    ctx.cov["rule"] = ("steps = model actions executed on the real repository and judged by TLC; non-trivial = an Import where "
                       "some bookmark changed on both sides since the last synchronisation, or an Export with a bookmark whose "
                       "Git ref moved underneath / a conflicted bookmark; distinct by (pre-state, action, post-state)")
    ctx.assumptions += [
        "actions are atomic: no concurrent process touches the repository during import/export",
        "bookmark names have no file/directory clashes and are valid Git names",
        "A5: the projection (commit id -> model number, unknown ids -> 99) is correct; Git refs read from ref files are confirmed by git itself at every step",
    ]
