"""C01 Conflict simplification and flattening preserve meaning (spec/MergeAlgebra)."""
import vf

META = dict(
    category='model_checking',
    engine='MergeAlgebra',
    technique='TLA+ spec MergeAlgebra: TLC exhaustive on the model + TLC-judged traces of the real Merge<T>',
    text='TLC proves the transcribed simplify/flatten/write-back meet the C01 contracts for every merge over 3 values up to 7 terms (4 values/9 terms thorough) and every 3x3 nesting; the real Merge<T> is then run on the same exhaustive domain plus random merges up to 31 terms and every call is judged by TLC against the same contracts (trace validation, I->S). Exhaustive within the bounds, sampled beyond.',
    note='Values are integers (Merge<T> is generic in T: Eq). Trusted: TLC, the 60-line recorder in harness/jjconf/src/m_merge.rs.',
    design='4 C01',
)
READY = True
LEVEL = META["category"]


def nontrivial(r):
    # a simplify whose output is shorter than the input, or a flatten of >1 inner merge
    if r.get("op") == "simplify":
        return len(r["inp"]) >= 3 and len(r["out"]) < len(r["inp"])
    if r.get("op") == "flatten":
        return len(r["inp"]) >= 3
    return False


def run(ctx):
    # 1. design level: the reference transcription meets the contracts (exhaustive)
    cfg = ctx.q("MC_MergeAlgebra", "MC_MergeAlgebra_thorough")
    r = vf.tlc_mc("MC_MergeAlgebra", cfg, workers=ctx.q(8, 16), timeout=ctx.q(300, 3000))
    ctx.add_mc(r, cfg)
    for bug, inv in (("simplify", "InvSimplify"), ("flatten", "InvFlatten")):
        n = vf.tlc_mc("MC_MergeAlgebra", "MC_MergeAlgebra_neg_" + bug, expect_violation=inv, workers=4)
        ctx.cov["tlc_runs"].append({"run": "negative:" + bug, "outcome": "fails as required (%s)" % inv})
    # 2. binding I->S: the real Merge<T> on the same exhaustive domain + random, judged by TLC
    trace = ctx.path("c01.ndjson")
    V, L = ctx.q((3, 7), (4, 9))
    ctx.harness("merge", ["record", "--what", "c01", "--out", trace, "--seed", ctx.seed,
                           "--values", V, "--maxlen", L, "--random", ctx.q(2000, 50000)])
    j = vf.judge_records(ctx, "Trace_MergeAlgebra", trace, nontrivial_fn=nontrivial)
    recs = j["records"]
    # the exhaustive part really was exhaustive
    want = sum(V ** k for k in range(1, L + 1, 2))
    doms = {r["kind"]: r for r in recs if r.get("op") == "domain"}
    n_simpl_exh = doms["simplify"]["count"]
    if n_simpl_exh != want or doms["flatten"]["count"] != 10 + 1000:
        raise vf.ToolError("harness domain is not the spec's domain: %s (want %d)" % (doms, want))
    ctx.cov["exhaustive"] = True
    ctx.cov["exhaustive_domain"] = "all merges over %d values with <= %d terms (%d) and all nestings outer<=3 x inner<=3 over 2 values (1010), plus random up to 31 terms" % (V, L, want)
    ctx.cov["rule"] = ("records = calls of Merge::simplify/update_from_simplified/flatten on the real code; "
                       "non-trivial = simplify that cancels at least one pair, or flatten of a nesting with >= 3 inner merges; "
                       "distinct by full record")
    for r in recs:
        if nontrivial(r):
            ctx.sample(r, 4)
    ctx.assumptions += ["values are integers; Merge<T> is generic over T: Eq, so the value type does not matter",
                        "TLC evaluates the contracts of spec/MergeAlgebra.tla correctly"]
