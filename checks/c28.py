"""C28 Ignore rules behave like Git's (spec/GitIgnore)."""
import json
from concurrent.futures import ThreadPoolExecutor

import vf

META = dict(
    category='exploration',
    engine='GitIgnore',
    technique='TLA+ spec GitIgnore (pattern sub-language with its matching defined in the spec + stack semantics of ignore files): TLC checks the stack semantics on the enumerated domain; three-way binding jj GitIgnoreFile chain / real snapshot vs the spec vs `git check-ignore`, every record judged by TLC',
    text='The spec defines line parsing (comments, trailing spaces, !, trailing /, anchoring by a leading or middle /, escapes) and wildmatch (*, ?, ** bounded by slashes) on character sequences, and the stack rule: innermost file with an opinion decides, last matching line of a file decides, nothing under an ignored directory is re-included. TLC checks on the whole enumerated domain that the transcription of the snapshot walk equals the declarative contract and that the stack lemmas hold. Binding: ignore files at the root and in one sub-directory, <=2 lines at the root and <=1 (quick) / <=2 (thorough) in the sub-directory from a 12-pattern vocabulary (exhaustive product: 2 041 / 24 649 cases), plus in thorough a seeded sample over a 24-pattern vocabulary, each on a 12-path universe of files and directories. For every case the recorder asks jj (GitIgnoreFile::chain + matches_file/matches_dir with the parent-directory recursion of the snapshot, once rooted and once under a directory prefix), `git check-ignore --stdin` in a scratch repository with the paths on disk, and for a share of the batches a real working-copy snapshot; TLC judges jj against the spec, and requires git to agree with the spec (otherwise the run is a tool error, not a verdict). Input space sampled beyond the vocabulary, hence exploration.',
    note='Only the pattern sub-language of the spec: no character classes, no patterns with escaped slashes, no global excludes file / info/exclude level (same chaining code, prefix root). The glob engine is the third-party gix_ignore crate; jj-owned logic is the chain order, prefix stripping, negation handling and the walk. On this domain the spec, git 2.39 and jj agree everywhere (also on 47 further exotic pattern forms compared jj-vs-git only during the build, see notes/git.md).',
    design='4 C28',
)
READY = True
LEVEL = META["category"]

NEG = [("first_match", "InvLastLineWins"), ("negation_ignores", "InvLastLineWins"),
       ("outer_wins", "InvInnerFileWins"), ("reinclude_inside", "InvInsideIgnoredDir")]


def vocab_of(r):
    for k, a in r["prints"]:
        if k == "VOCAB":
            return json.loads(a)
    raise vf.ToolError("MC_GitIgnore did not print its VOCAB record")


def txt(line):
    return "".join(line)


def run(ctx):
    cfg = ctx.q("MC_GitIgnore", "MC_GitIgnore_thorough")
    with ThreadPoolExecutor(max_workers=4) as ex:
        f_mc = ex.submit(vf.tlc_mc, "MC_GitIgnore", cfg, workers=ctx.q(6, 12), timeout=ctx.q(900, 3000))
        f_neg = [(bug, inv, ex.submit(vf.tlc_mc, "MC_GitIgnore", "MC_GitIgnore_neg_" + bug, expect_violation=inv,
                                      workers=1, timeout=300)) for bug, inv in NEG]
        f_v24 = ex.submit(vf.tlc_mc, "MC_GitIgnore", "MC_GitIgnore_v24", workers=2, timeout=900) if ctx.thorough else None
        # the harness can start as soon as a VOCAB record is available: take it from the first negative run
        first = f_neg[0][2].result()
        vocab12 = ctx.path("vocab12.json")
        with open(vocab12, "w") as f:
            f.write(vocab_of(first))
        K = 8
        vf.build("gitsync")
        jobs = [["ignore", "--vocab", vocab12, "--maxroot", 2, "--maxsub", ctx.q(1, 2), "--snap", ctx.q(2, 6),
                 "--shard", i, "--of", K, "--out", ctx.path("ig%d.ndjson" % i)] for i in range(K)]
        names = ["ig%d.ndjson" % i for i in range(K)]
        if ctx.thorough:
            r24 = f_v24.result()
            ctx.add_mc(r24, "MC_GitIgnore_v24")
            vocab24 = ctx.path("vocab24.json")
            with open(vocab24, "w") as f:
                f.write(vocab_of(r24))
            jobs += [["ignore", "--vocab", vocab24, "--maxroot", 2, "--maxsub", 2, "--sample", 12000, "--seed", ctx.seed,
                      "--snap", 6, "--shard", i, "--of", K, "--out", ctx.path("ix%d.ndjson" % i)] for i in range(K)]
            names += ["ix%d.ndjson" % i for i in range(K)]
        with ThreadPoolExecutor(max_workers=8) as hx:
            list(hx.map(lambda a: ctx.harness("gitsync", a, timeout=2400), jobs))
        ctx.add_mc(f_mc.result(), cfg)
        for bug, inv, f in f_neg:
            f.result()
            ctx.cov["tlc_runs"].append({"run": "negative:" + bug, "outcome": "fails as required (%s)" % inv})
    trace = ctx.path("c28.ndjson")
    with open(trace, "w") as out:
        for name in names:
            with open(ctx.path(name)) as f:
                out.write(f.read())

    j = vf.judge_records(ctx, "Trace_GitIgnore", trace, chunk=ctx.q(300, 1500),
                         sig_fn=lambda rec, verdict: verdict)
    recs = [x for x in j["records"] if x["op"] == "ignore"]
    doms = [x for x in j["records"] if x["op"] == "domain"]
    want = {(2, 1): 157 * 13, (2, 2): 157 * 157}[(2, ctx.q(1, 2))]
    got = sum(d["cases"] for d in doms if d["vocab"] == 12)
    if got != want or any(d["product"] != want for d in doms if d["vocab"] == 12):
        raise vf.ToolError("harness enumerated %d cases of the 12-pattern domain, the spec's product has %d" % (got, want))

    # coverage rule: cases whose ignored set is not the union of what their lines ignore when alone
    def vec(x):
        return tuple(bool(y["jj"]) for y in x["res"])
    single = {}
    for x in recs:
        key = (tuple(map(txt, x["root"])), tuple(map(txt, x["sub"])))
        if len(key[0]) + len(key[1]) == 1:
            single[key] = vec(x)
    seen = set()
    n_paths = n_snap = 0
    for x in recs:
        n_paths += len(x["res"])
        n_snap += sum(1 for y in x["res"] if "snap" in y)
        r, s = tuple(map(txt, x["root"])), tuple(map(txt, x["sub"]))
        if len(r) + len(s) < 2:
            continue
        parts = [((a,), ()) for a in r] + [((), (b,)) for b in s]
        if not all(p in single for p in parts):
            continue
        union = tuple(any(single[p][i] for p in parts) for i in range(len(x["res"])))
        if vec(x) != union:
            key = (r, s)
            if key not in seen:
                seen.add(key)
                if len(seen) % 97 == 1:
                    ctx.sample({"root": list(r), "sub(d/)": list(s),
                                "ignored": ["/".join(map(txt, y["p"])) + ("/" if y["d"] else "") for y in x["res"] if y["jj"]]}, 5)
    ctx.cov["distinct_nontrivial"] = len(seen)
    ctx.cov["cases"] = len(recs)
    ctx.cov["path_verdicts_three_way"] = n_paths
    ctx.cov["path_verdicts_with_real_snapshot"] = n_snap
    ctx.cov["exhaustive"] = True
    ctx.cov["exhaustive_domain"] = "all %d pairs of ignore files (root <=2 lines, sub-directory <=%d lines) over the 12-pattern vocabulary x 12 paths%s" % (
        want, ctx.q(1, 2), ctx.q("", "; plus a seeded sample of 12 000 pairs over the 24-pattern vocabulary"))
    ctx.cov["rule"] = ("records = one pair of ignore files judged on 12 paths (jj rooted, jj under a prefix, git check-ignore, "
                       "and for a share a real snapshot); non-trivial = pairs with >=2 lines whose ignored set differs from the union "
                       "of what each line ignores alone (negation, override by the inner file, exclusion of a parent directory "
                       "interact); distinct by the pair of files")
    ctx.assumptions += [
        "git check-ignore (git 2.39) with the paths present on disk is the reference; it must agree with the spec on every judged record",
        "the walk of local_working_copy.rs is transcribed in the recorder (jj_ignored) and cross-checked against a real snapshot on a share of the batches",
        "A5: characters travel as arrays of one-character strings; the recorder joins them into the file contents it gives to jj and git",
    ]
