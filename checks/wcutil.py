"""Helpers shared by the working-copy checks (C23-C27, C29).  Not a check itself."""
import json
import os
import shutil
import tempfile
from concurrent.futures import ThreadPoolExecutor

import vf


def scratch_dir():
    """Temp dir for the scratch workspaces the harness creates (TMPDIR of the harness
    processes).  tmpfs if available: the working-copy code fsyncs, which makes a
    disk-backed /tmp ~5x slower; semantics (symlinks, exec bits, ns mtimes) are the same."""
    base = "/dev/shm" if os.path.isdir("/dev/shm") and os.access("/dev/shm", os.W_OK) else None
    return tempfile.mkdtemp(prefix="vf-wc-", dir=base)


def write_ndjson(path, items):
    with open(path, "w") as f:
        for it in items:
            f.write(json.dumps(it) + "\n")


def harness_parallel(ctx, mode, items, out_path, extra_args=(), par=8, timeout=1500):
    """Run `wc <mode> --in chunk --out chunk.out` on `items` split over `par` processes
    (each case uses its own fresh workspace, so chunks are independent); concatenates the
    outputs in order into out_path.  Returns number of output lines."""
    vf.build("wc")
    tmp = scratch_dir()
    try:
        par = max(1, min(par, len(items)))
        size = (len(items) + par - 1) // par
        chunks = [items[i:i + size] for i in range(0, len(items), size)]
        paths = []
        for i, ch in enumerate(chunks):
            pin = ctx.path("%s-in-%d.ndjson" % (mode, i))
            write_ndjson(pin, ch)
            paths.append((pin, ctx.path("%s-out-%d.ndjson" % (mode, i))))

        def one(p):
            ctx.harness("wc", [mode, "--in", p[0], "--out", p[1]] + list(extra_args),
                        timeout=timeout, env={"TMPDIR": tmp})
            return p[1]

        with ThreadPoolExecutor(max_workers=par) as ex:
            outs = list(ex.map(one, paths))
        n = 0
        with open(out_path, "w") as w:
            for o in outs:
                with open(o) as f:
                    for line in f:
                        if line.strip():
                            w.write(line)
                            n += 1
        return n
    finally:
        shutil.rmtree(tmp, ignore_errors=True)


def harness_tmp(ctx, args, timeout=1500):
    """Run the wc harness once with TMPDIR on the scratch dir."""
    tmp = scratch_dir()
    try:
        return ctx.harness("wc", args, timeout=timeout, env={"TMPDIR": tmp})
    finally:
        shutil.rmtree(tmp, ignore_errors=True)


# --------------------------------------------------------------------------
# WorkingCopy model (C23, C24, C25, C27): shared runner

PATHS = [["gi"], ["d"], ["d", "gi"], ["d", "x"], ["d", "x", "z"], ["d", "y"], ["f"]]
NP = len(PATHS)

# which property owns which verdict of Trace_WorkingCopy (spec/WorkingCopy.tla, VERDICTS)
OWNER = {
    "SnapshotOK": "C23", "SnapshotChangedDisk": "C23", "Panic:Snapshot": "C23", "Error:Snapshot": "C23",
    "NoStrayEntries:Snapshot": "C23", "SnapshotChangedSparse": "C23",
    "CheckOutOK": "C24", "CheckOutTree": "C24", "SnapshotAfterCheckoutSame": "C24", "Error:CheckOut": "C24",
    "NoStrayEntries:CheckOut": "C24", "CheckOutChangedSparse": "C24",
    "CheckOutSafe": "C25", "Panic:CheckOut": "C25",
    "SparseOK": "C27", "Panic:SetSparse": "C27", "Error:SetSparse": "C27", "SnapshotOutsideSparse": "C27",
    "NoStrayEntries:SetSparse": "C27",
}


def _match(sp, p):
    return any(list(q) == list(p[:len(q)]) for q in sp)


def _pre(rec, i):
    """observation before step i (0-based); the initial state if i == 0"""
    if i > 0:
        return rec["obs"][i - 1]
    a = {"k": "absent", "c": 0, "x": False, "t": "", "m": []}
    return {"disk": [a] * NP, "tree": [a] * NP, "fs": [{"k": "none", "x": False}] * NP, "sparse": [[]]}


def owners(rec, verdict, step):
    """Properties that own a verdict.  Every verdict has one owner (OWNER); what a Snapshot does
    while sparse patterns are in force is also C27's business ("a snapshot never records
    out-of-pattern paths as deleted")."""
    own = {OWNER[verdict]}
    if rec.get("op") == "wc" and step is not None and rec["steps"][step]["a"] == "Snapshot":
        if _pre(rec, step)["sparse"] != [[]]:
            own.add("C27")
    return own


def wc_signature(rec, verdict, step=None):
    """Structural signature of a violation.  Panics get the shape of the pre-state (the known
    findings F1-F5 of spec/WorkingCopy.tla); a panic of any other shape gets ':other'."""
    if rec.get("op") != "wc" or not rec["obs"]:
        return verdict
    if verdict == "SnapshotOK" and step is not None:
        # F6: a path with a (placeholder) file state left by a skipped update entry, not in
        # the tree, ignored, and nevertheless recorded by this snapshot
        pre, post = _pre(rec, step), rec["obs"][step]
        skipped_before = any(o["stats"]["skipped"] > 0 for o in rec["obs"][:step])
        for n, p in enumerate(PATHS):
            if skipped_before and pre["fs"][n]["k"] != "none" and pre["tree"][n]["k"] == "absent" \
                    and pre["disk"][n]["k"] in ("file", "symlink") and post["tree"][n]["k"] != "absent":
                return "SnapshotOK:stale-file-state-tracks-ignored-path"
        # F8: a tracked path that does not exist in the workspace (a directory on the way is a
        # symlink to the outside sentinel) and is nevertheless recorded with a content
        for n, p in enumerate(PATHS):
            if pre["fs"][n]["k"] != "none" and pre["disk"][n]["k"] == "absent" and post["tree"][n]["k"] != "absent" \
                    and any(pre["disk"][PATHS.index(p[:k])]["k"] == "symlink"
                            and pre["disk"][PATHS.index(p[:k])]["t"] in ("out", "out/x") for k in range(1, len(p))):
                return "SnapshotOK:tracked-path-read-through-symlinked-directory"
        return verdict
    if verdict == "SnapshotOutsideSparse" and step is not None:
        # F9: a tree file outside the patterns evicted by a newly tracked file below it
        pre, post = _pre(rec, step), rec["obs"][step]
        for n, p in enumerate(PATHS):
            if not _match(pre["sparse"], p) and pre["tree"][n]["k"] != "absent" and post["tree"][n]["k"] == "absent" \
                    and any(len(q) > len(p) and q[:len(p)] == p and _match(pre["sparse"], q) and post["tree"][m]["k"] != "absent"
                            and pre["disk"][m]["k"] in ("file", "symlink") for m, q in enumerate(PATHS)):
                return "SnapshotOutsideSparse:tree-file-above-in-pattern-path"
        return verdict
    if verdict == "Error:Snapshot":
        # F7: a tracked path below something that is no longer a directory (ENOTDIR in
        # visit_tracked_files, inside a directory ignored as a whole)
        i = len(rec["obs"]) - 1 if step is None else step
        pre, msg = _pre(rec, i), rec["obs"][i].get("msg", "")
        for n, p in enumerate(PATHS):
            if pre["fs"][n]["k"] != "none" and "Failed to stat file" in msg and any(
                    pre["disk"][PATHS.index(p[:k])]["k"] in ("file", "special") for k in range(1, len(p))):
                return "Error:Snapshot:tracked-path-below-non-directory"
        return "Error:Snapshot:other"
    if not verdict.startswith("Panic:"):
        return verdict
    i = len(rec["obs"]) - 1 if step is None else step
    st, pre, msg = rec["steps"][i], _pre(rec, i), rec["obs"][i].get("msg", "")
    kind = lambda v: v["k"]
    # some ancestor of p is a non-directory on disk
    blocked_above = lambda p: any(kind(pre["disk"][PATHS.index(p[:n])]) in ("file", "symlink", "special")
                                  for n in range(1, len(p)))
    if verdict == "Panic:SetSparse":
        sp = st["sp"]
        for n, p in enumerate(PATHS):
            if _match(pre["sparse"], p) and not _match(sp, p) and kind(pre["tree"][n]) != "absent":
                if kind(pre["disk"][n]) == "dir" or blocked_above(p):
                    if "left == right" in msg:
                        return "Panic:SetSparse:leaving-path-obstructed"
        return "Panic:SetSparse:other"
    if verdict == "Panic:Snapshot" and "left == right" in msg:
        under = lambda p: [m for m, q in enumerate(PATHS) if len(q) > len(p) and q[:len(p)] == p]
        # F2 and F5 are left-overs of a SKIPPED update entry: only then is the shape the known one
        skipped_before = any(o["stats"]["skipped"] > 0 for o in rec["obs"][:i])
        for n, p in enumerate(PATHS):
            if skipped_before and pre["fs"][n]["k"] != "none" and kind(pre["disk"][n]) == "dir":
                return "Panic:Snapshot:file-state-on-directory"
        for n, p in enumerate(PATHS):
            if kind(pre["disk"][n]) == "file" and _match(pre["sparse"], p) \
                    and any(kind(pre["tree"][m]) == "conflict" for m in under(p)):
                return "Panic:Snapshot:file-replaces-directory-with-conflict"
        for n, p in enumerate(PATHS):
            if skipped_before and pre["fs"][n]["k"] != "none" and not _match(pre["sparse"], p):
                return "Panic:Snapshot:stale-file-state-outside-sparse"
        return "Panic:Snapshot:other"
    if verdict == "Panic:Snapshot":
        return "Panic:Snapshot:other"
    if verdict == "Panic:CheckOut":
        new = st["tree"]
        for n, p in enumerate(PATHS):
            if _match(pre["sparse"], p) and kind(new[n]) != "absent":
                for m, q in enumerate(PATHS):
                    if len(q) > len(p) and q[:len(p)] == p and _match(pre["sparse"], q) and kind(pre["tree"][m]) != "absent" \
                            and (kind(pre["disk"][m]) == "dir" or blocked_above(q)):
                        if "sorted" in msg:
                            return "Panic:CheckOut:unsorted-changed-file-states"
        return "Panic:CheckOut:other"
    return verdict + ":other"


JJ = ("Snapshot", "CheckOut", "SetSparse")


def _steps_with_edit_before(rec, action):
    """indexes of `action` steps that have a user edit since the previous jj action"""
    out, dirty = [], False
    for i, s in enumerate(rec.get("steps", [])):
        if s["a"] == action and dirty:
            out.append(i)
        dirty = (dirty or s["a"] not in JJ) and s["a"] not in JJ
        if s["a"] in JJ:
            dirty = False
    return out


NONTRIVIAL = {
    # a snapshot that has user edits to record
    "C23": lambda r: r.get("op") == "wc" and bool(_steps_with_edit_before(r, "Snapshot")),
    # at least two check-outs of different trees
    "C24": lambda r: r.get("op") == "wc" and len({json.dumps(s["tree"]) for s in r["steps"] if s["a"] == "CheckOut"}) >= 2,
    # a check-out with user edits (foreign or modified files) since the last jj action
    "C25": lambda r: r.get("op") == "wc" and bool(_steps_with_edit_before(r, "CheckOut")),
    # at least two sparse pattern changes
    "C27": lambda r: r.get("op") == "wc" and sum(1 for s in r["steps"] if s["a"] == "SetSparse") >= 2,
}
RULES = {
    "C23": "scripts with a Snapshot that follows user edits",
    "C24": "scripts with check-outs of at least two different trees",
    "C25": "scripts with a CheckOut that follows user edits (foreign / modified files in the way)",
    "C27": "scripts with at least two sparse pattern changes",
}


def _dedupe(behaviours):
    seen, out = set(), []
    for b in behaviours:
        k = json.dumps(b, sort_keys=True)
        if k not in seen:
            seen.add(k)
            out.append(b)
    return out


def run_wc(ctx, prop, mc_cfgs, neg_cfgs, gen_cfgs, n_random, focus, script_len=12):
    """Common body of C23/C24/C25/C27.
    mc_cfgs: [cfg]; neg_cfgs: [(cfg, invariant)]; gen_cfgs: [(cfg, number of behaviours)]"""
    import math
    for cfg in mc_cfgs:
        r = vf.tlc_mc("MC_WorkingCopy", "MC_WorkingCopy_" + cfg, workers=ctx.q(8, 12), timeout=ctx.q(900, 2400))
        ctx.add_mc(r, "MC_WorkingCopy_" + cfg)
    def neg(ci):
        vf.tlc_mc("MC_WorkingCopy", "MC_WorkingCopy_" + ci[0], expect_violation=ci[1], workers=3, timeout=900)
        return {"run": "negative:" + ci[0], "outcome": "fails as required (%s)" % ci[1]}

    with ThreadPoolExecutor(max_workers=4) as ex:
        ctx.cov["tlc_runs"] += list(ex.map(neg, neg_cfgs))
    # S->I: behaviours generated by TLC (simulation of the model, seeded)
    behaviours = []
    for cfg, n in gen_cfgs:
        bs, g = vf.tlc_generate("MC_WorkingCopy", "MC_WorkingCopy_" + cfg, simulate="num=%d" % math.ceil(n / 8),
                                workers=8, seed=ctx.seed, timeout=ctx.q(900, 2400))
        ctx.cov["tlc_runs"].append({"run": "generate:" + cfg, "behaviours": len(bs), "wall_s": round(g.get("wall", 0), 1)})
        behaviours += bs
    behaviours = _dedupe(behaviours)
    if len(behaviours) < sum(n for _, n in gen_cfgs) // 3:
        raise vf.ToolError("generator produced only %d behaviours" % len(behaviours))
    s2i = ctx.path("s2i.ndjson")
    harness_parallel(ctx, "replay", behaviours, s2i, par=8, timeout=ctx.q(900, 2400))
    # I->S: seeded random scripts executed by the harness's own driver
    tmp = scratch_dir()
    try:
        parts = []

        def one(i):
            o = ctx.path("i2s-%d.ndjson" % i)
            ctx.harness("wc", ["random", "--out", o, "--seed", ctx.seed * 1000 + i, "--n", math.ceil(n_random / 8),
                               "--len", script_len, "--focus", focus], timeout=ctx.q(900, 2400), env={"TMPDIR": tmp})
            return o

        with ThreadPoolExecutor(max_workers=8) as ex:
            parts = list(ex.map(one, range(8)))
    finally:
        shutil.rmtree(tmp, ignore_errors=True)
    trace = ctx.path("wc-trace.ndjson")
    n_s2i = n_i2s = 0
    with open(trace, "w") as w:
        first = True
        for src in [s2i] + parts:
            for line in open(src):
                if not line.strip():
                    continue
                if '"op":"universe"' in line:
                    if first:
                        w.write(line)
                        first = False
                    continue
                w.write(line)
                if src == s2i:
                    n_s2i += 1
                else:
                    n_i2s += 1
    if n_s2i != len(behaviours):
        raise vf.ToolError("replayer returned %d records for %d behaviours" % (n_s2i, len(behaviours)))
    j = vf.tlc_judge("Trace_WorkingCopy", trace, chunk=ctx.q(150, 400), timeout=1800, par=8)
    recs = j["records"]
    ctx.cov["states"] += j["states"]
    ctx.cov["transitions"] += j["transitions"]
    ctx.cov["traces_validated_against_impl"] += n_s2i + n_i2s
    ctx.cov["evaluations"] += sum(len(r.get("steps", [])) for r in recs)
    ctx.cov["divergence_from_reference"] += len(j["diverges"])
    ctx.cov["s2i_behaviours"] = n_s2i
    # generated scripts cut short because the real disk did not admit a model edit (the
    # implementation left the disk in another state than the reference: a violation or a
    # divergence has been flagged at the jj step before)
    ctx.cov["s2i_truncated"] = sum(1 for r in recs if r.get("truncated"))
    ctx.cov["i2s_scripts"] = n_i2s
    nt = NONTRIVIAL[prop]
    ctx.cov["distinct_nontrivial"] += len({json.dumps(r, sort_keys=True) for r in recs if nt(r)})
    other = {}
    for idx, verdict_at in j["bad"]:
        r = recs[idx]
        verdict, _, at = verdict_at.partition("@")
        step = int(at) - 1 if at else None
        if verdict.startswith("harness:"):
            raise vf.ToolError("harness produced a malformed record %d: %s %s" % (idx, verdict_at, json.dumps(r)[:1500]))
        if verdict not in OWNER:
            raise vf.ToolError("verdict without owner: %s" % verdict)
        if prop in owners(r, verdict, step):
            ctx.violation(wc_signature(r, verdict, step), verdict, r, detail={"step": at})
        else:
            k = wc_signature(r, verdict, step)
            other[k] = other.get(k, 0) + 1
    ctx.cov["verdicts_owned_by_other_properties"] = other
    ctx.cov["rule"] = ("records = one script (TLC-generated behaviour or seeded random script) executed on a real "
                       "LocalWorkingCopy with the projected state judged after every action; non-trivial = "
                       + RULES[prop] + "; distinct by full record")
    k = 0
    for r in recs:
        if nt(r) and k < 3:
            ctx.sample({"xp": r["xp"], "steps": [dict((a, b) for a, b in s.items() if a != "tree") for s in r["steps"]]}, 3)
            k += 1
    ctx.assumptions += [
        "path universe {.gitignore, d, d/.gitignore, d/x, d/x/z, d/y, f} (any non-ignore path may also be an empty directory or a fifo); 2 file contents, exec bit, 2 symlink targets, 7 ignore files "
        "over single-component patterns, 3-term file conflicts; the projection functions of harness/jjconf/src/bin/wc/script.rs are correct",
        "conflict marker files on disk are decoded with jj's own parse_conflict (materialise/parse inverse is C05's subject)",
        "every jj action runs in a workspace reloaded from disk; user edits happen between jj commands, not during them",
        "harness built with debug assertions on: a debug_assert firing inside jj is observed as a panic",
    ]
    return j
