"""Helpers shared by the working-copy checks (C23-C27, C29).  Not a check itself."""
import json
import os
import shutil
import tempfile
from concurrent.futures import ThreadPoolExecutor

import vf


def scratch_dir():
    """Temp dir for the scratch workspaces the harness creates (TMPDIR of the harness
    processes).  tmpfs if available: the working-copy code fsyncs, which makes a
    disk-backed /tmp ~5x slower; semantics (symlinks, exec bits, ns mtimes) are the same."""
    base = "/dev/shm" if os.path.isdir("/dev/shm") and os.access("/dev/shm", os.W_OK) else None
    return tempfile.mkdtemp(prefix="vf-wc-", dir=base)


def write_ndjson(path, items):
    with open(path, "w") as f:
        for it in items:
            f.write(json.dumps(it) + "\n")


def harness_parallel(ctx, mode, items, out_path, extra_args=(), par=8, timeout=1500):
    """Run `wc <mode> --in chunk --out chunk.out` on `items` split over `par` processes
    (each case uses its own fresh workspace, so chunks are independent); concatenates the
    outputs in order into out_path.  Returns number of output lines."""
    vf.build("wc")
    tmp = scratch_dir()
    try:
        par = max(1, min(par, len(items)))
        size = (len(items) + par - 1) // par
        chunks = [items[i:i + size] for i in range(0, len(items), size)]
        paths = []
        for i, ch in enumerate(chunks):
            pin = ctx.path("%s-in-%d.ndjson" % (mode, i))
            write_ndjson(pin, ch)
            paths.append((pin, ctx.path("%s-out-%d.ndjson" % (mode, i))))

        def one(p):
            ctx.harness("wc", [mode, "--in", p[0], "--out", p[1]] + list(extra_args),
                        timeout=timeout, env={"TMPDIR": tmp})
            return p[1]

        with ThreadPoolExecutor(max_workers=par) as ex:
            outs = list(ex.map(one, paths))
        n = 0
        with open(out_path, "w") as w:
            for o in outs:
                with open(o) as f:
                    for line in f:
                        if line.strip():
                            w.write(line)
                            n += 1
        return n
    finally:
        shutil.rmtree(tmp, ignore_errors=True)


def harness_tmp(ctx, args, timeout=1500):
    """Run the wc harness once with TMPDIR on the scratch dir."""
    tmp = scratch_dir()
    try:
        return ctx.harness("wc", args, timeout=timeout, env={"TMPDIR": tmp})
    finally:
        shutil.rmtree(tmp, ignore_errors=True)
