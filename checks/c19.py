"""C19 Revset evaluation matches set semantics (spec/Revset, oracle spec/Dag)."""
import json
import random

import vf
from checks.c18 import scratch_env

META = dict(
    category='model_checking',
    engine='Revset',
    technique='TLA+ spec Revset: Eval by structural recursion over the expression AST (Dag operators); TLC checks the '
              'optimiser\'s algebraic laws on an exhaustive small domain, generates the cases, and judges the real engine',
    text='Eval(e, graph, visible heads) is defined in TLA+ for none/all/visible_heads/root/commits, ancestors and descendants '
         'with generation ranges and parent-index ranges (first-parent), range (with generation), dag range, connected, '
         'reachable, heads, roots, fork_point, merge_point, forks, latest(n), coalesce, negation, union, intersection, '
         'difference and within-visibility scopes, with all() = ancestors of the visible heads and of every commit the '
         'expression mentions. TLC enumerates every expression of depth <= 2 over 5 (8 thorough) leaf sets on 2 (3) DAG shapes '
         'with hidden commits and proves the laws jj\'s optimize() relies on (difference unfolding, generation folding, range '
         'and dag-range identities, ancestors-of-union, negated ancestors, everything inside all()). Every enumerated case '
         '(a seeded sample in quick) and seeded random expressions of depth <= 5 on random DAGs of <= 12 commits (hidden '
         'commits, padding commits that push positions across the 64-bit bit-set boundary, several index segments, reload '
         'from disk) are evaluated by the real engine, optimised and unoptimised; TLC judges: result = Eval as a set, no '
         'duplicates, every commit before its ancestors, optimised = unoptimised.',
    note='Index positions are not observable through the public API, so "descending index position" is judged as '
         '"children before ancestors". Filters (author, files, ...), bisect, exactly(), at_operation and symbol resolution are '
         'outside this property\'s model. Committer times are distinct so latest(n) is determined. Exhaustive at depth <= 2 '
         '(model_checking); the random part is exploration.',
    design='4 C19',
)
READY = True
LEVEL = META["category"]


def depth(e):
    subs = [v for v in e.values() if isinstance(v, dict)]
    return 1 + max([depth(s) for s in subs] or [0]) if subs else 0


def nontrivial(r):
    return r.get("op") == "revset" and len(r["opt"]) >= 2 and depth(r["e"]) >= 2


def gens_of(par):
    g = [0]
    for ps in par:
        g.append(1 + max(g[p] for p in ps))
    return g


def order_disagrees(par):
    """index position order (= id order) and generation order disagree somewhere"""
    g = gens_of(par)
    return any(g[c] > g[d] for c in range(1, len(g)) for d in range(c + 1, len(g)))


def bounded_multi_root(e):
    """a descendants/children node with a bounded generation range other than 1..2 over a
    multi-element (or compound) root set occurs in e"""
    if e.get("t") == "desc" and e["hi"] < 1000 and (e["lo"], e["hi"]) != (1, 2):
        x = e["x"]
        if x.get("t") != "commits" or len(x["ids"]) >= 2:
            return True
    return any(bounded_multi_root(v) for v in e.values() if isinstance(v, dict))


def in_focus_class(r):
    return r.get("op") == "revset" and bounded_multi_root(r["e"]) and order_disagrees(r["par"])


def run(ctx):
    rnd = random.Random(ctx.seed)
    cfg = ctx.q("MC_Revset", "MC_Revset_thorough")
    cases, r = vf.tlc_generate("MC_Revset", cfg, workers=ctx.q(8, 12), timeout=ctx.q(900, 3000), seed=ctx.seed)
    ctx.add_mc(r, cfg)
    vf.tlc_mc("MC_Revset", "MC_Revset_neg_gen", expect_violation="InvFoldGeneration", workers=4, timeout=600)
    ctx.cov["tlc_runs"].append({"run": "negative:gen_hi_inclusive", "outcome": "fails as required (InvFoldGeneration)"})
    # focus domain: generation-bounded walks from multi-element sets on shapes where index
    # position order and generation order disagree (always replayed completely)
    focus, rf = vf.tlc_generate("MC_Revset", "MC_Revset_focus", workers=ctx.q(8, 12), timeout=900, seed=ctx.seed)
    ctx.add_mc(rf, "MC_Revset_focus")
    n_enum = len(cases) + len(focus)
    k = ctx.q(4000, 20000)
    picked = (cases if len(cases) <= k else rnd.sample(cases, k)) + focus
    by = {}
    for c in picked:
        by.setdefault(c["shape"], []).append(c)
    grouped = [{"par": v[0]["par"], "vh": v[0]["vh"], "ts": v[0]["ts"], "exprs": [c["e"] for c in v]} for v in by.values()]
    cf = ctx.path("cases.json")
    with open(cf, "w") as f:
        json.dump(grouped, f)
    env = scratch_env()
    t1 = ctx.path("replay.ndjson")
    ctx.harness("index", ["revset-replay", "--in", cf, "--out", t1, "--seed", ctx.seed], env=env, timeout=1800)
    t2 = ctx.path("random.ndjson")
    ctx.harness("index", ["revset-random", "--out", t2, "--seed", ctx.seed, "--n", ctx.q(41, 121), "--exprs", ctx.q(40, 60),
                          "--maxn", 12, "--depth", 5], env=env, timeout=1800)
    sig = lambda rec, verdict: "%s:%s" % (verdict, rec.get("e", {}).get("t", "-"))
    j1 = vf.judge_records(ctx, "Trace_Revset", t1, sig_fn=sig, nontrivial_fn=nontrivial, chunk=ctx.q(1300, 3000))
    j2 = vf.judge_records(ctx, "Trace_Revset", t2, sig_fn=sig, nontrivial_fn=nontrivial, chunk=ctx.q(500, 2000))
    if j1["judged"] != len(picked):
        raise vf.ToolError("replayed %d cases, expected %d" % (j1["judged"], len(picked)))
    recs = j2["records"]
    forms = {}
    def walk(e):
        forms[e["t"]] = forms.get(e["t"], 0) + 1
        for v in e.values():
            if isinstance(v, dict):
                walk(v)
    for x in j1["records"] + recs:
        if x.get("op") == "revset":
            walk(x["e"])
    ctx.cov["enumerated_cases"] = n_enum
    ctx.cov["enumerated_cases_replayed"] = len(picked)
    ctx.cov["exhaustive"] = len(picked) == n_enum
    ctx.cov["random_cases"] = len(recs)
    ctx.cov["bounded_descendants_of_multi_root_sets_where_position_and_generation_order_disagree"] = {
        "enumerated": sum(1 for x in j1["records"] if in_focus_class(x)),
        "random": sum(1 for x in recs if in_focus_class(x)),
        "with_nonempty_result": sum(1 for x in j1["records"] + recs if in_focus_class(x) and len(x["opt"]) >= 1)}
    ctx.cov["forms_exercised"] = forms
    ctx.cov["rule"] = ("record = one expression evaluated by the real engine (optimised and unoptimised) on a real repo; "
                       "non-trivial = expression depth >= 2 and a result with >= 2 commits; distinct by full record")
    for x in recs:
        if nontrivial(x) and depth(x["e"]) >= 3:
            ctx.sample({k2: x[k2] for k2 in ("par", "vh", "e", "opt")}, 4)
    ctx.assumptions += ["all() = ancestors of the visible heads and of the commits mentioned in the expression (docs/revsets.md, hidden revisions)",
                        "committer timestamps are distinct; expressions are built as ResolvedRevsetExpression (no symbol resolution)",
                        "TLC evaluates spec/Revset.tla and spec/Dag.tla correctly"]
