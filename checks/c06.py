"""C06 An unedited conflicted file is snapshotted as the same conflict (spec/ConflictMarkers, library level)."""
import vf
from checks import textlib

META = dict(
    category='exploration',
    engine='ConflictMarkers',
    technique='TLA+ spec ConflictMarkers (format state machine + C06 contracts on MergeAlgebra): TLC model-checks the format + TLC-judged traces (I->S) of the real conflicts::update_from_content against a real store',
    text='Contracts: UneditedOK - reading back exactly the bytes that were materialised yields the identical conflict (same ids, same '
         'unsimplified arity, absent terms kept, also when the content merge resolves and no markers are written); EditAppliedOK - when the '
         'file still parses under the format (SpecParse) with exactly the conflict hunks it had and every conflict region (markers, headers, bodies) is byte-identical to what was written, i.e. only resolved text changed, the result '
         'has the original arity, every changed position carries the new text of the simplified term whose id it held (same parity), absent '
         'terms stay absent unless they received text, and the result denotes exactly the edited simplified conflict (MergeAlgebra '
         'SameDenote), so cancelled pairs stay cancelled.  Whether an edit is in scope is decided by the specification from the bytes, not '
         'by the harness.  TLC model-checks the format (see C05) including "editing resolved text keeps the parsed conflicts".  Binding: '
         'file conflicts of 2-4 sides with redundant pairs ([a,b,b,b,c], [x,x,...]), absent sides, marker look-alikes, CRLF, four styles, '
         'with and without labels are written to a real store (testutils::TestRepo), materialised with the store\'s merge options, left '
         'unedited or edited by one line (replace / insert / delete anywhere), and passed to update_from_content; TLC judges every record.',
    note='Library level only: the end-to-end variant through LocalWorkingCopy check-out + snapshot (executable-bit differences live there) '
         'belongs to the working-copy group.  Edits that touch a conflict region (bodies, marker or header lines, even ones the parser ignores) or break the markers are outside the property and are '
         'only checked for panics.  FileIds are projected to small integers by identity.',
    design='4 C06',
)
READY = True
LEVEL = META["category"]


def nontrivial(r):
    # unedited snapshot of a conflict that is stored unsimplified or has an absent side and was written with markers
    if r.get("op") != "snapshot":
        return False
    return r["new"] == r["mat"] and not r["mh"]["res"] and (len(r["ids"]) > len(r["simp"]) or 0 in r["ids"])


def run(ctx):
    # the format itself (shared with C05): writer o parser = id, and editing resolved text keeps the conflicts
    # MC_ConflictMarkers_edit: scope self-test (InvEditScope) - an edit of any marker/header line, incl. the
    # "\\\\\\\\ to:" continuation of the diff header, is out of scope; an edit of resolved text is in scope
    for cfg in ctx.q(("MC_ConflictMarkers", "MC_ConflictMarkers_edit"),
                     ("MC_ConflictMarkers", "MC_ConflictMarkers_edit", "MC_ConflictMarkers_crlf", "MC_ConflictMarkers_thorough5")):
        r = vf.tlc_mc("MC_ConflictMarkers", cfg, workers=ctx.q(8, 14), timeout=ctx.q(400, 3000))
        ctx.add_mc(r, cfg)
    textlib.negatives(ctx, "MC_ConflictMarkers", (("nostrip", "InvRoundTrip"), ("shortmarker", "InvRoundTrip")))
    trace = ctx.path("c06.ndjson")
    ctx.harness("text", ["snapshot", "--out", trace, "--seed", ctx.seed, "--n", ctx.q(1500, 12000)])
    j = textlib.judge(ctx, "Trace_ConflictMarkers", trace, chunk=ctx.q(190, 800), par=8, tags=("INSCOPE",),
                      ops={"snapshot", "panic"})
    recs = j["records"]
    sn = [r for r in recs if r.get("op") == "snapshot"]
    inscope = [recs[i] for i in j["tags"]["INSCOPE"]]
    import json
    ctx.cov["distinct_nontrivial"] = len({json.dumps(r, sort_keys=True) for r in sn if nontrivial(r)}) + \
        len({json.dumps(r, sort_keys=True) for r in inscope if r["out"] != r["ids"]})
    ctx.cov["unedited"] = sum(1 for r in sn if r["new"] == r["mat"])
    ctx.cov["unedited_with_markers"] = sum(1 for r in sn if r["new"] == r["mat"] and not r["mh"]["res"])
    ctx.cov["unedited_unsimplified"] = sum(1 for r in sn if r["new"] == r["mat"] and len(r["ids"]) > len(r["simp"]))
    ctx.cov["unedited_with_absent_side"] = sum(1 for r in sn if r["new"] == r["mat"] and 0 in r["ids"])
    ctx.cov["edited"] = sum(1 for r in sn if r["new"] != r["mat"])
    ctx.cov["edited_in_scope_judged"] = len(inscope)
    ctx.cov["edited_in_scope_unsimplified"] = sum(1 for r in inscope if len(r["ids"]) > len(r["simp"]))
    if not ctx.violations and len(inscope) < len(sn) // 20:
        raise vf.ToolError("too few edits landed in resolved text (%d of %d): the EditAppliedOK contract was hardly exercised" % (
            len(inscope), len(sn)))
    ctx.cov["rule"] = ("records = one real update_from_content call each on a seeded random conflict; non-trivial = an unedited snapshot "
                       "of a conflict with markers that is stored unsimplified or has an absent side, or an edit the specification "
                       "found confined to resolved text and that changed the ids; distinct by full record")
    for r in sn:
        if nontrivial(r) and len(r["mat"]) < 200:
            ctx.sample({"ids": r["ids"], "simplified": r["simp"], "style": r["style"], "materialised": "".join(map(chr, r["mat"])),
                        "out": r["out"]}, 2)
    for r in inscope:
        if r["out"] != r["ids"] and len(r["ids"]) > len(r["simp"]) and len(r["new"]) < 200:
            ctx.sample({"ids": r["ids"], "simplified": r["simp"], "edit": r["edit"], "read_back": "".join(map(chr, r["new"])),
                        "out": r["out"], "out_contents": ["".join(map(chr, c)) if c != [-1] else None for c in r["outc"]]}, 4)
    ctx.assumptions += ["SpecParse (spec/ConflictMarkers.tla) is the definition of the conflict-marker format",
                        "library level: update_from_content with the store's merge options; the working-copy path is covered elsewhere",
                        "TLC evaluates the specification correctly"]
