"""C07 Tree merges are the path-wise merge of their inputs (spec/Tree)."""
import json
import random
from concurrent.futures import ThreadPoolExecutor

import vf

META = dict(
    category='model_checking',
    engine='Tree',
    technique='TLA+ spec Tree (path-wise merge contract + transcription of TreeMerger/MergedTree::merge): '
              'TLC exhaustive on the model, TLC-generated merges replayed through the real MergedTree::merge, '
              'every real result judged by TLC against the same contract',
    text='TLC checks that the transcription of merge_no_resolve/merge_trees/resolve meets the path-wise contract '
         '(PathMerge per path modulo Norm, conflict-free iff no path conflicts, one side = base yields the other, '
         'resolve idempotent) for every 3-way merge over a 24-tree universe (paths f, d, d/x, d/y with d a file or a '
         'directory; files, executable variant, symlink, absent) and every 5-way merge over 8 trees, both same-change '
         'settings; TLC emits each explored merge and the harness runs the real MergedTree::merge on it (3-way and '
         'slot-file content merges exhaustively, 5/7-way and already-conflicted inputs sampled; thorough: 5-way '
         'exhaustively, larger universes, second backend); Trace_Tree (TLC) recomputes the expectation from the '
         'inputs and judges path_value at every path, has_conflict, conflicts(), stray paths and tree-id identity.',
    note='Two directory levels, 4 paths. Slot files (unique anchor lines, per-slot unique candidate lines) stand for '
         'content merges; their slot-wise rule is validated by the exhaustive run itself. Known finding (DESIGN 7): '
         'file terms at a path cancel leaving only tree/absent terms. Trusted: TLC, the value codec in '
         'harness/jjconf/src/bin/tree/common.rs.',
    design='4 C07',
)
READY = True
LEVEL = META["category"]

KNOWN_SHAPE = "FileTermsCancelLeavingTrees/"


def sig(r, verdict):
    if verdict.startswith(KNOWN_SHAPE):
        return "file-terms-cancel-leaving-trees"
    return verdict


def nontrivial(r):
    # a merge of >= 3 terms over >= 3 distinct input trees (cannot be answered by tree-id cancellation alone)
    if r.get("op") != "merge":
        return False
    ids = [i for t in r["in_ids"] for i in t]
    return len(ids) >= 3 and len(set(ids)) >= 3


def gen(ctx, cfg, workers=8, simulate=None, timeout=900, mc=True):
    cases, r = vf.tlc_generate("MC_Tree", cfg, timeout=timeout, simulate=simulate, workers=workers, seed=ctx.seed)
    if mc and not simulate:
        ctx.add_mc(r, cfg)
    else:
        ctx.cov["tlc_runs"].append({"run": cfg + (" -simulate " + simulate if simulate else ""),
                                    "outcome": "generated %d cases" % len(cases)})
    return cases


def run(ctx):
    import time
    t0 = time.time()

    def lap(what):
        vf.log("C07 %s at %.0fs" % (what, time.time() - t0))
    rnd = random.Random(ctx.seed)
    # 1. design level + generation: the same TLC runs check the invariants and emit the merges they explore
    groups = {}
    groups["3way"] = gen(ctx, ctx.q("MC_Tree", "MC_Tree_thorough"), timeout=ctx.q(400, 1500))
    groups["5way"] = gen(ctx, "MC_Tree_5way", timeout=ctx.q(400, 1500))
    groups["slots"] = gen(ctx, ctx.q("MC_Tree_slots", "MC_Tree_slots_thorough"))
    if ctx.thorough:
        groups["5way_y"] = gen(ctx, "MC_Tree_5way_y", timeout=1500)
    groups["sim"] = gen(ctx, "MC_Tree_sim", simulate="num=%d" % ctx.q(60, 300), timeout=1500)
    # 5-way merges with slot files AND directories at d: directory terms (and padded absent terms) cancel and
    # leave files that must be content-merged
    groups["sim_dfile"] = gen(ctx, "MC_Tree_sim2", simulate="num=%d" % ctx.q(150, 600), timeout=1500)
    lap("generated")
    # negative configs: the contract clauses can fail, and the known finding exists at design level
    negs = [("finding", "InvContract"), ("flag", "InvContract"), ("side", "InvContract"),
            ("subdir", "InvContract"), ("paths", "InvContract")]

    def neg(b):
        vf.tlc_mc("MC_Tree", "MC_Tree_neg_" + b[0], expect_violation=b[1], workers=2, timeout=600)
        return b[0]
    with ThreadPoolExecutor(max_workers=3) as ex:
        for b in ex.map(neg, negs):
            ctx.cov["tlc_runs"].append({"run": "negative:" + b, "outcome": "fails as required (InvContract)"})

    lap("negatives")
    # 2. what is bound to the real code
    bound = []
    exhaustive = []
    for name, cases in groups.items():
        full = name in ("3way", "slots") or (ctx.thorough and name == "5way")
        if full:
            exhaustive.append("%s=%d" % (name, len(cases)))
            bound += cases
        else:
            k = min(len(cases), ctx.q(2000, 6000))
            small = [c for c in cases if len(c["mm"]) < 5]
            big = [c for c in cases if len(c["mm"]) >= 5]
            bound += small + rnd.sample(big, min(len(big), k))
    casefile = ctx.path("c07-cases.ndjson")
    with open(casefile, "w") as f:
        for c in bound:
            f.write(json.dumps(c) + "\n")
    trace = ctx.path("c07.ndjson")
    ctx.harness("tree", ["merge", "--cases", casefile, "--out", trace, "--backend", "test",
                         "--keep-every", ctx.q(3, 2), "--random", ctx.q(1500, 8000), "--seed", ctx.seed], timeout=2400)
    traces = [trace]
    lap("harness")
    if ctx.thorough:
        # the Git backend has concurrency 1: the TreeMerger's unstarted-work queue is exercised
        sub = ctx.path("c07-cases-git.ndjson")
        with open(sub, "w") as f:
            for c in rnd.sample(bound, min(len(bound), 8000)):
                f.write(json.dumps(c) + "\n")
        t2 = ctx.path("c07-git.ndjson")
        ctx.harness("tree", ["merge", "--cases", sub, "--out", t2, "--backend", "git",
                             "--keep-every", 2, "--random", 2000, "--seed", ctx.seed + 1], timeout=2400)
        traces.append(t2)
    # 3. TLC judges every record
    n_known = 0
    for t in traces:
        j = vf.judge_records(ctx, "Trace_Tree", t, sig_fn=sig, nontrivial_fn=nontrivial)
        for r in j["records"]:
            if nontrivial(r) and len(ctx.cov["samples"]) < 3 and r.get("out") and len(r["out"]["cf"]) > 0:
                ctx.sample(r, 3)
        for idx, verdict in j["bad"]:
            if verdict.startswith(KNOWN_SHAPE):
                n_known += 1
                if n_known <= 2:
                    ctx.sample({"known_finding": verdict, "record": j["records"][idx]}, 6)
    lap("judged")
    ctx.cov["exhaustive"] = True
    ctx.cov["exhaustive_domain"] = ("bound exhaustively to the real code: " + ", ".join(exhaustive) +
                                    "; sampled: 5/7-way, already-conflicted inputs, seeded random merges over the full value alphabet")
    ctx.cov["rule"] = ("records = calls of the real MergedTree::merge (one per generated merge and same-change setting); "
                       "non-trivial = >= 3 terms over >= 3 distinct input trees; distinct by full record")
    ctx.assumptions += [
        "the path universe {f, d, d/x, d/y} (two directory levels) is representative of deeper trees: the merger treats every directory level alike",
        "slot files model content merges (slot-wise trivial merge); validated on every run by the exhaustive slots group",
        "A5: the value codec of the harness (common.rs) is correct",
    ]
