"""C41 Undo and restore return the repository to the earlier state (spec/UndoStack)."""
import json
import os
import random
import subprocess
import threading
import time
from concurrent.futures import ThreadPoolExecutor

import vf
from checks import cli_driver as cd

META = dict(
    category="model_checking",
    engine="UndoStack",
    technique="TLA+ spec UndoStack: TLC refinement check (op-log undo/redo algorithm vs editor-style stack) "
              "+ TLC-generated command words replayed through the real jj CLI, every session judged by TLC",
    text="TLC proves that the description-based algorithm of cmd_undo/cmd_redo (with op restore / op revert as "
         "ordinary operations) refines an editor-style undo stack of views for every command word over "
         "{op, undo, redo} up to 7 commands (9 thorough) and over {op, undo, redo, revert, restore k} up to 4 (5). "
         "TLC then generates the words (all words of length 4 quick / 6 thorough, random words of length 7 / 9, plus random words with "
         "restore/revert); the driver runs each through the real jj binary (clean and dirty working copies, "
         "snapshot operations counted as operations) and projects, after every command, the view of the head "
         "operation through jj-lib; Trace_UndoStack judges each session against the abstract stack: exact "
         "equality of heads, bookmarks, tags, remote refs and working-copy commits with the view the stack names.",
    note="Linear operation logs only (no concurrent operations, so no merge operations). Default immutable "
         "set, so the 'fresh commit on an immutable working-copy commit' exception never arises in the driver. "
         "op revert only of the latest operation. Trusted: TLC, the dump projection (harness/jjconf/src/bin/dump.rs), "
         "the 150-line replay driver.",
    design="4 C41",
)
READY = True
LEVEL = META["category"]

INIT_OPS = 3


def view_key(op):
    return json.dumps(op["view"], sort_keys=True)


def chain_of(d):
    """operations from root to head as a list (index 0 = root); the log must be linear"""
    if len(d["op_heads"]) != 1:
        raise vf.ToolError("C41 driver: %d operation heads" % len(d["op_heads"]))
    idx = cd.op_index(d)
    out, o = [], idx[d["op_heads"][0]]
    while True:
        out.append(o)
        if not o["parents"]:
            break
        if len(o["parents"]) != 1:
            raise vf.ToolError("C41 driver: merge operation in a sequential session")
        o = idx[o["parents"][0]]
    out.reverse()
    return out


def describe_ops(chain):
    """per operation (1-based index i): (view name, kind, tgt)"""
    first = {}
    pos = {o["id"]: i + 1 for i, o in enumerate(chain)}
    out = []
    for i, o in enumerate(chain):
        k = view_key(o)
        first.setdefault(k, i + 1)
        kind, tgt = "op", 0
        for pre, kd in (("undo: restore to operation ", "undo"), ("redo: restore to operation ", "redo")):
            if o["desc"].startswith(pre):
                kind, tgt = kd, pos.get(o["desc"][len(pre):], -1)
        out.append((first[k], kind, tgt))
    return out


class Node:
    __slots__ = ("sym", "k", "children", "exp")

    def __init__(self, sym, k):
        self.sym, self.k, self.children, self.exp = sym, k, {}, None


def build_trie(behaviours):
    root = Node("", 0)
    for b in behaviours:
        n = root
        for s in b:
            key = (s["a"], s["k"])
            if key not in n.children:
                n.children[key] = Node(s["a"], s["k"])
            n = n.children[key]
            n.exp = s
    return root


def clone_env(env):
    e = object.__new__(cd.Env)
    e.__dict__.update(env.__dict__)
    e.root = os.path.realpath(cd.tempfile.mkdtemp(prefix="vf-cli-"))
    os.rmdir(e.root)
    subprocess.run(["cp", "-a", env.root, e.root], check=True)
    e.config_dir = os.path.join(e.root, "config")
    e.log = list(env.log)
    return e


class Truncated(Exception):
    pass


class Replayer:
    def __init__(self, seed):
        self.seed = seed
        self.deadline = None    # optional batches stop starting new steps after this time
        self.sessions = []      # finished session records
        self.commands = 0
        self.variants = {}
        self.lock = threading.Lock()

    def new_env(self):
        env = cd.Env()
        env.jj_ok(env.root, "git", "init", "repo")
        env.jj_ok(env.path("repo"), "describe", "-m", "setup")
        return env

    def run_step(self, env, node, path, steps, pending, chain0):
        """execute trie node `node` (reached by word `path`) in env; returns (steps', pending')
        pending = a deferred dirty edit whose snapshot operation the next jj command creates"""
        w = env.path("repo")
        rng = random.Random("%s/%s" % (self.seed, path))
        n0 = len(chain0)
        has_wc = "default" in chain0[-1]["view"]["wc"]
        leaf = not node.children
        argv = None
        if node.sym == "op":
            if pending or not has_wc:
                variants = ["bookmark"] if not has_wc else ["describe", "new", "bookmark"]
            else:
                variants = ["describe", "new", "bookmark", "dirty-status", "dirty-status"]
                if not leaf and all(k[0] != "restore" for k in node.children):
                    variants += ["deferred", "deferred"]
            v = rng.choice(variants)
            with self.lock:
                self.variants[v] = self.variants.get(v, 0) + 1
            tag = path.replace(" ", "")
            if v == "describe":
                argv = ["describe", "-m", "m-" + tag]
            elif v == "new":
                argv = ["new", "-m", "n-" + tag]
            elif v == "bookmark":
                argv = ["bookmark", "create", "b-" + tag, "-r", "@" if has_wc else "root()"]
            elif v == "dirty-status":
                with open(os.path.join(w, "f"), "w") as f:
                    f.write("s-" + tag + "\n")
                argv = ["status"]
            else:
                with open(os.path.join(w, "f"), "w") as f:
                    f.write("d-" + tag + "\n")
                return steps, {"a": "op", "k": 0}, chain0
        elif node.sym == "undo":
            argv = ["undo"]
        elif node.sym == "redo":
            argv = ["redo"]
        elif node.sym == "revert":
            argv = ["op", "revert"]
        elif node.sym == "restore":
            if node.k > n0:
                # the real log is shorter than the model's: an earlier step diverged; the judge decides
                raise Truncated()
            argv = ["op", "restore", chain0[node.k - 1]["id"]]
        rc, out, err = env.jj(w, *argv)
        with self.lock:
            self.commands += 1
        if rc not in (0, 1):
            raise vf.ToolError("jj %s: rc=%d %s" % (argv, rc, err[-1500:]))
        d1 = env.dump(w)
        chain1 = chain_of(d1)
        if [o["id"] for o in chain1[:n0]] != [o["id"] for o in chain0]:
            raise vf.ToolError("C41 driver: operation log is not an extension of the previous one")
        desc = describe_ops(chain1)
        new = list(range(n0, len(chain1)))
        steps = list(steps)
        if pending:
            if not new or not chain1[new[0]]["snapshot"]:
                raise vf.ToolError("C41 driver: deferred edit did not produce a snapshot operation")
            i = new.pop(0)
            steps.append({"a": "op", "k": 0, "ok": True, "view": desc[i][0], "kind": desc[i][1], "tgt": desc[i][2], "nops": 1})
        ok = rc == 0
        if new:
            i = new[-1]
            steps.append({"a": node.sym, "k": node.k, "ok": ok, "view": desc[i][0], "kind": desc[i][1],
                          "tgt": desc[i][2], "nops": len(new)})
        else:
            steps.append({"a": node.sym, "k": node.k, "ok": ok, "view": desc[-1][0], "kind": "none", "tgt": 0, "nops": 0})
        return steps, None, chain1

    def visit(self, env, node, path, steps, pending, chain, depth_limit=None, tasks=None):
        """DFS below `node` (already executed in env).  env is consumed (closed)."""
        try:
            kids = list(node.children.items())
            if not kids:
                self.sessions.append({"op": "session", "init": INIT_OPS, "steps": steps, "word": path,
                                      "argv": [a for _, a, _ in env.log[2:]]})
                return
            for i, (key, child) in enumerate(kids):
                if self.deadline is not None and time.time() > self.deadline:
                    break       # time budget of an optional (random) batch used up: the subtree is not run
                e2 = clone_env(env) if i < len(kids) - 1 else env
                cpath = (path + " " + (child.sym if child.sym != "restore" else "restore%d" % child.k)).strip()
                try:
                    s2, p2, c2 = self.run_step(e2, child, cpath, steps, pending, chain)
                except Truncated:
                    self.sessions.append({"op": "session", "init": INIT_OPS, "steps": steps, "word": cpath + " (truncated)",
                                          "argv": [a for _, a, _ in e2.log[2:]]})
                    if e2 is not env:
                        e2.close()
                    continue
                except Exception:
                    e2.close()
                    raise
                if tasks is not None and depth_limit is not None and len(cpath.split()) >= depth_limit and child.children:
                    tasks.append((e2, child, cpath, s2, p2, c2))
                else:
                    self.visit(e2, child, cpath, s2, p2, c2, depth_limit, tasks)
                if e2 is env:
                    env = None
        finally:
            if env is not None:
                env.close()

    def replay(self, behaviours, par, budget_s=None):
        self.deadline = time.time() + budget_s if budget_s else None
        trie = build_trie(behaviours)
        env = self.new_env()
        tasks = []
        chain = chain_of(env.dump(env.path("repo")))
        if len(chain) != INIT_OPS:
            raise vf.ToolError("C41 driver: setup produced %d operations, expected %d" % (len(chain), INIT_OPS))
        self.visit(env, trie, "", [], None, chain, depth_limit=2, tasks=tasks)
        with ThreadPoolExecutor(max_workers=par) as ex:
            futs = [ex.submit(self.visit, *t) for t in tasks]
            errs = []
            for f in futs:
                try:
                    f.result()
                except Exception as e:  # noqa: BLE001
                    errs.append(e)
            if errs:
                raise errs[0]


def word_of(b):
    return " ".join(s["a"] if s["a"] != "restore" else "restore%d" % s["k"] for s in b)


def run(ctx):
    # 1. design level: the op-log algorithm refines the editor-style stack
    for mod_cfg in (ctx.q("MC_UndoStack", "MC_UndoStack_thorough"), ctx.q("MC_UndoStack_rr", "MC_UndoStack_rr_thorough")):
        r = vf.tlc_mc("MC_UndoStack", mod_cfg, workers=ctx.q(4, 8), timeout=ctx.q(300, 1500))
        ctx.add_mc(r, mod_cfg)
    bugs = ("undo_no_jump", "undo_no_collapse", "redo_no_jump", "redo_any")
    with ThreadPoolExecutor(max_workers=4) as ex:
        list(ex.map(lambda bug: vf.tlc_mc("MC_UndoStack", "MC_UndoStack_neg_" + bug, expect_violation="InvRefines", workers=1), bugs))
    for bug in bugs:
        ctx.cov["tlc_runs"].append({"run": "negative:" + bug, "outcome": "fails as required (InvRefines)"})
    # 2. S->I: TLC generates the command words (with the expected result of every step)
    L = ctx.q(4, 6)
    exh, r = vf.tlc_generate("MC_UndoStack", "MC_UndoStack_gen%d" % L, timeout=600)
    ctx.add_mc(r, "generator:exhaustive")
    want = 3 ** L
    if len(exh) != want:
        raise vf.ToolError("generator produced %d words, expected %d" % (len(exh), want))
    rnd, r = vf.tlc_generate("MC_UndoStack", ctx.q("MC_UndoStack_gen7", "MC_UndoStack_gen9"),
                             simulate="num=%d" % ctx.q(10, 200), seed=ctx.seed + 1, timeout=300)
    rr, r = vf.tlc_generate("MC_UndoStack", "MC_UndoStack_genrr", simulate="num=%d" % ctx.q(12, 200),
                            seed=ctx.seed + 2, timeout=300)
    # 3. replay through the real CLI, sharing prefixes (trie + repository copies); the exhaustive batch
    #    always runs completely, the random batches within a time budget
    vf.build("jjcli")
    vf.build("dump")
    rep = Replayer(ctx.seed)
    rep.replay(exh, par=ctx.q(8, 12))
    n_exh = len(rep.sessions)
    rep.replay(rr, par=ctx.q(8, 12), budget_s=ctx.q(25, 150))
    rep.replay(rnd, par=ctx.q(8, 12), budget_s=ctx.q(20, 150))
    trace = ctx.path("c41.ndjson")
    with open(trace, "w") as f:
        for s in rep.sessions:
            f.write(json.dumps({"op": s["op"], "init": s["init"], "steps": s["steps"]}) + "\n")
    j = vf.tlc_judge("Trace_UndoStack", trace, chunk=400)
    ctx.cov["states"] += j["states"]
    ctx.cov["transitions"] += j["transitions"]
    ctx.cov["traces_validated_against_impl"] += j["judged"]
    ctx.cov["evaluations"] += rep.commands
    ctx.cov["divergence_from_reference"] += len(j["diverges"])
    for idx, verdict in j["bad"]:
        s = rep.sessions[idx]
        if verdict.startswith("harness:"):
            raise vf.ToolError("C41 driver produced a malformed session: %s %s" % (verdict, s))
        ctx.violation(verdict, verdict, s)
    # measured coverage: distinct words whose replay contains at least one successful undo/redo/restore/revert
    nontrivial = set()
    kinds = {}
    for s in rep.sessions:
        acts = [(x["a"], x["ok"]) for x in s["steps"]]
        for a, ok in acts:
            kinds[(a, ok)] = kinds.get((a, ok), 0) + 1
        if any(a != "op" and ok for a, ok in acts):
            nontrivial.add(s["word"])
    ctx.cov["distinct_nontrivial"] = len(nontrivial)
    ctx.cov["rule"] = ("sessions = maximal command words generated by TLC from MC_UndoStack (all %d words of length %d over "
                       "{op,undo,redo}; random words with revert/restore), replayed through the real jj CLI with prefix sharing; "
                       "evaluations = jj commands executed; non-trivial = distinct words with at least one successful "
                       "undo/redo/restore/revert" % (want, L))
    ctx.cov["exhaustive"] = n_exh >= want
    ctx.cov["exhaustive_domain"] = "all command words of length %d over {op, undo, redo}" % L
    ctx.cov["step_kinds"] = {"%s/%s" % (a, "ok" if ok else "fails"): n for (a, ok), n in sorted(kinds.items())}
    ctx.cov["op_variants"] = rep.variants
    for s in rep.sessions[:2] + rep.sessions[-2:]:
        ctx.sample({"word": s["word"], "steps": s["steps"]})
    ctx.assumptions += ["A5: the projection (dump.rs: view of every operation) and the view naming (first operation with an identical view) are correct",
                        "operation logs are linear (sequential commands)",
                        "TLC evaluates spec/UndoStack.tla correctly"]
