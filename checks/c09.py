"""C09 Moving changes down a stack never alters the snapshots above it (spec/Stack)."""
import json
import os
import random
import time
from concurrent.futures import ThreadPoolExecutor

import vf
from checks import cli_driver as cd
from checks.c41 import clone_env

META = dict(
    category="model_checking",
    engine="Stack",
    technique="TLA+ spec Stack (on MergeAlgebra + Dag): TLC checks the stack laws on the transcribed "
              "squash/split/absorb + rebase_descendants for all small stacks; TLC-generated stacks and commands "
              "replayed through the real jj CLI, every run judged by TLC",
    text="Stack.tla transcribes rebase (path-wise merge(old, old parent, new parent) with flatten/simplify/trivial "
         "resolution from MergeAlgebra), the auto-merged parent tree, rebase_descendants, squash into the parent "
         "(whole commit and selected paths), split and absorb, and states the C09 contracts: the topmost resulting "
         "commit has the source's old tree (TopKeptOK), every descendant of the source keeps its tree "
         "(DescendantsKeptOK), and only ancestors of the source and what sits on them change (OnlyBelowOK), trees "
         "compared modulo the representation of conflicts. TLC checks them for every stack of the shapes linear-3 "
         "and diamond-merge-4 (thorough: linear-3/4/5, merge-4, merge-with-child-5) over 2 paths x {absent, 1-2 contents}, "
         "every command, every commit, every path selection; three negative configs must fail. TLC then generates "
         "random stacks (linear 3-5, diamond 4-5, 3 paths, working-copy commit on top) with all applicable commands; "
         "the driver builds each stack with the real jj, runs a seeded sample of the commands (jj squash -r, "
         "jj squash -r X paths, jj split -r X paths, jj absorb --from X) and projects the trees of all commits "
         "before/after through jj-lib; Trace_Stack judges each run with the same contracts.",
    note="Files are one-line regular files (atomic values), so content-level merges never resolve what the value-level "
         "merge does not; selections are paths, not hunks. Differences in raw tree ids with equal normal form are "
         "reported as divergence. Trusted: TLC, dump.rs (tree normal form), the replay driver.",
    design="4 C09",
)
READY = True
LEVEL = META["category"]


def rev(i):
    return "root()" if i == 0 else 'subject(exact:"c%d")' % i


def project(d, n):
    """per commit 1..n: (norm token, raw tree) of the visible commit described c<i>, or None"""
    head = cd.single_head(d)
    if head is None:
        raise vf.ToolError("C09 driver: several operation heads")
    vis = cd.visible_commits(d, head)
    by = {}
    for c in vis:
        desc = d["commits"][c]["desc"].strip()
        by.setdefault(desc, []).append(c)
    out = []
    for i in range(1, n + 1):
        cs = by.get("c%d" % i, [])
        if len(cs) > 1:
            raise vf.ToolError("C09 driver: %d visible commits described c%d" % (len(cs), i))
        out.append((d["commits"][cs[0]]["norm"], d["commits"][cs[0]]["tree"]) if cs else None)
    return out


LINE_SLOTS = ["a", "b"]      # in "lines" mode these model paths are the lines of one file `f`


def slot_values(beh):
    """per commit the value of each line slot, tracked from the changes (3-way for merges);
    None if a slot would be conflicted (then the stack is only realised with one file per path)"""
    vals = []
    for i, parents in enumerate(beh["par"], start=1):
        chg = beh["chgs"][i - 1] or {}
        cur = {}
        for q in LINE_SLOTS:
            pv = [vals[p - 1][q] if p else 1 for p in parents]
            if len(pv) == 1:
                v = pv[0]
            else:
                anc = [set(), set()]
                for k, p in enumerate(parents):
                    st = [p]
                    while st:
                        c = st.pop()
                        if c and c not in anc[k]:
                            anc[k].add(c)
                            st.extend(beh["par"][c - 1])
                common = anc[0] & anc[1]
                base = vals[max(common) - 1][q] if common else 1
                if pv[0] == base:
                    v = pv[1]
                elif pv[1] == base or pv[0] == pv[1]:
                    v = pv[0]
                elif q in chg:
                    v = None
                else:
                    return None
            cur[q] = chg.get(q, v)
        vals.append(cur)
    return vals


class Replayer:
    def __init__(self, seed, per_stack):
        self.seed, self.per_stack = seed, per_stack
        self.records = []
        self.commands = 0

    def build(self, beh, lines=None):
        """lines = slot_values(beh): model paths a, b become the lines of one file f (a file whose lines
        are attributed to different commits; all lines absent = the file is deleted)"""
        env = cd.Env()
        try:
            env.jj_ok(env.root, "git", "init", "repo")
            w = env.path("repo")
            for i, parents in enumerate(beh["par"], start=1):
                env.jj_ok(w, "new", "-m", "c%d" % i, *[rev(p) for p in parents])
                chg = beh["chgs"][i - 1] or {}
                if lines is not None and (len(parents) > 1 or any(q in chg for q in LINE_SLOTS)):
                    text = "".join("%s=v%d\n" % (q, lines[i - 1][q]) for q in LINE_SLOTS if lines[i - 1][q] != 1)
                    fp = os.path.join(w, "f")
                    if text:
                        with open(fp, "w") as f:
                            f.write(text)
                    elif os.path.exists(fp):
                        os.remove(fp)
                for q, v in chg.items():
                    if lines is not None and q in LINE_SLOTS:
                        continue
                    p = os.path.join(w, q)
                    if v == 1:
                        if os.path.exists(p):
                            os.remove(p)
                    else:
                        with open(p, "w") as f:
                            f.write("v%d\n" % v)
                self.commands += 1
            env.jj_ok(w, "status")
            return env
        except Exception:
            env.close()
            raise

    def run_stack(self, idx, beh, lines_mode=False, merge_sources_first=False):
        rng = random.Random("%s/%s/%s" % (self.seed, idx, lines_mode))
        n = len(beh["par"])
        lines = slot_values(beh) if lines_mode else None
        cmds = sorted(beh["cmds"].values(), key=lambda c: (c["k"], c["x"], c["sel"]))
        if lines is not None:
            # paths a and b are one file now: only commands without a path selection
            cmds = [c for c in cmds if c["k"] in ("squash", "absorb")]
        forced = [c for c in cmds if merge_sources_first and c["k"] in ("absorb", "squash")
                  and (len(beh["par"][c["x"] - 1]) > 1 or any(len(beh["par"][p - 1]) > 1 for p in beh["par"][c["x"] - 1] if p))]
        cmds = [c for c in cmds if c not in forced]
        # a sample that always contains each kind when available
        byk = {}
        for c in cmds:
            byk.setdefault(c["k"], []).append(c)
        chosen = []
        for k in sorted(byk):
            chosen.append(rng.choice(byk[k]))
        rest = [c for c in cmds if c not in chosen]
        rng.shuffle(rest)
        chosen += rest[:max(0, self.per_stack - len(chosen))]
        chosen = forced + chosen
        if not chosen:
            return
        env = self.build(beh, lines)
        try:
            w = env.path("repo")
            d0 = env.dump(w, paths=True)
            before = project(d0, n)
            if any(b is None for b in before):
                raise vf.ToolError("C09 driver: stack construction lost a commit: %s" % beh)
            for j, c in enumerate(chosen):
                e2 = clone_env(env) if j < len(chosen) - 1 else env
                try:
                    w2 = e2.path("repo")
                    x = rev(c["x"])
                    if c["k"] == "squash":
                        argv = ["squash", "-r", x, "-u"]
                    elif c["k"] == "squashp":
                        argv = ["squash", "-r", x, "-u"] + c["sel"]
                    elif c["k"] == "split":
                        argv = ["split", "-r", x, "-m", "c%da" % c["x"]] + c["sel"]
                    else:
                        argv = ["absorb", "--from", x]
                    rc, out, err = e2.jj(w2, *argv)
                    self.commands += 1
                    if rc not in (0, 1):
                        raise vf.ToolError("jj %s: rc=%d %s" % (argv, rc, err[-1000:]))
                    d1 = e2.dump(w2, paths=True)
                    after = project(d1, n)
                    gone = [i + 1 for i, a in enumerate(after) if a is None]
                    rawsame = all(a is None or a[0] != b[0] or a[1] == b[1] for a, b in zip(after, before))
                    self.records.append({
                        "op": "stack", "stack": idx, "lines": lines is not None, "par": beh["par"], "chgs": beh["chgs"], "k": c["k"], "x": c["x"],
                        "sel": c["sel"], "argv": argv, "rc": rc,
                        "before": [b[0] for b in before], "after": [a[0] if a else "" for a in after],
                        "gone": gone, "rawsame": rawsame, "changed_exp": c["changed"],
                        "err": err[-200:] if rc else ""})
                finally:
                    if e2 is not env:
                        e2.close()
        finally:
            env.close()


def run(ctx):
    # 1. design level: the laws hold on the transcription for every small stack
    cfg = ctx.q("MC_Stack", "MC_Stack_thorough")
    r = vf.tlc_mc("MC_Stack", cfg, workers=ctx.q(8, 12), timeout=ctx.q(600, 2400))
    ctx.add_mc(r, cfg)
    if ctx.thorough:
        r = vf.tlc_mc("MC_Stack", "MC_Stack_thorough_deep", workers=12, timeout=2400)
        ctx.add_mc(r, "MC_Stack_thorough_deep")
    negs = ["squash_drops", "split_second_rebased", "absorb_strips_source"]
    with ThreadPoolExecutor(max_workers=3) as ex:
        list(ex.map(lambda b: vf.tlc_mc("MC_Stack", "MC_Stack_neg_" + b, expect_violation="InvLaws", workers=2, timeout=900), negs))
    for b in negs:
        ctx.cov["tlc_runs"].append({"run": "negative:" + b, "outcome": "fails as required (InvLaws)"})
    # 2. S->I: TLC generates stacks with their applicable commands
    stacks, r = vf.tlc_generate("MC_Stack", "MC_Stack_gen", simulate="num=%d" % ctx.q(12, 150), seed=ctx.seed, timeout=600)
    ctx.add_mc(r, "generator")
    # distinct stacks; prefer the non-trivial ones (a merge or >= 4 commits first, then the rest)
    seen, uniq = set(), []
    for b in stacks:
        key = json.dumps([b["par"], b["chgs"]], sort_keys=True)
        if key not in seen:
            seen.add(key)
            uniq.append(b)
    rng = random.Random(ctx.seed)
    rng.shuffle(uniq)
    vf.build("jjcli")
    vf.build("dump")
    rep = Replayer(ctx.seed, per_stack=ctx.q(5, 8))
    # directed stacks: squash / absorb whose source is a merge commit (or its child), with descendants
    # and the working copy above, realised both with one file per path and with a file whose lines
    # are attributed to different ancestors
    directed, r = vf.tlc_generate("MC_Stack", "MC_Stack_directed", timeout=300)
    ctx.add_mc(r, "generator:directed")
    directed.sort(key=lambda b: json.dumps([b["par"], b["chgs"]], sort_keys=True))
    jobs = [(1000 + 2 * i + m, b, bool(m)) for i, b in enumerate(directed) for m in (0, 1)]
    with ThreadPoolExecutor(max_workers=ctx.q(8, 12)) as ex:
        list(ex.map(lambda j: rep.run_stack(j[0], j[1], lines_mode=j[2], merge_sources_first=True), jobs))
    t0 = time.time()
    budget, n_min = ctx.q(60, 330), ctx.q(8, 40)

    def one(ib):
        i, b = ib
        if i >= n_min and time.time() - t0 > budget:
            return False
        rep.run_stack(i, b, lines_mode=(i % 3 == 2))
        return True
    with ThreadPoolExecutor(max_workers=ctx.q(8, 12)) as ex:
        done = sum(1 for ok in ex.map(one, enumerate(uniq[:ctx.q(40, 1500)])) if ok)
    trace = ctx.path("c09.ndjson")
    with open(trace, "w") as f:
        for rec in rep.records:
            f.write(json.dumps({k: v for k, v in rec.items() if k not in ("chgs", "argv", "err", "stack", "lines")}) + "\n")
    j = vf.tlc_judge("Trace_Stack", trace, chunk=500)
    ctx.cov["states"] += j["states"]
    ctx.cov["transitions"] += j["transitions"]
    ctx.cov["traces_validated_against_impl"] += j["judged"]
    ctx.cov["evaluations"] += j["judged"]
    ctx.cov["divergence_from_reference"] += len(j["diverges"])
    for idx, verdict in j["bad"]:
        rec = rep.records[idx]
        if verdict.startswith("harness:"):
            raise vf.ToolError("C09 driver produced a malformed record: %s %s" % (verdict, rec))
        shape = "merge" if any(len(p) > 1 for p in rec["par"]) else "linear"
        ctx.violation("%s:%s:%s" % (verdict, rec["k"], shape), verdict, rec)
    ok = [r for r in rep.records if r["rc"] == 0]
    nontrivial = {json.dumps([r["par"], r["chgs"], r["k"], r["x"], r["sel"]], sort_keys=True) for r in ok
                  if any(a != b for a, b in zip(r["after"], r["before"])) or r["k"] == "split"}
    ctx.cov["distinct_nontrivial"] = len(nontrivial)
    ctx.cov["stacks_replayed"] = done
    ctx.cov["jj_commands"] = rep.commands
    kinds = {}
    for r in rep.records:
        k = "%s/%s/%s" % (r["k"], "merge" if any(len(p) > 1 for p in r["par"]) else "linear", "ok" if r["rc"] == 0 else "refused")
        kinds[k] = kinds.get(k, 0) + 1
    ctx.cov["command_kinds"] = kinds
    ctx.cov["records_line_files"] = sum(1 for r in rep.records if r["lines"])
    ctx.cov["records_merge_source"] = sum(1 for r in rep.records if len(r["par"][r["x"] - 1]) > 1 and r["rc"] == 0)
    ctx.cov["divergent_records"] = [rep.records[i]["argv"] for i in j["diverges"][:5]]
    ctx.cov["rule"] = ("records = commands run on TLC-generated stacks (random stacks from MC_Stack_gen, a seeded sample of "
                       "their applicable commands with every kind present); non-trivial = distinct (stack, command) pairs "
                       "where the command succeeded and changed some commit's tree or split a commit")
    for r in ok:
        if any(a != b for a, b in zip(r["after"], r["before"])):
            ctx.sample({k: r[k] for k in ("par", "chgs", "argv", "before", "after", "gone")}, 4)
    ctx.assumptions += ["one-line files: content merge = trivial merge of values (re-validated by C04 for slot files)",
                        "A5: dump.rs's tree normal form (conflicts simplified, sides sorted) is correct",
                        "TLC evaluates spec/Stack.tla, MergeAlgebra.tla, Dag.tla correctly"]
