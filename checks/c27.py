"""C27 Sparse patterns change the disk, never the commit (spec/WorkingCopy)."""
from checks import wcutil

META = dict(
    category='model_checking',
    engine='WorkingCopy',
    technique='TLA+ state machine WorkingCopy: TLC model checking of the transcribed set_sparse_patterns / sparse-aware snapshot against the C27 contract + TLC-generated behaviours replayed on a real LocalWorkingCopy + seeded random scripts, every step judged by TLC',
    text='SetSparse is transcribed as the two updates of the code (empty->tree on the entering paths, tree->empty on the leaving paths). Contract SparseOK: the tree is unchanged; tree paths that enter the patterns are materialised, tracked files that leave are removed, every other file is untouched, from a pristine state the disk is exactly the materialisation within the new patterns; and SnapshotOutsideSparse: a snapshot never changes a tree path outside the patterns. TLC checks this for 6 pattern sets (prefixes of the universe, incl. the empty set) interleaved with check-outs, edits and snapshots; seeded bugs (tree restricted to the patterns; leaving paths keep their file state so the next snapshot records deletions) fail.',
    note='Known finding: set_sparse_patterns panics (assert removed_stats.skipped_files == 0) when a leaving tracked path is obstructed on disk, after having already removed other files, with nothing saved. Bounded: 6-path universe, 6 pattern sets.',
    design='4 C27',
)
READY = True
LEVEL = META["category"]


def run(ctx):
    wcutil.run_wc(
        ctx, "C27",
        mc_cfgs=[ctx.q("c27", "c27_thorough")],
        neg_cfgs=[("neg_sparse_drop_tree", "Inv_C27"), ("neg_sparse_delete", "Inv_C27"), ("finding_sparse_panic", "Inv_C27"), ("finding_sparse_clash", "Inv_C27")],
        gen_cfgs=[("gen_c27", ctx.q(300, 1000))],
        n_random=ctx.q(300, 2000), focus="sparse")
