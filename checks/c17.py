"""C17 Commit backends return on read exactly what write reported (spec/Encoding)."""
import copy
from concurrent.futures import ThreadPoolExecutor

import vf
from checks import clifn_common as cc

META = dict(
    category='exploration',
    engine='Encoding',
    technique='TLA+ spec Encoding: TLC enumerates a structurally exhaustive family of commits, file/symlink contents and trees; '
              'the real Store with the Git and the Simple backend writes each member, a fresh store reads it, TLC judges the records',
    text='TLC enumerates every commit that differs from a sparse or a rich base commit in at most 2 (quick) / 3 (thorough) of 13 '
         'slots (parents root/1/2 in both orders; predecessors; root tree resolved, 3-term unlabelled, 3- and 5-term with labels incl. '
         'an empty label; change ids of 16, 1 and 32 bytes; descriptions and names/e-mails empty, ASCII, unicode, multi-line, the '
         'literal placeholder; author and committer timestamps 0, 1 ms, 999 ms, 1 000 ms, -1 ms, -1 500 ms, just below 2^31 s, 2^32 s; '
         'tz -720, 0, 330, 840), all file/symlink content classes and all 125 trees over three entry names x {absent, file, '
         'executable, symlink, subtree}. Every member is written through Store::write_commit (Git and Simple backend), read through '
         'the cache, written a second time, then read by Backend::read_commit of a freshly loaded repository. TLC judges: '
         'read = returned, cache = returned, rewrite gives the same id and value, Simple ids are the BLAKE2b content hash, and per '
         'backend over the whole family equal ids <=> equal returned values. The model also states the design law (what Git can '
         'store = what is returned). Exploration: pairwise / triple-wise structural sampling.',
    note='Domain: commits the backends accept from jj (non-empty change id, names without <, > or newline, existing trees, '
         'unsigned commits). Two findings are reported as known findings for the Git backend (author sub-second timestamp; the '
         'literal JJ_EMPTY_STRING name); any other difference is a violation. Trusted: TLC, harness projection code.',
    design='4 C17',
)
READY = True
LEVEL = META["category"]

NEG = [("git_author", "InvCommit"), ("simple_tz", "InvCommit")]


def nontrivial(r):
    w = r.get("written")
    if r.get("op") == "commit":
        return (len(w["root_tree"]) > 1 or len(w["parents"]) > 1 or w["author"]["ts"]["ms"] != 0 or w["author"]["ts"]["k"] != 0
                or w["committer"]["ts"]["ms"] != 0 or w["committer"]["ts"]["k"] != 0 or w["author"]["ts"]["tz"] != 0
                or w["committer"]["ts"]["tz"] != 0
                or any(w[s][f] != "ascii" for s in ("author", "committer") for f in ("name", "email")))
    if r.get("op") == "tree":
        return sum(1 for k in ("e_a", "e_b", "e_u") if w[k] != "none") >= 2
    if r.get("op") == "blob":
        return w["content"] not in ("ascii",)
    return False


def self_test(ctx, recs):
    """One corrupted field per record must be rejected: a lost tz offset, a dropped parent, a changed blob byte."""
    def first(pred):
        return copy.deepcopy(next(x for x in recs if pred(x)))
    a = first(lambda x: x["op"] == "commit" and x["returned"]["author"]["ts"]["tz"] != 0 and x["read"] == x["returned"])
    a["read"]["author"]["ts"]["tz"] = 0
    a["dup_of"] = 0
    b = first(lambda x: x["op"] == "commit" and len(x["returned"]["parents"]) == 2 and x["read"] == x["returned"] and x["id"] != a["id"])
    b["read"]["parents"] = b["read"]["parents"][:1]
    b["dup_of"] = 0
    # a sub-second COMMITTER time in the read value is not the known author shape
    c = first(lambda x: x["op"] == "commit" and x["read"] == x["returned"] and x["id"] not in (a["id"], b["id"]))
    c["read"]["committer"]["ts"]["ms"] = 5
    c["dup_of"] = 0
    d = first(lambda x: x["op"] == "blob" and len(x["wbytes"]) > 3)
    d["read"][2] = (d["read"][2] + 1) % 256
    d["dup_of"] = 0
    p = cc.write_ndjson(ctx.path("corrupt.ndjson"), [a, b, c, d])
    j = vf.tlc_judge("Trace_Encoding", p, chunk=10 ** 9)
    got = sorted(j["bad"])
    want = [(0, "CommitReadEqualsReturned"), (1, "CommitReadEqualsReturned"), (2, "CommitReadEqualsReturned"), (3, "BlobReadEqualsWritten")]
    if got != want:
        raise vf.ToolError("judge self-test: got %s want %s" % (got, want))
    ctx.cov["tlc_runs"].append({"run": "judge self-test (4 corrupted records: tz lost, parent dropped, committer ms, blob byte)",
                                "outcome": "all rejected as required"})


def run(ctx):
    cfg = ctx.q("MC_Encoding_c17", "MC_Encoding_c17_thorough")
    cases, r = vf.tlc_generate("MC_Encoding", cfg, workers=ctx.q(8, 12), timeout=ctx.q(600, 2400))
    ctx.add_mc(r, cfg)
    if len(cases) != r["distinct"]:
        raise vf.ToolError("generator printed %d members for %d states" % (len(cases), r["distinct"]))
    for bug, inv in NEG:
        vf.tlc_mc("MC_Encoding", "MC_Encoding_neg_" + bug, expect_violation=inv, workers=4, timeout=300)
        ctx.cov["tlc_runs"].append({"run": "negative:" + bug, "outcome": "fails as required (%s)" % inv})
    cases = cc.shuffled(cases, ctx.seed)
    inp = cc.write_ndjson(ctx.path("cases.ndjson"), cases)
    vf.build("encoding")

    def one(backend):
        trace = ctx.path("c17-%s.ndjson" % backend)
        ctx.harness("encoding", ["commits", "--backend", backend, "--in", inp, "--out", trace], env=cc.scratch_env(), timeout=3000)
        return trace

    with ThreadPoolExecutor(max_workers=2) as ex:
        traces = list(ex.map(one, ["git", "simple"]))
    all_recs = []
    for trace in traces:
        j = cc.judge(ctx, "Trace_Encoding", trace, nontrivial_fn=nontrivial, timeout=ctx.q(900, 3000))
        if len(j["records"]) != len(cases):
            raise vf.ToolError("harness wrote %d records for %d cases" % (len(j["records"]), len(cases)))
        all_recs += j["records"]
    if not ctx.violations:      # anti-vacuity of the judge; pointless (and short of clean records) once the run has failed
        self_test(ctx, all_recs)
    ctx.cov["commits_per_backend"] = sum(1 for x in cases if x["kind"] == "commit")
    ctx.cov["trees_per_backend"] = sum(1 for x in cases if x["kind"] == "tree")
    ctx.cov["blobs_per_backend"] = sum(1 for x in cases if x["kind"] == "blob")
    ctx.cov["rule"] = ("cases = every commit within %d slot changes of a sparse or a rich base commit, every file/symlink content class "
                       "and every tree over 3 names x 5 entry kinds (TLC state space of MC_Encoding), each through Store::write_commit / "
                       "write_file / write_symlink / write_tree of the Git and the Simple backend and read by a freshly loaded repository; "
                       "non-trivial = conflicted root tree, merge parents, sub-second / negative / > 2^31 s timestamp, non-zero tz, or a "
                       "non-ASCII / empty / placeholder name, a tree with >= 2 entries, non-ASCII content; distinct by abstract value per "
                       "backend" % ctx.q(2, 3))
    for x in all_recs:
        if nontrivial(x) and x["op"] == "commit":
            ctx.sample({"backend": x["backend"], "written": x["written"], "returned": x["returned"], "read": x["read"], "id": x["id"][:16]}, 3)
    ctx.assumptions += [
        "domain: non-empty change ids, names/e-mails without '<', '>' and newline, existing tree ids, unsigned commits",
        "the freshly loaded repository shares nothing in memory with the writing store (new Store, new backend instance)",
        "A5: the concretise/project code of the harness is correct (proj = written is re-checked per record)",
    ]
