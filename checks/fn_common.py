"""Helpers shared by the fn/ group checks (C30-C33, C35, C36)."""
import json

import vf


def generate(ctx, module, cfg, tags=("CASE",), workers=4, timeout=900, name=None):
    """Run an MC config that both model-checks its invariants and prints
    <<"TAG", ToJson(case)>> lines (S->I generator).  VERIF_SEED is exported so that the
    FnRand-based sampling configs are reproducible per seed.
    Returns {tag: [cases]}; the TLC run is added to the evidence."""
    r = vf.tlc(module, cfg, workers=workers, timeout=timeout, env={"VERIF_SEED": str(ctx.seed)})
    if r["error"] is not None:
        raise vf.ToolError("spec %s/%s does not satisfy its own properties: %s\n%s" % (
            module, cfg, r["invariant"] or r["error"], r["raw_tail"]))
    ctx.add_mc(r, name or cfg)
    out = {t: [] for t in tags}
    for k, a in r["prints"]:
        if k in out:
            out[k].append(json.loads(json.loads(a)))
    return out


def negative(ctx, module, cfg, inv, workers=2, timeout=600):
    """A negative config (seeded design bug) must violate one of the invariants `inv`
    (a name or a tuple of names: with several workers the first one found may vary)."""
    r = vf.tlc(module, cfg, workers=workers, timeout=timeout)
    allowed = (inv,) if isinstance(inv, str) else tuple(inv)
    if r["error"] is None:
        raise vf.ToolError("negative config %s/%s did NOT fail - the invariant is vacuous" % (module, cfg))
    if r["invariant"] not in allowed:
        raise vf.ToolError("negative config %s/%s failed with %s, expected one of %s" % (
            module, cfg, r["invariant"] or r["error"], allowed))
    ctx.cov["tlc_runs"].append({"run": "negative:" + cfg, "outcome": "fails as required (%s)" % r["invariant"]})


def write_ndjson(path, cases):
    with open(path, "w") as f:
        for c in cases:
            f.write(json.dumps(c) + "\n")
    return path


def dedup(cases):
    seen, out = set(), []
    for c in cases:
        k = json.dumps(c, sort_keys=True)
        if k not in seen:
            seen.add(k)
            out.append(c)
    return out


def account(ctx, j, nontrivial_fn=None, sig_fn=None):
    """Book a vf.tlc_judge result into the evidence and report BAD records (what
    vf.judge_records does, for callers that need a non-default judge cfg)."""
    recs = j["records"]
    ctx.cov["states"] += j["states"]
    ctx.cov["transitions"] += j["transitions"]
    ctx.cov["traces_validated_against_impl"] += j["judged"]
    ctx.cov["evaluations"] += j["judged"]
    ctx.cov["divergence_from_reference"] += len(j["diverges"])
    if nontrivial_fn:
        ctx.cov["distinct_nontrivial"] += len({json.dumps(r, sort_keys=True) for r in recs if nontrivial_fn(r)})
    for idx, verdict in j["bad"]:
        r = recs[idx]
        if verdict.startswith("harness:"):
            raise vf.ToolError("harness produced a malformed record %d: %s %s" % (idx, verdict, r))
        ctx.violation(sig_fn(r, verdict) if sig_fn else verdict, verdict, r)


def judge(ctx, module, trace, nontrivial_fn=None, sig_fn=None, chunk=4000, par=None, cfg=None, timeout=1800):
    """TLC judges the trace (parallel JVMs) and the result is booked into the evidence."""
    j = vf.tlc_judge(module, trace, chunk=chunk, par=par or (8 if ctx.thorough else 4), cfg=cfg, timeout=timeout)
    account(ctx, j, nontrivial_fn, sig_fn)
    return j
