"""Helpers shared by the cli-fn group's checks (C16, C17, C43, C44)."""
import json
import os
import random

import vf


def scratch_env():
    """Scratch repositories on tmpfs when there is one: the stores fsync every object,
    which dominates the run on a disk and is irrelevant to encoding properties."""
    d = "/dev/shm"
    if os.path.isdir(d) and os.access(d, os.W_OK):
        return {"TMPDIR": d}
    return {}


def write_ndjson(path, items):
    with open(path, "w") as f:
        for x in items:
            f.write(json.dumps(x) + "\n")
    return path


def read_ndjson(path):
    with open(path) as f:
        return [json.loads(x) for x in f if x.strip()]


def shuffled(items, seed):
    items = list(items)
    random.Random(seed).shuffle(items)
    return items


def sig_of(record, verdict):
    """Signature of a BAD verdict.  The trace specs name the shapes recorded in
    known-findings.txt themselves ("known:<signature>"); everything else keeps the
    contract name, so a different violation is still reported."""
    v = verdict[len("family:"):] if verdict.startswith("family:") else verdict
    if v.startswith("harness:"):
        raise vf.ToolError("harness produced a malformed record: %s %s" % (verdict, json.dumps(record)[:600]))
    if v.startswith("known:"):
        return v[len("known:"):]
    return v


def judge(ctx, module, trace, nontrivial_fn=None, cfg=None, timeout=1500, xmx="6g"):
    """One JVM judges the whole file (the family laws relate records to each other).
    Mirrors vf.judge_records, which splits into independent chunks."""
    recs = read_ndjson(trace)
    r = vf.tlc(module, cfg or module, workers=1, timeout=timeout, env={"TRACE": trace}, deque=True, xmx=xmx)
    judged = [int(a) for k, a in r["prints"] if k == "JUDGED"]
    if r["error"] is not None or judged != [len(recs)]:
        raise vf.ToolError("trace judge %s failed: %s judged=%s (want %d)\n%s" % (
            module, r["error"], judged, len(recs), r["raw_tail"]))
    bad, div = [], 0
    import re
    for k, a in r["prints"]:
        if k == "BAD":
            m = re.match(r'^(\d+), "(.*)"$', a)
            bad.append((int(m.group(1)) - 1, m.group(2)))
        elif k == "DIVERGES":
            div += 1
    ctx.cov["states"] += r["distinct"]
    ctx.cov["transitions"] += r["generated"]
    ctx.cov["traces_validated_against_impl"] += len(recs)
    ctx.cov["evaluations"] += len(recs)
    ctx.cov["divergence_from_reference"] += div
    ctx.cov["tlc_runs"].append({"run": "judge:%s:%s" % (cfg or module, os.path.basename(trace)), "records": len(recs),
                                "wall_s": round(r["wall"], 1), "outcome": "%d BAD" % len(bad)})
    if nontrivial_fn:
        seen = set()
        for x in recs:
            if nontrivial_fn(x):
                seen.add(json.dumps(x.get("written", x), sort_keys=True))
        ctx.cov["distinct_nontrivial"] += len(seen)
    for idx, verdict in bad:
        rec = recs[idx]
        ctx.violation(sig_of(rec, verdict), verdict, rec)
    return {"records": recs, "bad": bad, "diverges": div}


def expect_bad(module, trace_path, want, cfg=None):
    """Anti-vacuity: the judge must flag this (corrupted) trace with verdict `want`."""
    j = vf.tlc_judge(module, trace_path, chunk=10 ** 9, cfg=cfg)
    got = {v for _, v in j["bad"]}
    if want not in got:
        raise vf.ToolError("judge %s/%s did not flag a corrupted trace with %s (got %s)" % (module, cfg, want, sorted(got)))
    return got
