"""C04 File content merge obeys the merge identity laws (spec/FileMerge on Diff and MergeAlgebra)."""
import vf
from checks import textlib

META = dict(
    category='exploration',
    engine='FileMerge',
    technique='TLA+ spec FileMerge (EXTENDS MergeAlgebra, Diff): TLC proves the identity laws follow from the per-hunk cancellation contract on slot files + TLC-judged traces (I->S) of the real files::merge_hunks / merge / try_merge',
    text='Contract: the hunk partition the merge is made over is a valid diff (DiffOK, C03); the three results are the in-order collection of '
         'per-hunk outcomes each allowed by the cancellation rule of C02 (MustResolve / MustNotResolve / Pos of MergeAlgebra; the open zone of '
         'C02 accepts either answer; word level: a line hunk is replaced by its word merge iff every word hunk resolves); and the '
         'partition-independent laws: sides and bases that cancel to one side give exactly that content, agreeing sides against one base give '
         'that content under same-change=accept, the result is resolved or has the input\'s arity, merge() is merge_hunks() concatenated term '
         'by term, try_merge agrees.  TLC shows on all slot-file merges (2 slots x 3 values x 3 terms; 1 slot x 5 terms; thorough 2 slots x 5 '
         'terms = 59 787 states) that the laws hold for EVERY outcome the per-hunk contract allows and that the reference equals the slot-wise '
         'trivial merge; three seeded bugs (wrong term chosen, hunks out of order, arity lost) must fail.  The real code is run on all 729 3-way '
         'slot-file merges x {line,word} x {keep,accept}, sampled 5-/7-way slot files and seeded random line-structured, word-structured and '
         'binary contents with 1/3/5/7 terms; every call is judged by TLC.  Exhaustive core, sampled beyond: exploration.',
    note='The logged partition is recomputed by the recorder with the same public call jj makes (ContentDiff::by_line(removes ++ adds), by_word '
         'per changed hunk); ContentDiff is deterministic (C03).  The slot-file records also validate the assumption spec/Tree relies on '
         '(content merge of slot files = slot-wise trivial merge); a mismatch there is reported as assumption_broken, not as a C04 violation.',
    design='4 C04',
)
READY = True
LEVEL = META["category"]


def nontrivial(r):
    # a merge of >= 3 terms over a partition with at least one Different hunk (i.e. not all terms equal)
    return r.get("op") == "fmerge" and len(r["terms"]) >= 3 and any(h["k"] == 0 for h in r["lh"])


def run(ctx):
    for cfg in ctx.q(("MC_FileMerge", "MC_FileMerge_s1t5"), ("MC_FileMerge", "MC_FileMerge_thorough")):
        r = vf.tlc_mc("MC_FileMerge", cfg, workers=ctx.q(8, 12), timeout=ctx.q(300, 2400))
        ctx.add_mc(r, cfg)
    textlib.negatives(ctx, "MC_FileMerge", (("wrongterm", "InvLaws"), ("order", "InvLaws"), ("arity", "InvLaws")))
    trace = ctx.path("c04.ndjson")
    ctx.harness("text", ["fmerge", "--out", trace, "--seed", ctx.seed, "--random", ctx.q(3000, 40000),
                          "--slotsample", ctx.q(300, 3000)])
    j = textlib.judge(ctx, "Trace_FileMerge", trace, nontrivial_fn=nontrivial, chunk=ctx.q(800, 3000), par=8,
                      ops={"fmerge", "panic"})
    recs = j["records"]
    dom = [r for r in recs if r.get("op") == "domain"][0]
    if dom["count"] != 729 * 4:
        raise vf.ToolError("slot-file domain is not exhaustive: %s" % dom)
    ctx.cov["exhaustive"] = False
    ctx.cov["exhaustive_core"] = "all 729 3-way slot-file merges (2 slots x 3 values) x {line,word} x {keep,accept} = 2916 calls"
    fm = [r for r in recs if r.get("op") == "fmerge"]
    ctx.cov["conflict_results"] = sum(1 for r in fm if not r["mh"]["res"])
    ctx.cov["resolved_multi_hunk"] = sum(1 for r in fm if r["mh"]["res"] and sum(1 for h in r["lh"] if h["k"] == 0) >= 2)
    ctx.cov["word_level_calls"] = sum(1 for r in fm if r["level"] == "word")
    ctx.cov["five_or_more_terms"] = sum(1 for r in fm if len(r["terms"]) >= 5)
    ctx.cov["slot_assumption_checked"] = sum(1 for r in fm if "slots" in r)
    ctx.cov["slot_assumption_broken"] = len(j["assume"])
    if j["assume"]:
        vf.log("ASSUMPTION-BROKEN (spec/Tree slot-wise content merge) on %d slot-file records, first: %s" % (
            len(j["assume"]), str(recs[j["assume"][0][0]])[:400]))
    ctx.cov["rule"] = ("records = one real call of merge_hunks + merge + try_merge each, with the logged hunk partition; generated "
                       "exhaustively for 3-way slot files and randomly (seeded) otherwise; non-trivial = >= 3 terms and at least one "
                       "Different hunk; distinct by full record")
    for r in fm:
        if nontrivial(r) and "slots" not in r and not r["mh"]["res"] and len(r["terms"]) == 5 and len(r["mh"]["hunks"]) >= 3:
            ctx.sample({k: r[k] for k in ("terms", "level", "accept", "lh", "mh")}, 2)
    for r in fm:
        if nontrivial(r) and "slots" not in r and r["mh"]["res"] and r["level"] == "word" and any(len(w) >= 3 for w in r["wh"]):
            ctx.sample({k: r[k] for k in ("terms", "level", "accept", "lh", "wh", "mh")}, 4)
    ctx.assumptions += ["the logged partition equals the one merge_inner computed (ContentDiff is deterministic, C03)",
                        "values of hunks are byte strings compared exactly",
                        "TLC evaluates the contracts of spec/FileMerge.tla correctly"]
