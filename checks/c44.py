"""C44 Text truncation and wrapping respect the width (spec/TextWidth)."""
import copy

import vf
from checks import clifn_common as cc

META = dict(
    category='model_checking',
    engine='TextWidth',
    technique='TLA+ spec TextWidth: TLC exhaustive on the model (reference transcriptions of text_util.rs meet the contracts) and '
              'generator of every case; the real jj_cli::text_util functions replay every case and TLC judges every output',
    text='TLC enumerates every text over {ASCII, wide CJK, combining mark, zero-width} up to 4 (quick) / 5 (thorough) characters x '
         'every width 0..5 (0..7) x 5 ellipses (empty, 1 narrow, 2 narrow, 1 wide, zero-width+narrow+wide), every text with spaces up '
         'to 4 (6) characters for wrapping, and texts with control characters / ZWJ / VS16 sequences up to 2 (3) characters; it proves '
         'that the transcribed elide_start/end, write_truncated_start/end, write_padded_start/end/centered and first-fit wrap meet the '
         'contracts: output never wider than requested (a single over-wide word excepted for wrap), reported width = real width, made '
         'of whole characters of the ellipsis and the text in place (every output character is traced to its source position; a '
         'combining mark is never separated from its base), text that fits unchanged, padding exactly to the width and centred within '
         'one column, wrapped lines are whole words in order with nothing lost, write_wrapped emits the lines of wrap_bytes. The real '
         'functions are run on exactly these cases with a distinct concrete character per position (multi-byte narrow, CJK, U+0300.., '
         'U+200B/2060/200C/FEFF/200E/200F) and TLC judges each output. Exhaustive within the bounds.',
    note='Judged strictly on the character classes where jj\'s two width measures agree; the harness re-measures both widths of every '
         'concrete text through jj\'s own functions and TLC checks them against the model (including the model of the string-level '
         'width on control / ZWJ / VS16 texts). Two known findings (write_truncated_start strips leading zero-width characters of a '
         'text that fits; width-measure inconsistency on control / emoji-sequence texts) are matched by exact shape. Labels/colour '
         'formatters, newlines inside wrapped text and numeric limits are not covered.',
    design='4 C44',
)
READY = True
LEVEL = META["category"]

NEG = [("truncstart", "InvTruncate"), ("truncend", "InvTruncate"), ("pad", "InvPad"), ("wrap", "InvWrap")]


def nontrivial(r):
    if r.get("op") != "case":
        return False
    widths = {"a": 1, "s": 1, "t": 1, "W": 2, "e": 2}
    tw = sum(widths.get(c, 0) for c in r["t"])
    if r["kind"] == "wrap":
        return tw > r["w"] and "s" in r["t"]
    return tw > r["w"] or any(widths.get(c, 0) != 1 for c in r["t"])


def self_test(ctx, recs):
    """Corrupted outputs the judge must reject: one column too wide, a wide character split off, a text that fits changed,
    padding one short, a wrapped line that breaks inside a word."""
    def first(pred):
        return copy.deepcopy(next(x for x in recs if x["op"] == "case" and pred(x)))
    a = first(lambda x: x["kind"] == "shorten" and x["t"] == ["a", "W", "a", "a"] and x["e"] == ["a"] and x["w"] == 3)
    a["ee"] = [[["t", 1], ["t", 2], ["e", 1]], 4]          # exceeds the width by one
    b = first(lambda x: x["kind"] == "shorten" and x["t"] == ["a", "W", "a", "a"] and x["e"] == [] and x["w"] == 3)
    b["es"] = [[["?", -1]], 1]                            # invalid UTF-8: a character was split
    c = first(lambda x: x["kind"] == "shorten" and x["t"] == ["a", "m", "a"] and x["e"] == ["a"] and x["w"] == 5)
    c["te"] = [[["t", 1], ["t", 3]], 2]                   # fits, but the combining mark was dropped
    d = first(lambda x: x["kind"] == "shorten" and x["t"] == ["W"] and x["e"] == [] and x["w"] == 5)
    d["pc"] = [["f", 1], ["t", 1], ["f", 1]]             # padded to 4 instead of 5
    e = first(lambda x: x["kind"] == "wrap" and x["t"] == ["a", "a", "s", "a"] and x["w"] == 3)
    e["wrap"] = [[1, 1], [2, 4]]                          # breaks inside a word
    f = first(lambda x: x["kind"] == "shorten" and x["t"] == ["a", "m", "a", "a"] and x["e"] == [] and x["w"] == 2)
    f["es"] = [[["t", 2], ["t", 3], ["t", 4]], 2]         # kept part starts with the mark of a removed base
    p = cc.write_ndjson(ctx.path("corrupt.ndjson"), [a, b, c, d, e, f])
    j = vf.tlc_judge("Trace_TextWidth", p, chunk=10 ** 9)
    got = sorted(set(j["bad"]))
    want = sorted([(0, "ElideEndOK"), (1, "ElideStartOK"), (2, "TruncateEndOK"), (3, "PadCenterOK"), (4, "WrapOK"),
                   (4, "WriteWrappedSameLines"), (5, "ElideStartOK")])
    if got != want:
        raise vf.ToolError("judge self-test: got %s want %s" % (got, want))
    ctx.cov["tlc_runs"].append({"run": "judge self-test (6 corrupted outputs)", "outcome": "all rejected as required"})


def run(ctx):
    cfg = ctx.q("MC_TextWidth", "MC_TextWidth_thorough")
    cases, r = vf.tlc_generate("MC_TextWidth", cfg, workers=ctx.q(8, 12), timeout=ctx.q(900, 3000))
    ctx.add_mc(r, cfg)
    if len(cases) != r["distinct"]:
        raise vf.ToolError("generator printed %d cases for %d states" % (len(cases), r["distinct"]))
    for bug, inv in NEG:
        vf.tlc_mc("MC_TextWidth", "MC_TextWidth_neg_" + bug, expect_violation=inv, workers=4, timeout=300)
        ctx.cov["tlc_runs"].append({"run": "negative:" + bug, "outcome": "fails as required (%s)" % inv})
    cases = cc.shuffled(cases, ctx.seed)
    inp = cc.write_ndjson(ctx.path("cases.ndjson"), cases)
    trace = ctx.path("c44.ndjson")
    ctx.harness("jjcli", ["verif-textwidth", "--in", inp, "--out", trace], timeout=1200)
    j = vf.judge_records(ctx, "Trace_TextWidth", trace, nontrivial_fn=nontrivial, sig_fn=cc.sig_of, chunk=ctx.q(2500, 6000))
    recs = j["records"]
    if len(recs) != len(cases):
        raise vf.ToolError("harness wrote %d records for %d cases" % (len(recs), len(cases)))
    if not ctx.violations:      # anti-vacuity of the judge; pointless (and short of clean records) once the run has failed
        self_test(ctx, recs)
    ctx.cov["exhaustive"] = True
    ctx.cov["exhaustive_domain"] = ("all texts over {a, W, m, z} with <= %d chars x widths 0..%d x 5 ellipses; all texts over {a, W, m, space} "
                                    "with <= %d chars x the same widths (wrap); all texts over {a, W, control, emoji, ZWJ, symbol, VS16} with "
                                    "<= %d chars x 3 ellipses (known-finding classes)" % ctx.q((4, 5, 4, 2), (5, 7, 6, 3)))
    ctx.cov["cases_by_kind"] = {k: sum(1 for x in cases if x["kind"] == k) for k in ("shorten", "wrap", "differ")}
    ctx.cov["rule"] = ("cases = TLC's state space of MC_TextWidth (kind, text, ellipsis, width), each replayed through the real text_util "
                       "functions (4 shortening functions, 3 padding functions with the empty ellipsis, wrap_bytes + write_wrapped); "
                       "non-trivial = the text does not fit the width or contains a character that is not 1 column wide (wrap: does not "
                       "fit and has a space); distinct by full record")
    for x in recs:
        if nontrivial(x) and len(x["t"]) >= 3:
            ctx.sample(x, 4)
    ctx.assumptions += [
        "A5: the harness's character tables realise the classes (checked per record: per-character width sum and string-level width "
        "of every concrete text, measured through jj's own functions, equal the model's)",
        "PlainTextFormatter and unlabelled FormatRecorder content; labelled regions are not exercised",
        "texts without newlines; widths and lengths within the stated bounds",
    ]
