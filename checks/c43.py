"""C43 Per-repo configuration cannot be injected by a copied repository (spec/SecureConfig)."""
import copy
import json

import vf
from checks import clifn_common as cc

META = dict(
    category='model_checking',
    engine='SecureConfig',
    technique='TLA+ state machine SecureConfig: TLC exhaustive on the model + TLC-generated action sequences replayed on real '
              'directories with the real SecureConfig::load_config, every step judged by TLC against the same actions',
    text='The model has 3 repository directories (created, copied, moved, deleted, symlinked), a config-id file per repository '
         'that can be overwritten with anything (another repository\'s id, a well-formed id nobody generated, "../" x 6 of the '
         'right length, too short, non-hex, trailing newline), the user\'s per-repo config directory (id -> recorded repo path, '
         'config content) and load_config transcribed branch by branch (fresh, regenerated, own, moved, alias, copied, bad id). '
         'TLC checks exhaustively up to 6 (thorough 7) actions that every successful load returns a config of a well-formed existing '
         'id inside the root, an ill-formed id is an error, a loaded config belongs to the loading directory and never to another '
         'directory that still exists, and a copy gets a new id with the original\'s content. Random behaviours of the same machine '
         '(8 / 12 actions, at most 2 actions between loads) are replayed on real temp directories with a fresh SecureConfig per load; '
         'after every action the projection of all directories (config-id contents, config dirs, metadata paths, config contents, '
         'the returned path, anything created elsewhere) is compared by TLC with the model state.',
    note='Legacy config migration, the workspace variant, read-only copies (the sandbox runs as root) and Windows are not '
         'modelled. Generated ids are identified by order of first appearance. Trusted: TLC, the projection in '
         'harness/jjconf/src/bin/encoding/secure.rs.',
    design='4 C43',
)
READY = True
LEVEL = META["category"]

NEG = [("share", "InvNoSharing"), ("badid", "InvBadIdRejected"), ("content", "InvCopyKeepsContent")]
LOAD_CASES = ["fresh", "regenerated", "own", "moved", "alias", "copied", "bad-id"]


def load_case(prev, rec):
    """Classify a judged Load step by what the model's branch was (from the observed pre/post state); used for coverage only."""
    r = rec["r"]
    pre, post = prev["obs"], rec["obs"]
    d = pre["repos"][r]["link"] or r
    idf = pre["repos"][d]["idf"]
    if not rec["obs"]["res"]["ok"]:
        return "bad-id"
    if idf == "none":
        return "fresh"
    if not pre["cfg"].get(idf, {}).get("exists"):
        return "regenerated"
    if post["res"]["id"] != idf:
        return "copied"
    meta = pre["cfg"][idf]["meta"]
    if meta == r:
        return "own"
    if not pre["repos"].get(meta, {}).get("exists"):
        return "moved"
    return "alias"


def self_test(ctx, recs):
    """Corrupt one observation per behaviour: a load that returns the original's id for a copy, an accepted bad id,
    a directory created outside the root.  The judge must name each."""
    out = []
    want = []
    # find a behaviour with a "copied" load and pretend the copy shared the original's config
    by_b = {}
    for x in recs:
        by_b.setdefault(x.get("b"), []).append(x)

    def corrupt(pred, mutate, verdict):
        for b, steps in by_b.items():
            for k, x in enumerate(steps):
                if x["op"] == "step" and x["a"] == "Load" and k > 0 and steps[k - 1]["op"] == "step" and pred(steps[k - 1], x):
                    seq = copy.deepcopy(steps[:k + 1])
                    mutate(seq[k - 1], seq[k])
                    base = len(out)
                    out.extend(seq)
                    want.append((base + k, verdict))
                    return
        raise vf.ToolError("self-test: no behaviour with the needed load case (%s)" % verdict)

    def share(prev, x):
        d = prev["obs"]["repos"][x["r"]]["link"] or x["r"]
        x["obs"] = copy.deepcopy(prev["obs"])
        x["obs"]["res"] = {"ok": True, "id": prev["obs"]["repos"][d]["idf"]}
    corrupt(lambda p, x: load_case(p, x) == "copied", share, "CopyGetsOwnConfig")

    def accept(prev, x):
        x["obs"]["res"] = {"ok": True, "id": "BADPATH:/somewhere/else/config.toml"}
    corrupt(lambda p, x: load_case(p, x) == "bad-id", accept, "BadIdRejected")

    def escape(prev, x):
        x["obs"]["escaped"] = ["a/xx"]
    corrupt(lambda p, x: load_case(p, x) == "fresh", escape, "ConfigOutsideRoot")

    def stale(prev, x):
        idf = x["obs"]["res"]["id"]
        x["obs"]["cfg"][idf]["meta"] = prev["obs"]["cfg"][idf]["meta"]
    corrupt(lambda p, x: load_case(p, x) == "moved", stale, "LoadMatchesModel:moved")
    p = cc.write_ndjson(ctx.path("corrupt.ndjson"), out)
    j = vf.tlc_judge("Trace_SecureConfig", p, chunk=10 ** 9)
    got = sorted(j["bad"])
    if got != sorted(want):
        raise vf.ToolError("judge self-test: got %s want %s" % (got, sorted(want)))
    ctx.cov["tlc_runs"].append({"run": "judge self-test (4 corrupted observations)", "outcome": "all rejected as required: " +
                                ", ".join(v for _, v in want)})


def run(ctx):
    # 1. design level: exhaustive
    cfg = ctx.q("MC_SecureConfig", "MC_SecureConfig_thorough")
    r = vf.tlc_mc("MC_SecureConfig", cfg, workers=ctx.q(8, 12), timeout=ctx.q(900, 3000))
    ctx.add_mc(r, cfg)
    for bug, inv in NEG:
        vf.tlc_mc("MC_SecureConfig", "MC_SecureConfig_neg_" + bug, expect_violation=inv, workers=4, timeout=600)
        ctx.cov["tlc_runs"].append({"run": "negative:" + bug, "outcome": "fails as required (%s)" % inv})
    # 2. S->I: behaviours generated by TLC (random walks of the same machine), replayed on real directories
    gen = ctx.q("MC_SecureConfig_gen", "MC_SecureConfig_gen_thorough")
    behaviours, g = vf.tlc_generate("MC_SecureConfig", gen, simulate="num=%d" % ctx.q(120, 500), seed=ctx.seed + 1,
                                    timeout=ctx.q(600, 2400))
    uniq = {json.dumps(b, sort_keys=True): b for b in behaviours}
    behaviours = list(uniq.values())
    if not behaviours:
        raise vf.ToolError("generator produced no behaviour")
    ctx.cov["tlc_runs"].append({"run": gen + " (simulate)", "behaviours": len(behaviours), "wall_s": round(g["wall"], 1), "outcome": "ok"})
    inp = cc.write_ndjson(ctx.path("behaviours.ndjson"), [{"steps": b} for b in behaviours])
    trace = ctx.path("c43.ndjson")
    ctx.harness("encoding", ["secure", "--in", inp, "--out", trace, "--seed", ctx.seed], env=cc.scratch_env(), timeout=3000)
    recs = cc.read_ndjson(trace)
    chunk_b = ctx.q(400, 800)            # behaviours per JVM; a chunk must start at a reset record
    # split at behaviour boundaries, judge the chunks in parallel JVMs
    chunks, cur, nb = [], [], 0
    for x in recs:
        if x["op"] == "reset":
            if nb == chunk_b:
                chunks.append(cur)
                cur, nb = [], 0
            nb += 1
        cur.append(x)
    chunks.append(cur)
    from concurrent.futures import ThreadPoolExecutor

    def one(arg):
        k, ch = arg
        p = cc.write_ndjson(ctx.path("chunk%d.ndjson" % k), ch)
        return vf.tlc_judge("Trace_SecureConfig", p, chunk=10 ** 9, timeout=1500)

    with ThreadPoolExecutor(max_workers=4) as ex:
        judged = list(ex.map(one, enumerate(chunks)))
    steps = 0
    bad_behaviours = {}
    for ch, j in zip(chunks, judged):
        ctx.cov["states"] += j["states"]
        ctx.cov["transitions"] += j["transitions"]
        steps += sum(1 for x in ch if x["op"] == "step")
        for idx, verdict in sorted(j["bad"]):
            x = ch[idx]
            if x["b"] in bad_behaviours:
                continue                       # only the first mismatch of a behaviour counts: the model has diverged after it
            if verdict.startswith("harness:"):
                raise vf.ToolError("harness step diverged from the model: %s %s" % (verdict, json.dumps(x)[:800]))
            bad_behaviours[x["b"]] = (verdict, idx, ch)
    for b, (verdict, idx, ch) in bad_behaviours.items():
        seq = [y for y in ch if y.get("b") == b and y["op"] == "step"]
        case = {"behaviour": [{k: y[k] for k in ("a", "r", "d", "s")} for y in seq], "failing_step": ch[idx]}
        ctx.violation(verdict, verdict, case)
    ctx.cov["traces_validated_against_impl"] += len(behaviours)
    ctx.cov["evaluations"] += steps
    # coverage by load branch (measured on the judged observations)
    cases = {}
    nontrivial = set()
    prev = None
    for x in recs:
        if x["op"] == "step" and x["a"] == "Load" and prev is not None and prev["op"] == "step":
            c = load_case(prev, x)
            cases[c] = cases.get(c, 0) + 1
            if c in ("copied", "moved", "alias", "regenerated", "bad-id"):
                nontrivial.add(x["b"])
        prev = x
    ctx.cov["load_branches_exercised"] = cases
    missing = [c for c in LOAD_CASES if c not in cases]
    if missing:
        raise vf.ToolError("generated behaviours never reached load branch(es) %s" % missing)
    ctx.cov["distinct_nontrivial"] += len(nontrivial)
    if not ctx.violations:      # anti-vacuity of the judge; pointless (and short of clean records) once the run has failed
        self_test(ctx, recs)
    ctx.cov["rule"] = ("behaviours = distinct random walks of MC_SecureConfig (TLC -simulate, %d actions, <= 2 actions between loads); "
                       "evaluations = replayed actions, each compared with the model state; non-trivial = behaviours containing a load "
                       "through the copied / moved / alias / regenerated / bad-id branch; distinct by action sequence" % ctx.q(8, 12))
    for b in behaviours[:3]:
        ctx.sample([[s["a"], s["r"], s["d"], s["s"]] for s in b])
    ctx.assumptions += [
        "repository directories are only manipulated by whole-directory create/copy/move/delete/symlink and by writing config-id",
        "no legacy config.toml inside the repository; unix; the process may write to every directory (no read-only copies)",
        "A5: the projection of the real directories (harness) is correct; it also reports anything created outside the expected places",
    ]
