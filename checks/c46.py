"""C46 Evolution history is complete and acyclic (spec/Repo, evolution part)."""
from checks import repo_lib

META = dict(
    category='model_checking',
    engine='Repo',
    technique='TLA+ spec Repo (predecessor records per operation, transcription of walk_predecessors) + contract WalkOK: TLC on the model; TLC-judged real walk_predecessors calls over random operation histories (I->S); predecessor records compared in the S->I replay',
    text='Every operation carries predecessor records for the commits it created (PredsOK), and for any commit c and operation o the walk from c at o terminates, lists exactly the closure of the predecessor records over the operations reachable from o, each commit once, each commit after every commit rewritten from it (WalkOK). TLC checks the transcribed walk (newest operation first, per-operation replacement and topological emission) against WalkOK for every commit at every committed/reconciled operation of the bounded machine (rewrites, divergent rewrites, rebases, concurrent operations, restores). The driver runs the real walk_predecessors from visible and hidden commits after random histories with concurrent operations, reconciliations and op restores; TLC judges every output. The replay compares each real operation\'s predecessor records with the model\'s.',
    note='Legacy operations without predecessor records and accumulate_predecessors are not covered.',
    design='4 C46',
)
READY = True
LEVEL = META["category"]


def is_mine(r):
    return r.get("op") == "walk"


def nontrivial(r):
    return len(r["out"]) >= 2


def run(ctx):
    repo_lib.model_check(ctx,
                         [(ctx.q("MC_Repo_quick", "MC_Repo"), ctx.q(6, 10), ctx.q(900, 3000))],
                         [("MC_Repo_neg_nopred", True)])
    repo_lib.simulate(ctx, ctx.q(50, 600))
    repo_lib.record_and_judge(ctx, "C46", ctx.q(60, 600), ctx.q(7, 9), is_mine, nontrivial)
    repo_lib.replay(ctx, "C46", ctx.q(20, 300))
    ctx.cov["rule"] = ("evaluations = real walk_predecessors calls judged by TLC (I->S) + replayed model steps (S->I); "
                       "non-trivial = the walk lists at least one predecessor; distinct by (operation, start commit, output) within its case")
    ctx.assumptions += repo_lib.COMMON_ASSUMPTIONS
