"""C18 The commit index answers exactly as the commit graph (spec/IndexSegments, oracle spec/Dag)."""
import json
import os
import random

import vf

META = dict(
    category='model_checking',
    engine='IndexSegments',
    technique='TLA+ spec IndexSegments (oracle: Dag): TLC model-checks the segment-stack state machine and generates '
              'histories; the real DefaultIndexStore executes them and TLC judges every answer',
    text='TLC explores the state machine of jj\'s commit index (transactions append a mutable segment, saving squashes '
         'it into its ancestors, concurrent operations are merged by merge_in) for every DAG with <= 3 commits (4 thorough, '
         'octopus merges, shared change ids) x every split into <= 3 transactions / concurrent operations, and proves that '
         'the transcribed position/generation algorithms (is_ancestor_pos, heads_pos, common_ancestors_pos) agree with the '
         'Dag operators, that stacks stay geometric, that squashing and merging lose nothing. Every behaviour it prints is '
         'replayed through real transactions on an on-disk DefaultIndexStore; after every step (inside the transaction, '
         'committed, reloaded from disk by a fresh loader, after merge_operations / load_at_head) the full is_ancestor matrix, '
         'heads of all subsets, common ancestors, generation numbers, change-id lookups and has_id are logged and judged by TLC '
         'against Dag. Deep segment stacks and partial squashes come from linear 8-commit model histories, TLC -simulate '
         'histories with 6 commits and seeded random histories of 30-60 commits (one commit per transaction, concurrent '
         'branches). Exhaustive within the small bounds, sampled beyond.',
    note='Commit ids are compared modulo renaming (model integers). Generation numbers are read through '
         'DefaultReadonlyIndex::generation_number (public); inside an open transaction (DefaultMutableIndex) there is no '
         'accessor, see notes/index-hook.diff. Segment sizes are compared with the reference squash rule as divergence only. '
         'Trusted: TLC, the recorder harness/jjconf/src/bin/index/{world,hist}.rs. TestBackend (in-memory commit store) '
         'with the real on-disk index store.',
    design='4 C18',
)
READY = True
LEVEL = META["category"]


def scratch_env():
    """Repositories are created under $TMPDIR; a RAM-backed directory avoids fsync stalls."""
    d = "/dev/shm"
    if os.path.isdir(d) and os.access(d, os.W_OK):
        return {"TMPDIR": d}
    return {}


def nontrivial(r):
    if r.get("op") != "obs":
        return False
    merges = any(len(p) >= 2 for p in r["par"])
    return len(r["known"]) >= 4 and (merges or len(r["levels"]) >= 2 or r.get("a") in ("merge", "head"))


def dedup(behs):
    seen, out = set(), []
    for b in behs:
        k = json.dumps(b, sort_keys=True)
        if k not in seen:
            seen.add(k)
            out.append(b)
    return out


def run(ctx):
    rnd = random.Random(ctx.seed)
    # 1. design level, exhaustive; the same run prints every complete behaviour
    cfg = ctx.q("MC_IndexSegments", "MC_IndexSegments_thorough")
    behs, r = vf.tlc_generate("MC_IndexSegments", cfg, workers=ctx.q(8, 12), timeout=ctx.q(900, 3000), seed=ctx.seed)
    ctx.add_mc(r, cfg)
    behs = dedup(behs)
    n_exh = len(behs)
    chain, r2 = vf.tlc_generate("MC_IndexSegments", "MC_IndexSegments_chain", workers=4, timeout=900, seed=ctx.seed)
    ctx.add_mc(r2, "MC_IndexSegments_chain")
    chain = dedup(chain)
    sim, r3 = vf.tlc_generate("MC_IndexSegments", "MC_IndexSegments_sim", simulate="num=%d" % ctx.q(10, 40),
                              workers=ctx.q(1, 4), timeout=ctx.q(900, 2400), seed=ctx.seed)
    sim = dedup(sim)
    ctx.cov["tlc_runs"].append({"run": "MC_IndexSegments_sim (-simulate)", "generated": r3["generated"],
                                "behaviours": len(sim), "wall_s": round(r3["wall"], 1), "outcome": "ok"})
    # anti-vacuity: each seeded design bug must break its invariant
    vf.log("generated %d+%d+%d behaviours; TLC %.0fs %.0fs %.0fs" % (len(behs), len(chain), len(sim), r["wall"], r2["wall"], r3["wall"]))
    for bug, inv in (("squash_gen", "InvSquashKeeps"), ("merge_stop", "InvMergeComplete"), ("heads_cutoff", "InvQueries")):
        vf.tlc_mc("MC_IndexSegments", "MC_IndexSegments_neg_" + bug, expect_violation=inv, workers=4, timeout=900)
        ctx.cov["tlc_runs"].append({"run": "negative:" + bug, "outcome": "fails as required (%s)" % inv})
    vf.log("negative configs done")
    # 2. S->I: replay (a seeded sample of) the behaviours on the real index, I->S: TLC judges the answers
    k_exh, k_chain = ctx.q(300, 2500), ctx.q(80, 300)
    sample = (rnd.sample(behs, min(k_exh, len(behs))) + rnd.sample(chain, min(k_chain, len(chain))) + sim)
    bf = ctx.path("behaviours.json")
    with open(bf, "w") as f:
        json.dump(sample, f)
    env = scratch_env()
    t1 = ctx.path("hist.ndjson")
    ctx.harness("index", ["hist", "--in", bf, "--out", t1, "--seed", ctx.seed], env=env, timeout=3000)
    t2 = ctx.path("long.ndjson")
    ctx.harness("index", ["long", "--out", t2, "--seed", ctx.seed, "--n", ctx.q(4, 16), "--min", 30, "--max", 60,
                          "--every", ctx.q(7, 5)], env=env, timeout=3000)
    vf.log("harness done")
    sig = lambda rec, verdict: "%s:%s" % (verdict, rec.get("mode", "-"))
    j1 = vf.judge_records(ctx, "Trace_IndexSegments", t1, sig_fn=sig, nontrivial_fn=nontrivial, chunk=ctx.q(1200, 4000))
    j2 = vf.judge_records(ctx, "Trace_IndexSegments", t2, sig_fn=sig, nontrivial_fn=nontrivial, chunk=ctx.q(10, 40))
    recs = j1["records"]
    cases = {rec["case"] for rec in recs if "case" in rec}
    if len(cases) != len(sample):
        raise vf.ToolError("replayed %d behaviours, expected %d" % (len(cases), len(sample)))
    long_recs = [x for x in j2["records"] if x.get("op") == "obs"]
    ctx.cov["behaviours_generated"] = {"exhaustive": n_exh, "chain": len(chain), "simulate": len(sim)}
    ctx.cov["behaviours_replayed"] = len(sample)
    ctx.cov["exhaustive"] = len(behs) <= k_exh
    ctx.cov["long_histories"] = {"cases": len({x["case"] for x in long_recs}),
                                 "max_commits": max([len(x["par"]) for x in long_recs] or [0]),
                                 "max_segments": max([len(x["levels"]) for x in long_recs] or [0])}
    ctx.cov["modes"] = sorted({x.get("mode", "-") for x in recs + long_recs})
    ctx.cov["rule"] = ("behaviour = TLC-generated history (begin/new/addhead/hide/commit/merge); record = one observation of "
                       "the real index (mode mut/mem/reload/head) with all its query answers; non-trivial = >= 3 commits indexed "
                       "and (a merge commit, or >= 2 index segments, or an operation merge); distinct by full record")
    for x in recs:
        if nontrivial(x):
            ctx.sample({k: x[k] for k in ("case", "mode", "a", "par", "known", "levels", "exp_levels", "gen")}, 3)
    for b in sample[:2]:
        ctx.sample({"behaviour": b}, 5)
    ctx.assumptions += ["commit ids are compared modulo renaming; the TestBackend commit store is in memory, the index store is the real on-disk DefaultIndexStore",
                        "operation merges use RepoLoader::merge_operations in the model's order, plus a final load_at_head over the real op heads",
                        "TLC evaluates spec/Dag.tla and spec/IndexSegments.tla correctly"]
