"""C10 Visible heads are normalized and cover everything referenced (spec/Repo)."""
from checks import repo_lib

META = dict(
    category='model_checking',
    engine='Repo',
    technique='TLA+ spec Repo (state machine of MutableRepo/Transaction): TLC checks ViewOK on every committed view of the model; TLC-judged log of random real transactions (I->S) and TLC-generated behaviours replayed through the real API (S->I)',
    text='Invariant ViewOK on every committed view: heads are an antichain, the root is a head only alone, every add-term of every local bookmark and every working-copy commit is visible. TLC checks it over all behaviours of the transcribed state machine (add_head/normalize_heads, set_local_bookmark_target, edit/check_out, rebase_descendants, merge_view) within 6-7 commits, 2 bookmarks, 2 workspaces, transactions from any operation (concurrency) and their reconciliation, and on random deeper behaviours (10 commits, 5 operations). Binding both ways: a seeded driver performs random real transactions (new/rewrite/abandon/divergent, bookmarks incl. conflicted, new commits and merge commits on top of HIDDEN (abandoned / rewritten-away) commits alone in a fresh transaction (scripted in every run and random), edit/check_out/remove workspace, rebase with every empty policy, concurrent pairs/triples/criss-cross reconciled by load_at_head or merge_operations, op restore) and TLC evaluates ViewOK on every committed view against the observed commit graph; TLC-generated behaviours are replayed through MutableRepo/Transaction comparing visible set, bookmarks, working copies after every action and heads after every commit.',
    note='Remote bookmarks, tags and git refs are not modelled. Commits are identified by model-assigned change ids/descriptions, never by hash.',
    design='4 C10',
)
READY = True
LEVEL = META["category"]


def is_mine(r):
    return r.get("op") in ("commit", "merge")


def nontrivial(r):
    v = r["view"]
    return len(v["heads"]) >= 2 or any(t != [0] for t in v["bm"]) and any(w != 0 for w in v["wc"])


def run(ctx):
    repo_lib.model_check(ctx,
                         [(ctx.q("MC_Repo_quick", "MC_Repo"), ctx.q(6, 10), ctx.q(900, 3000))],
                         [("MC_Repo_neg_nonormalize", "InvC10")])
    repo_lib.simulate(ctx, ctx.q(50, 600))
    repo_lib.record_and_judge(ctx, "C10", ctx.q(50, 600), ctx.q(6, 8), is_mine, nontrivial)
    repo_lib.replay(ctx, "C10", ctx.q(20, 300))
    ctx.cov["rule"] = ("evaluations = committed views of the real repository judged by TLC (I->S) + replayed model steps (S->I); "
                       "non-trivial = committed view with >= 2 heads, or with a bookmark and a working copy set; distinct by the "
                       "full event (new graph edges + view)")
    ctx.assumptions += repo_lib.COMMON_ASSUMPTIONS
