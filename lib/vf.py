"""Shared machinery for /verif/bin/check.

A check is a python module checks/<id>.py with `run(ctx)`.  It uses the helpers
here to (1) build the harness from /repo's working tree, (2) model-check the
TLA+ spec with TLC, (3) bind the spec to the code (TLC-generated behaviours
replayed into the implementation and/or recorded implementation traces judged
by TLC), and reports violations through ctx.violation().  Ctx.finish() writes
the evidence file, prints KNOWN-FINDING / VIOLATION lines, picks the exit code.

Exit codes: 0 held on everything explored; 1 violation (with a VIOLATION line);
2 tool trouble (build failure, TLC crash, timeout) - never reported as a violation.
"""
import hashlib
import json
import os
import re
import shutil
import subprocess
import sys
import tempfile
import time
from concurrent.futures import ThreadPoolExecutor

VERIF = os.path.dirname(os.path.dirname(os.path.abspath(__file__)))
SPEC = os.path.join(VERIF, "spec")
HARNESS = os.environ.get("VERIF_HARNESS") or os.path.join(VERIF, "harness")
# mutation-testing runs (VERIF_HARNESS pointing at a scratch copy of jj) must not overwrite the
# evidence of the real tree: they set VERIF_OUT_DIR
EVIDENCE = os.path.join(os.environ.get("VERIF_OUT_DIR") or VERIF, "evidence")
REPLAY = os.path.join(os.environ.get("VERIF_OUT_DIR") or VERIF, "replay")
KNOWN = os.path.join(VERIF, "known-findings.txt")
TLA_CP = "/opt/veriftools/tla/tla2tools.jar:/opt/veriftools/tla/CommunityModules-deps.jar"
NCPU = os.cpu_count() or 4


class ToolError(Exception):
    pass


def log(*a):
    print("[check]", *a, file=sys.stderr, flush=True)


def sh(cmd, timeout=None, cwd=None, env=None, check=True, stdin=None):
    """Run a command, return (rc, stdout, stderr)."""
    e = dict(os.environ)
    if env:
        e.update(env)
    try:
        p = subprocess.run(cmd, cwd=cwd, env=e, timeout=timeout, input=stdin,
                           stdout=subprocess.PIPE, stderr=subprocess.PIPE, text=True)
    except subprocess.TimeoutExpired:
        raise ToolError("timeout after %ss: %s" % (timeout, " ".join(map(str, cmd))[:200]))
    if check and p.returncode != 0:
        raise ToolError("command failed rc=%d: %s\n%s\n%s" % (
            p.returncode, " ".join(map(str, cmd))[:300], p.stdout[-2000:], p.stderr[-4000:]))
    return p.returncode, p.stdout, p.stderr


# --------------------------------------------------------------------------
# building the harness from /repo's current working tree

_built = {}


def build(bin, pkg=None):
    """cargo build one harness binary against /repo's working tree (hooks on).
    bin 'jjcli' lives in package jjcli, every other binary in package jjconf (src/bin/<bin>.rs)."""
    if bin in _built:
        return _built[bin]
    pkg = pkg or ("jjcli" if bin == "jjcli" else "jjconf")
    t0 = time.time()
    lock = os.path.join(HARNESS, "Cargo.lock")
    if not os.path.exists(lock):
        shutil.copy("/repo/Cargo.lock", lock)
    env = {"CARGO_NET_OFFLINE": "true"}
    rc, out, err = sh(["cargo", "build", "--offline", "-p", pkg, "--bin", bin], cwd=HARNESS, env=env,
                      timeout=3000, check=False)
    if rc != 0:
        raise ToolError("harness build failed:\n" + err[-6000:])
    path = os.path.join(HARNESS, "target", "debug", bin)
    _built[bin] = path
    log("built %s in %.1fs" % (bin, time.time() - t0))
    return path


# --------------------------------------------------------------------------
# TLC

def _java(xmx="4g", deque=False, xss="512m"):
    cmd = ["java", "-XX:+UseParallelGC", "-Xmx" + xmx, "-Xss" + xss]
    if deque:
        cmd.append("-Dtlc2.tool.queue.IStateQueue=StateDeque")
    cmd += ["-cp", TLA_CP, "tlc2.TLC"]
    return cmd


_PRINT_RE = re.compile(r'^<<"([A-Z_]+)"(?:, (.*))?>>$')


def parse_tlc(out):
    """Extract what we need from TLC's stdout."""
    r = {"generated": 0, "distinct": 0, "depth": 0, "error": None, "invariant": None,
         "prints": [], "raw_tail": out[-3000:]}
    for line in out.splitlines():
        m = re.match(r"^(\d+) states generated, (\d+) distinct states found", line)
        if m:
            r["generated"], r["distinct"] = int(m.group(1)), int(m.group(2))
        m = re.match(r"^The depth of the complete state graph search is (\d+)", line)
        if m:
            r["depth"] = int(m.group(1))
        m = re.match(r"^Error: Invariant (\S+) is violated", line)
        if m:
            r["invariant"] = m.group(1)
            r["error"] = "invariant"
        if line.startswith("Error:") and r["error"] is None:
            r["error"] = line
        m = _PRINT_RE.match(line.strip())
        if m:
            r["prints"].append((m.group(1), m.group(2) or ""))
    r["completed"] = "Model checking completed. No error has been found." in out
    return r


def tlc(module, cfg=None, workers=None, timeout=600, env=None, simulate=None, deque=False,
        xmx="6g", extra=None, coverage=False):
    """Run TLC on spec/<module>.tla.  Returns parse_tlc() dict (+ 'wall')."""
    meta = tempfile.mkdtemp(prefix="vf-tlc-")
    cmd = _java(xmx=xmx, deque=deque)
    cmd += ["-workers", str(workers or min(8, NCPU)), "-metadir", meta, "-cleanup", "-noGenerateSpecTE"]
    if coverage:
        cmd += ["-coverage", "1"]
    if simulate:
        cmd += ["-simulate", simulate]
    if extra:
        cmd += extra
    cmd += ["-config", (cfg or module) + ("" if (cfg or module).endswith(".cfg") else ".cfg"), module + ".tla"]
    t0 = time.time()
    try:
        rc, out, err = sh(cmd, cwd=SPEC, env=env, timeout=timeout, check=False)
    finally:
        shutil.rmtree(meta, ignore_errors=True)
    r = parse_tlc(out)
    r["rc"] = rc
    r["wall"] = time.time() - t0
    r["stderr_tail"] = err[-2000:]
    # TLC rc: 0 ok, 12 invariant violated, 13 deadlock, others = errors
    if rc not in (0, 10, 11, 12, 13) or (rc == 0 and not r["completed"] and not simulate):
        raise ToolError("TLC failed on %s/%s rc=%d:\n%s\n%s" % (module, cfg, rc, out[-3000:], err[-1500:]))
    return r


def tlc_mc(module, cfg=None, expect_violation=None, **kw):
    """Model-check; with expect_violation=<invariant name or True> the run must fail
    (negative config, anti-vacuity)."""
    r = tlc(module, cfg, **kw)
    if expect_violation:
        if r["error"] is None:
            raise ToolError("negative config %s/%s did NOT fail - the invariant is vacuous" % (module, cfg))
        if isinstance(expect_violation, str) and r["invariant"] != expect_violation:
            raise ToolError("negative config %s/%s failed with %s, expected %s" % (
                module, cfg, r["invariant"] or r["error"], expect_violation))
    elif r["error"] is not None:
        raise ToolError("spec %s/%s does not satisfy its own properties: %s\n%s" % (
            module, cfg, r["invariant"] or r["error"], r["raw_tail"]))
    return r


def tlc_judge(module, trace_path, chunk=4000, timeout=900, cfg=None, par=None, case_start=None):
    """Have TLC judge an ndjson trace with spec/<module>.tla (an I->S trace spec whose
    Next prints <<"BAD", index, verdict>> / <<"DIVERGES", index>> and finally
    <<"JUDGED", n>>).  The file is split into chunks judged by parallel JVMs.
    case_start: optional predicate on a raw line; when given, chunks are only cut
    immediately before a line for which it is true (stateful traces: cut at "reset").
    Returns dict(judged, bad=[(index, verdict)], diverges=[index], states, transitions)."""
    with open(trace_path) as f:
        lines = [x for x in f if x.strip()]
    if not lines:
        raise ToolError("empty trace " + trace_path)
    tmpd = tempfile.mkdtemp(prefix="vf-judge-")
    chunks = []
    cuts = [0]
    if case_start is None:
        cuts = list(range(0, len(lines), chunk))
    else:
        for i, x in enumerate(lines):
            if i - cuts[-1] >= chunk and case_start(x):
                cuts.append(i)
    cuts.append(len(lines))
    for k in range(len(cuts) - 1):
        a, b = cuts[k], cuts[k + 1]
        if a == b:
            continue
        p = os.path.join(tmpd, "chunk%d.ndjson" % k)
        with open(p, "w") as f:
            f.writelines(lines[a:b])
        chunks.append((a, p, b - a))

    def one(c):
        off, p, n = c
        r = tlc(module, cfg or module, workers=1, timeout=timeout, env={"TRACE": p}, deque=True, xmx="2g")
        judged = [int(a) for k, a in r["prints"] if k == "JUDGED"]
        if r["error"] is not None or judged != [n]:
            raise ToolError("trace judge %s failed on chunk at %d: %s judged=%s\n%s" % (
                module, off, r["error"], judged, r["raw_tail"]))
        bad, div = [], []
        for k, a in r["prints"]:
            if k == "BAD":
                m = re.match(r'^(\d+), "(.*)"$', a)
                bad.append((off + int(m.group(1)) - 1, m.group(2)))
            elif k == "DIVERGES":
                div.append(off + int(a) - 1)
        return n, bad, div, r["distinct"], r["generated"]

    try:
        with ThreadPoolExecutor(max_workers=par or 4) as ex:
            res = list(ex.map(one, chunks))
    finally:
        shutil.rmtree(tmpd, ignore_errors=True)
    out = {"judged": sum(r[0] for r in res), "bad": [], "diverges": [], "states": 0, "transitions": 0}
    for n, bad, div, st, tr in res:
        out["bad"] += bad
        out["diverges"] += div
        out["states"] += st
        out["transitions"] += tr
    out["records"] = [json.loads(x) for x in lines]  # 0-based; bad indexes are 0-based too
    return out


def tlc_generate(module, cfg, timeout=600, simulate=None, workers=None, seed=None, tag="REPLAY"):
    """Run an MC config whose invariant/constraint prints <<"REPLAY", ToJson(...)>> lines
    (S->I behaviour generator).  Returns (list of decoded behaviours, tlc result)."""
    extra = ["-seed", str(seed)] if seed is not None else None
    r = tlc(module, cfg, timeout=timeout, simulate=simulate, workers=workers or 1, extra=extra)
    if r["error"] is not None:
        raise ToolError("generator %s/%s failed: %s\n%s" % (module, cfg, r["error"], r["raw_tail"]))
    out = []
    for k, a in r["prints"]:
        if k == tag:
            s = json.loads(a)  # a is a TLA+ string literal holding JSON
            out.append(json.loads(s))
    return out, r


# --------------------------------------------------------------------------
# known findings

def load_known():
    """known-findings.txt lines:
         finding: property=<id> signature=<sig> <what fails>
         fixed: property=<id> <commit> <what failed>
       Only 'finding:' lines suppress; the file is never written at run time."""
    out = []
    if os.path.exists(KNOWN):
        for line in open(KNOWN):
            line = line.strip()
            m = re.match(r"^finding: property=(\S+) signature=(\S+) (.*)$", line)
            if m:
                out.append({"property": m.group(1), "signature": m.group(2), "text": m.group(3)})
    return out


# --------------------------------------------------------------------------
# the per-run context

class Ctx:
    def __init__(self, pid, tier, seed, level, replaying=None):
        self.pid, self.tier, self.seed, self.level = pid, tier, seed, level
        self.t0 = time.time()
        self.cov = {"states": 0, "transitions": 0, "traces_validated_against_impl": 0,
                    "evaluations": 0, "distinct_nontrivial": 0, "samples": [], "rule": "",
                    "tlc_runs": [], "divergence_from_reference": 0}
        self.assumptions = []
        self.violations = []
        self.known_hits = []
        self.replaying = replaying
        self.tmp = tempfile.mkdtemp(prefix="vf-%s-" % pid)
        self.thorough = tier == "thorough"

    def q(self, quick, thorough):
        return thorough if self.thorough else quick

    def path(self, name):
        return os.path.join(self.tmp, name)

    def add_mc(self, r, name):
        self.cov["states"] += r["distinct"]
        self.cov["transitions"] += r["generated"]
        self.cov["tlc_runs"].append({"run": name, "distinct": r["distinct"], "generated": r["generated"],
                                     "depth": r.get("depth", 0), "wall_s": round(r.get("wall", 0), 1),
                                     "outcome": r["invariant"] or r["error"] or "ok"})

    def sample(self, x, limit=6):
        if len(self.cov["samples"]) < limit:
            self.cov["samples"].append(x)

    def violation(self, signature, contract, case, detail=None):
        """Report a contract failure.  `signature` is the structural shape used to match
        known-findings.txt; `case` is the failing input/behaviour (JSON-able)."""
        v = {"signature": signature, "contract": contract, "case": case, "detail": detail}
        for k in load_known():
            if k["property"] == self.pid and k["signature"] == signature:
                self.known_hits.append((k, v))
                return
        self.violations.append(v)

    def harness(self, bin, args, timeout=1800, check=True, env=None):
        """Build (from /repo's working tree) and run harness binary `bin` with args."""
        b = build(bin)
        e = {"VERIF_SEED": str(self.seed), "VERIF_TIER": self.tier, "RUST_BACKTRACE": "0"}
        if env:
            e.update(env)
        return sh([b] + [str(a) for a in args], timeout=timeout, env=e, check=check)

    def finish(self):
        cov = self.cov
        os.makedirs(EVIDENCE, exist_ok=True)
        seen = set()
        for k, v in self.known_hits:
            if k["signature"] not in seen:
                seen.add(k["signature"])
                print("KNOWN-FINDING: property=%s %s" % (self.pid, k["text"]))
        cov["known_finding_cases"] = len(self.known_hits)
        replay_paths = []
        if self.violations:
            os.makedirs(REPLAY, exist_ok=True)
            by_sig = {}
            for v in self.violations:
                by_sig.setdefault((v["contract"], v["signature"]), []).append(v)
            for (contract, sig), vs in by_sig.items():
                body = {"property": self.pid, "tier": self.tier, "seed": self.seed, "contract": contract,
                        "signature": sig, "count": len(vs), "first": vs[0], "more": vs[1:5]}
                dig = hashlib.sha1(json.dumps(body["first"], sort_keys=True, default=str).encode()).hexdigest()[:10]
                p = os.path.join(REPLAY, "%s-%s.json" % (self.pid, dig))
                with open(p, "w") as f:
                    json.dump(body, f, indent=1, default=str)
                replay_paths.append(p)
        ev = {"property_id": self.pid, "tier": self.tier, "seed": self.seed, "level": self.level,
              "coverage": cov, "assumptions": self.assumptions,
              "wall_s": round(time.time() - self.t0, 2), "violations": len(self.violations)}
        if not cov["samples"]:
            cov["samples"] = ["(no sample recorded)"]
        with open(os.path.join(EVIDENCE, self.pid + ".json"), "w") as f:
            json.dump(ev, f, indent=1, default=str)
        shutil.rmtree(self.tmp, ignore_errors=True)
        for p in replay_paths:
            print("VIOLATION property=%s replay=%s" % (self.pid, p))
        log("%s %s: states=%d transitions=%d traces=%d evals=%d nontrivial=%d violations=%d known=%d wall=%.1fs" % (
            self.pid, self.tier, cov["states"], cov["transitions"], cov["traces_validated_against_impl"],
            cov["evaluations"], cov["distinct_nontrivial"], len(self.violations), len(self.known_hits),
            time.time() - self.t0))
        return 1 if self.violations else 0


def judge_records(ctx, module, trace_path, sig_fn=None, nontrivial_fn=None, chunk=4000, cfg=None, case_start=None):
    """Common I->S step: TLC judges the trace; every BAD record becomes a violation.
    sig_fn(record, verdict) -> structural signature (default: the verdict name)."""
    j = tlc_judge(module, trace_path, chunk=chunk, cfg=cfg, case_start=case_start)
    recs = j["records"]
    ctx.cov["states"] += j["states"]
    ctx.cov["transitions"] += j["transitions"]
    ctx.cov["traces_validated_against_impl"] += j["judged"]
    ctx.cov["evaluations"] += j["judged"]
    ctx.cov["divergence_from_reference"] += len(j["diverges"])
    if nontrivial_fn:
        seen = set()
        for r in recs:
            if nontrivial_fn(r):
                seen.add(json.dumps(r, sort_keys=True))
        ctx.cov["distinct_nontrivial"] += len(seen)
    for idx, verdict in j["bad"]:
        r = recs[idx]
        if verdict.startswith("harness:"):
            raise ToolError("harness produced a malformed record %d: %s %s" % (idx, verdict, r))
        sig = sig_fn(r, verdict) if sig_fn else verdict
        detail = None
        if case_start is not None:
            # attach the case (records since the last case start) for stateful traces
            k = idx
            while k > 0 and not case_start(json.dumps(recs[k], separators=(",", ":"))) and idx - k < 200:
                k -= 1
            detail = {"case_records": recs[k:idx + 1]}
        ctx.violation(sig, verdict, r, detail)
    return j
