---------------------------- MODULE ChangedPaths ----------------------------
(* C22: the changed-path index agrees with tree diffs.                      *)
(*                                                                          *)
(* Vocabulary: a graph G (Dag), and for every commit a tree: a sequence of  *)
(* values, one per path of a fixed path list; value 1 = "absent", k + 1 =   *)
(* file content k (contents are single distinct lines, so a content merge   *)
(* resolves exactly what the cancellation rule resolves; MergeAlgebra's     *)
(* NoValue = 0 then means "conflict").                                      *)
(*                                                                          *)
(* DEFINITION (the property's own): ChangedPaths(c) = the paths at which    *)
(* c's tree differs from the merge of its parents' trees, where the merge   *)
(* of several parents is jj's recursive merge (rewrite.rs                   *)
(* find_recursive_merge_commits: fold the parents left to right, each time  *)
(* with the recursive merge of the common ancestors as base), flattened,    *)
(* and resolved path by path with the cancellation rule (C02).              *)
EXTENDS Dag, Integers
MA == INSTANCE MergeAlgebra

CpSeqToSet(s) == {s[i] : i \in 1..Len(s)}
CpMax(S) == CHOOSE x \in S : \A y \in S : y <= x
RECURSIVE DescSeq(_)
DescSeq(S) == IF S = {} THEN <<>> ELSE <<CpMax(S)>> \o DescSeq(S \ {CpMax(S)})

(* recursive merge of a list of commits: a Merge (odd-length sequence) of   *)
(* commit ids                                                               *)
RECURSIVE RecMerge(_, _)
RecMerge(G, ids) ==
  IF Len(ids) = 0 THEN <<0>>
  ELSE IF Len(ids) = 1 THEN <<ids[1]>>
  ELSE LET RECURSIVE F(_, _)
           F(res, pos) ==
             IF pos > Len(ids) THEN res
             ELSE LET anc == CommonAncestors(G, {ids[k] : k \in 1..(pos - 1)}, {ids[pos]})
                  IN F(MA!Flatten(<<res, RecMerge(G, DescSeq(anc)), <<ids[pos]>> >>), pos + 1)
       IN F(<<ids[1]>>, 2)

(* trees: tr[c] for c >= 1; the root's tree is empty *)
Val(tr, np, c, p) == IF c = 0 THEN 1 ELSE tr[c][p]

(* the parents' merged value at path p: 0 = conflict *)
ParentValue(G, tr, np, c, p, rule) ==
  LET rm == IF rule = "first_parent" /\ Len(G[c]) > 0 THEN <<G[c][1]>> ELSE RecMerge(G, G[c])
      m == [i \in 1..Len(rm) |-> Val(tr, np, rm[i], p)]
  IN MA!TrivialCounting(m, TRUE)

ChangedPathsR(G, tr, np, c, rule) ==
  IF c = 0 THEN {}
  ELSE {p \in 1..np : LET pv == ParentValue(G, tr, np, c, p, rule) IN pv = 0 \/ pv # Val(tr, np, c, p)}
ChangedPaths(G, tr, np, c) == ChangedPathsR(G, tr, np, c, "ok")

---------------------------------------------------------------------------
(* CONTRACTS *)
Sorted(s) == \A i \in 1..(Len(s) - 1) : s[i] < s[i + 1]

(* what the index recorded for c (a sorted list of path numbers) *)
RecordedOK(G, tr, np, c, paths) == Sorted(paths) /\ CpSeqToSet(paths) = ChangedPaths(G, tr, np, c)

(* files(p) over the visible commits; p = 0: any path *)
FilesOK(G, tr, np, vis, p, out) ==
  LET want == {c \in vis : IF p = 0 THEN ChangedPaths(G, tr, np, c) # {} ELSE p \in ChangedPaths(G, tr, np, c)}
  IN /\ CpSeqToSet(out) = want
     /\ \A i, j \in 1..Len(out) : i < j => (out[i] # out[j] /\ ~IsAncestor(G, out[i], out[j]))
=============================================================================
