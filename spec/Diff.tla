------------------------------- MODULE Diff -------------------------------
(* Content diffs (core/src/diff.rs: ContentDiff, hunks(), hunk_ranges()).   *)
(*                                                                          *)
(* Vocabulary.  A text is a sequence of integers (bytes; in the design-     *)
(* level models of FileMerge also abstract line tokens).  A diff of n >= 1  *)
(* inputs is a sequence of hunks  [k |-> 1 | 0, r |-> <<rg_1, .., rg_n>>]   *)
(* where k = 1 is Matching, k = 0 is Different and rg_i = <<start, end>> is *)
(* the 0-based half-open range of the hunk in input i (as Rust's            *)
(* Range<usize>).                                                           *)
(*                                                                          *)
(* CONTRACT (C03): DiffOK.  There is deliberately no reference function for *)
(* the alignment jj chooses: any alignment that satisfies DiffOK is a       *)
(* correct diff.  PrefixSuffixDiff is a tiny *witness* alignment used by    *)
(* the design-level models (MC_Diff: the contract is satisfiable on every   *)
(* input; MC_FileMerge: a valid partition to merge over).                   *)
EXTENDS Naturals, Integers, Sequences, FiniteSets

Matching  == 1
Different == 0

Slice(x, rg) == SubSeq(x, rg[1] + 1, rg[2])
HunkSlices(inputs, h) == [i \in 1..Len(inputs) |-> Slice(inputs[i], h.r[i])]

---------------------------------------------------------------------------
(* The three comparisons (CompareBytesExactly / IgnoreAllWhitespace /       *)
(* IgnoreWhitespaceAmount).  u8::is_ascii_whitespace: SP, TAB, LF, FF, CR.  *)
IsWs(b) == b \in {9, 10, 12, 13, 32}
StripWs(s) == SelectSeq(s, LAMBDA b : ~IsWs(b))
(* every maximal run of whitespace becomes one SP *)
CollapseWs(s) ==
  LET keep == SelectSeq([i \in 1..Len(s) |-> i],
                        LAMBDA i : ~IsWs(s[i]) \/ i = 1 \/ ~IsWs(s[i - 1]))
  IN [j \in 1..Len(keep) |-> IF IsWs(s[keep[j]]) THEN 32 ELSE s[keep[j]]]

Comparisons == {"exact", "allws", "wsamount"}
CmpEq(cmp, a, b) ==
  IF cmp = "exact" THEN a = b
  ELSE IF cmp = "allws" THEN StripWs(a) = StripWs(b)
  ELSE CollapseWs(a) = CollapseWs(b)

---------------------------------------------------------------------------
(* CONTRACT C03                                                             *)

WellShaped(inputs, hunks) ==
  \A h \in 1..Len(hunks) :
    /\ hunks[h].k \in {Matching, Different}
    /\ Len(hunks[h].r) = Len(inputs)
    /\ \A i \in 1..Len(inputs) : Len(hunks[h].r[i]) = 2

(* Per input the ranges are contiguous from 0 to the input's length, so the *)
(* concatenation of the slices reproduces the input byte for byte.  Stated  *)
(* on the lengths so that it also judges compact records (large inputs).    *)
CoversLens(lens, hunks) ==
  \A i \in 1..Len(lens) :
    IF Len(hunks) = 0 THEN lens[i] = 0
    ELSE /\ hunks[1].r[i][1] = 0
         /\ hunks[Len(hunks)].r[i][2] = lens[i]
         /\ \A h \in 1..Len(hunks) :
              /\ hunks[h].r[i][1] <= hunks[h].r[i][2]
              /\ h < Len(hunks) => hunks[h].r[i][2] = hunks[h + 1].r[i][1]
Covers(inputs, hunks) == CoversLens([i \in 1..Len(inputs) |-> Len(inputs[i])], hunks)

MatchingEqual(inputs, cmp, hunks) ==
  \A h \in 1..Len(hunks) :
    hunks[h].k = Matching =>
      \A i \in 2..Len(inputs) :
        CmpEq(cmp, Slice(inputs[1], hunks[h].r[1]), Slice(inputs[i], hunks[h].r[i]))

NoEmptyHunk(inputs, hunks) ==
  \A h \in 1..Len(hunks) : \E i \in 1..Len(inputs) : hunks[h].r[i][1] < hunks[h].r[i][2]

Alternates(hunks) == \A h \in 1..(Len(hunks) - 1) : hunks[h].k # hunks[h + 1].k

DiffOK(inputs, cmp, hunks) ==
  /\ WellShaped(inputs, hunks)
  /\ Covers(inputs, hunks)
  /\ MatchingEqual(inputs, cmp, hunks)
  /\ NoEmptyHunk(inputs, hunks)
  /\ Alternates(hunks)

(* COMPACT form of the contract for inputs too large to ship to TLC: the    *)
(* record carries the input lengths and, per hunk, kind, ranges and a hash  *)
(* x[i] of every slice (taken from the texts hunks() hands out).  Exact     *)
(* comparison only.  Matching-equality is then hash-based: equal lengths    *)
(* and equal hashes (a hash collision could hide an unequal Matching hunk;  *)
(* an unequal hash always reveals one).  WellShaped / NoEmptyHunk only use  *)
(* the number of inputs, so the lengths stand in for the inputs.            *)
MatchingHashEqual(hunks) ==
  \A h \in 1..Len(hunks) :
    hunks[h].k = Matching =>
      \A i \in 2..Len(hunks[h].r) :
        /\ hunks[h].x[i] = hunks[h].x[1]
        /\ hunks[h].r[i][2] - hunks[h].r[i][1] = hunks[h].r[1][2] - hunks[h].r[1][1]
CompactDiffOK(lens, hunks) ==
  /\ WellShaped(lens, hunks)
  /\ \A h \in 1..Len(hunks) : Len(hunks[h].x) = Len(lens)
  /\ CoversLens(lens, hunks)
  /\ MatchingHashEqual(hunks)
  /\ NoEmptyHunk(lens, hunks)
  /\ Alternates(hunks)

(* hunks() must hand out exactly the slices hunk_ranges() describes.        *)
ContentsAreSlices(inputs, hunks, contents) ==
  /\ Len(contents) = Len(hunks)
  /\ \A h \in 1..Len(hunks) :
       /\ contents[h].k = hunks[h].k
       /\ contents[h].c = HunkSlices(inputs, hunks[h])

(* Reconstruction stated directly on the texts handed out by hunks(): the   *)
(* concatenation over the hunks of input i's text is input i.               *)
RECURSIVE ConcatSide(_, _, _)
ConcatSide(contents, i, h) ==
  IF h > Len(contents) THEN <<>> ELSE contents[h].c[i] \o ConcatSide(contents, i, h + 1)
Reconstructs(inputs, contents) ==
  \A i \in 1..Len(inputs) : ConcatSide(contents, i, 1) = inputs[i]

---------------------------------------------------------------------------
(* Witness alignment: longest common prefix, then longest common suffix of  *)
(* the rest, under exact comparison.  Works on any token type.              *)
MinLen(inputs) ==
  LET L == {Len(inputs[i]) : i \in 1..Len(inputs)}
  IN CHOOSE n \in L : \A m \in L : n <= m
AllSame(inputs, f(_)) == \A i \in 2..Len(inputs) : f(inputs[i]) = f(inputs[1])
CommonPrefixLen(inputs) ==
  LET ok == {n \in 0..MinLen(inputs) : AllSame(inputs, LAMBDA x : SubSeq(x, 1, n))}
  IN CHOOSE n \in ok : \A m \in ok : m <= n
CommonSuffixLen(inputs, p) ==   \* not overlapping the common prefix of length p
  LET ok == {n \in 0..(MinLen(inputs) - p) :
               AllSame(inputs, LAMBDA x : SubSeq(x, Len(x) - n + 1, Len(x)))}
  IN CHOOSE n \in ok : \A m \in ok : m <= n

PrefixSuffixDiff(inputs) ==
  LET n == Len(inputs)
      p == CommonPrefixLen(inputs)
      s == CommonSuffixLen(inputs, p)
      pre == IF p = 0 THEN <<>>
             ELSE <<[k |-> Matching, r |-> [i \in 1..n |-> <<0, p>>]]>>
      mid == IF \A i \in 1..n : Len(inputs[i]) = p + s THEN <<>>
             ELSE <<[k |-> Different, r |-> [i \in 1..n |-> <<p, Len(inputs[i]) - s>>]]>>
      suf == IF s = 0 THEN <<>>
             ELSE <<[k |-> Matching,
                     r |-> [i \in 1..n |-> <<Len(inputs[i]) - s, Len(inputs[i])>>]]>>
  IN IF mid = <<>> /\ p > 0 /\ s > 0      \* cannot happen (prefix is maximal); keep alternation anyway
     THEN <<[k |-> Matching, r |-> [i \in 1..n |-> <<0, Len(inputs[i])>>]]>>
     ELSE pre \o mid \o suf
(* Second witness, for inputs of equal length (slot files): maximal runs of *)
(* positions on which all inputs agree / do not all agree.                  *)
AgreeAt(inputs, p) == \A i \in 2..Len(inputs) : inputs[i][p] = inputs[1][p]
RECURSIVE PosDiffFrom(_, _)
PosDiffFrom(inputs, s) ==
  LET L == Len(inputs[1]) IN
  IF s > L THEN <<>>
  ELSE LET a == AgreeAt(inputs, s)
           brk == {q \in (s + 1)..L : AgreeAt(inputs, q) # a}
           e == IF brk = {} THEN L ELSE (CHOOSE q \in brk : \A q2 \in brk : q <= q2) - 1
       IN <<[k |-> IF a THEN Matching ELSE Different,
             r |-> [i \in 1..Len(inputs) |-> <<s - 1, e>>]]>> \o PosDiffFrom(inputs, e + 1)
PositionalDiff(inputs) == PosDiffFrom(inputs, 1)
===========================================================================
