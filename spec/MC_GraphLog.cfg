SPECIFICATION Spec
CONSTANTS
  MaxCommits = 4
  MaxParents = 3
  Bug = "none"
INVARIANTS InvReferenceMeetsContract InvReduction InvReferenceIsReference EmitInv
CHECK_DEADLOCK FALSE
