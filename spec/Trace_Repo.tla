----------------------------- MODULE Trace_Repo -----------------------------
(* I->S binding for C10/C11/C13/C46.  The trace is the log of the random    *)
(* transaction driver (jjconf repo record) run against the real             *)
(* MutableRepo / Transaction / RepoLoader.  Each event is an Observe action *)
(* of the Repo model: it extends the observed commit graph and operation    *)
(* graph, and the contracts of Repo.tla are evaluated on the observed       *)
(* state.  Step-for-step agreement with the transcribed actions is the job  *)
(* of the S->I replay (MC_Repo behaviours).                                 *)
EXTENDS Repo, Json, IOUtils

Rec == ndJsonDeserialize(IOEnv.TRACE)

(* The observed state lives in the machine's own variables: par/chg/dsc/emp *)
(* = the observed commit graph, ops = the observed operations (parents,     *)
(* view, predecessor records).  opHeads, tx, aux are not observed.          *)
VARIABLE l          \* next record
tvars == <<l, vars>>

ToView(j) == [heads |-> ToSet(j.heads), bm |-> j.bm, wc |-> j.wc]
EmptyFn == [x \in {} |-> <<>>]
(* <<k, v>> pairs -> function *)
PairsToFn(ps) == [k \in {ps[i][1] : i \in 1..Len(ps)} |->
                    (ps[CHOOSE i \in 1..Len(ps) : ps[i][1] = k])[2]]
(* <<old, kind, news>> triples -> rewrite records *)
RecsToFn(ts) == [k \in {ts[i][1] : i \in 1..Len(ts)} |->
                    LET e == ts[CHOOSE i \in 1..Len(ts) : ts[i][1] = k] IN [k |-> e[2], n |-> e[3]]]

NewOK(new) == \A i \in 1..Len(new) :
                 /\ new[i][1] = Len(par) + i
                 /\ \A p \in ToSet(new[i][2]) : p < new[i][1]
Par1(new) == par \o [i \in 1..Len(new) |-> new[i][2]]
Chg1(new) == chg \o [i \in 1..Len(new) |-> new[i][3]]
Dsc1(new) == dsc \o [i \in 1..Len(new) |-> new[i][4]]
Emp1(new) == emp \o [i \in 1..Len(new) |-> new[i][5]]

RECURSIVE AncOps(_)
AncOps(S) == LET P == UNION {ToSet(ops[o].parents) : o \in S} IN IF P \subseteq S THEN S ELSE AncOps(S \cup P)
RECURSIVE UnionPreds(_)
UnionPreds(S) == IF S = {} THEN EmptyFn ELSE LET o == CHOOSE o \in S : TRUE IN ops[o].preds @@ UnionPreds(S \ {o})

HasNew(r) == r.op \in {"rebase", "commit", "merge", "walk"}
NewOf(r) == IF HasNew(r) THEN r.new ELSE <<>>

(* the set of failed contracts of one record (usually empty) *)
Verdicts(r) ==
  LET new == NewOf(r)  p == Par1(new)  c == Chg1(new)  d == Dsc1(new)  e == Emp1(new) IN
  IF HasNew(r) /\ ~NewOK(new) THEN {"harness:bad-new-commits"}
  ELSE IF r.op = "reset" THEN {}
  ELSE IF r.op = "rebase" THEN
       {RebaseVerdict(p, c, d, e, ToView(r.v0), RecsToFn(r.map), RecsToFn(r.rb),
                      [empty |-> r.empty, del |-> r.del], ToView(r.v1), r.nold)}
  ELSE IF r.op = "commit" THEN
       IF r.opid # Len(ops) + 1 THEN {"harness:bad-op-id"}
       ELSE {ViewVerdict(p, ToView(r.view)),
             PredsVerdict(PairsToFn(r.preds), ToSet(r.pending), ToSet(r.created))}
  ELSE IF r.op = "merge" THEN
       IF r.opid # Len(ops) + 1 THEN {"harness:bad-op-id"}
       ELSE {ViewVerdict(p, ToView(r.view)),
             PredsVerdict(PairsToFn(r.preds), {},
                          ((r.nold + 1)..Len(p)) \cap Visible(p, ToSet(r.view.heads))),
             IF r.kind = "pair" /\ Len(r.parents) = 2
             THEN MergeVerdict(p, c, d, e, PairsToFn(r.preds) @@ UnionPreds(1..Len(ops)),
                               ops[r.base].view, ops[r.parents[1]].view, ops[r.parents[2]].view,
                               ToView(r.view), r.nold)
             ELSE IF r.kind = "nway"
             (* >= 3 heads reconciled in one call: the last step judged as a pair; the self   *)
             (* side is the pairwise intermediate's view (itself judged as a pair before),    *)
             (* renamed by the harness to this call's own copies of the rebased commits       *)
             THEN MergeVerdict(p, c, d, e, PairsToFn(r.preds) @@ UnionPreds(1..Len(ops)),
                               ops[r.base].view, ToView(r.selfview), ops[r.other].view,
                               ToView(r.view), r.nold)
             ELSE "ok"}
  ELSE IF r.op = "walk" THEN
       {WalkVerdict(UnionPreds(AncOps({r.at})), r.start, r.out, r.failed)}
  ELSE IF r.op = "panic" THEN
       IF r.call = "rebase"
          /\ r.msg = "unexpected error: RewriteRootCommit(RewriteRootCommit)"
          /\ \E w \in 1..Len(r.v0.wc) :
                LET k == r.v0.wc[w]  M == RecsToFn(r.map) IN k \in DOMAIN M /\ M[k].k # "ab"
       THEN {"Panic:rebase:wc-rewritten-then-abandoned-onto-root"}
       ELSE {"Panic"}
  ELSE {"harness:unknown-op"}

RootOp == [parents |-> <<>>, view |-> RootView, preds |-> EmptyFn]
TraceInit == /\ l = 1
             /\ par = <<<<>>>> /\ chg = <<0>> /\ dsc = <<0>> /\ emp = <<TRUE>>
             /\ ops = <<RootOp>> /\ opHeads = {1} /\ tx = NoTx /\ aux = NoAux

Observe(r) ==
  LET new == NewOf(r) IN
  IF r.op = "reset" THEN
       /\ par' = <<<<>>>> /\ chg' = <<0>> /\ dsc' = <<0>> /\ emp' = <<TRUE>> /\ ops' = <<RootOp>>
  ELSE /\ par' = Par1(new) /\ chg' = Chg1(new) /\ dsc' = Dsc1(new) /\ emp' = Emp1(new)
       /\ IF r.op \in {"commit", "merge"}
          THEN ops' = Append(ops, [parents |-> r.parents, view |-> ToView(r.view), preds |-> PairsToFn(r.preds)])
          ELSE UNCHANGED ops

TraceNext ==
  \/ /\ l <= Len(Rec)
     /\ LET bad == Verdicts(Rec[l]) \ {"ok"} IN
          \A v \in bad : PrintT(<<"BAD", l, v>>)
     /\ Observe(Rec[l])
     /\ l' = l + 1
     /\ UNCHANGED <<opHeads, tx, aux>>
  \/ /\ l = Len(Rec) + 1
     /\ PrintT(<<"JUDGED", Len(Rec)>>)
     /\ l' = l + 1
     /\ UNCHANGED vars
TraceSpec == TraceInit /\ [][TraceNext]_tvars
=============================================================================
