SPECIFICATION Spec
CONSTANTS
  MaxNodes = 5
  SubRanges = TRUE
  WithSkips = FALSE
  Engine = "any"
  ExcludeFinding = TRUE
  Bug = "none"
  Emit = FALSE
INVARIANTS InvNoRepeat InvVerdict InvProgress EmitInv
CHECK_DEADLOCK FALSE
