SPECIFICATION Spec
CONSTANTS
  LF = {0, 10}
  LD = {0, 10}
  LX = {0, 20, 30}
  LY = {0}
  MaxTerms = 5
  Nested = FALSE
  Accepts = {TRUE, FALSE}
  ExcludeFinding = TRUE
  Bug = "none"
  Emit = TRUE
  EmitMin = 1
INVARIANTS InvContract InvOneSideEqualsBase InvResolveIdempotent InvPathMergeDenote EmitInv
CHECK_DEADLOCK FALSE
