SPECIFICATION Spec
CONSTANTS
  Keys = {1, 2, 3, 4}
  Writers = {1, 2}
  PutSets <- PS_q
  MaxSaves = 3
  MaxGets = 3
  Bug = "none"
INVARIANTS Emit
CHECK_DEADLOCK FALSE
