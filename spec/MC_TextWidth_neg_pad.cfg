SPECIFICATION Spec
CONSTANTS
  MaxLen = 3
  MaxWrapLen = 3
  MaxDifferLen = 2
  MaxW = 4
  Kinds = {"shorten"}
  Emit = FALSE
  Bug = "pad_short"
INVARIANTS InvPad
CHECK_DEADLOCK FALSE
