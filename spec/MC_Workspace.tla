---------------------------- MODULE MC_Workspace ----------------------------
(* Design-level check of the CLI protocol (C40, C42): 2 workspaces, commands  *)
(* interleaved at protocol-step granularity.                                  *)
EXTENDS Workspace
Bound == Len(cm) <= MaxCommits /\ Len(ops) <= MaxOps
=============================================================================
