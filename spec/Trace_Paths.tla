----------------------------- MODULE Trace_Paths -----------------------------
(* Judge for C32: results of the real path conversions on the TLC-generated *)
(* cases of MC_Paths.                                                       *)
EXTENDS Paths, Json, IOUtils, TLC

MC_Base == <<"a">>
MC_Base2 == <<"ab", "a">>
Rec == ndJsonDeserialize(IOEnv.TRACE)

VARIABLE l

NoEmpty(ts) == \A i \in 1..Len(ts) : ts[i] # ""
Verdict(r) ==
  IF r.op = "parse" THEN
       IF ~ParseSound(r.cwd, r.abs, r.toks, r.r) THEN "ParseSound"
       ELSE IF ~ParseComplete(r.cwd, r.abs, r.toks, r.r) THEN "ParseComplete"
       ELSE "ok"
  ELSE IF r.op = "repo" THEN
       IF ~r.internal_ok THEN (IF NoEmpty(r.toks) THEN "InternalStringRejected" ELSE "ok")
       ELSE IF NoEmpty(r.toks) /\ r.pc # r.toks THEN "InternalStringComponents"
       ELSE LET fs == [ok |-> r.fs.ok, out |-> r.fs.toks] IN
            IF r.fs.ok /\ ~r.fs.abs THEN "ToFsConfined"
            ELSE IF ~ToFsConfined(r.pc, fs) THEN "ToFsConfined"
            ELSE IF ~ToFsComplete(r.pc, fs) THEN "ToFsComplete"
            ELSE IF ~RoundTripOK(r.pc, r.back) THEN "RoundTripAbs"
            ELSE IF ~RoundTripOK(r.pc, r.back_ui) THEN "RoundTripUi"
            ELSE "ok"
  ELSE IF r.op = "panic" THEN "Panic"
  ELSE "harness:unknown-op"

Diverges(r) ==
  IF r.op = "parse" THEN r.r # RefParse(r.cwd, r.abs, r.toks)
  ELSE IF r.op = "repo" /\ r.internal_ok THEN
       \/ [ok |-> r.fs.ok, out |-> r.fs.toks] # RefToFs(r.pc)
       \/ (r.fs.ok /\ r.ui.toks # RefRelative(r.cwd, r.fs.toks))
  ELSE FALSE

Init == l = 1
Next ==
  \/ /\ l <= Len(Rec)
     /\ LET v == Verdict(Rec[l]) IN
          /\ (IF v = "ok" THEN TRUE ELSE PrintT(<<"BAD", l, v>>))
          /\ (IF Diverges(Rec[l]) THEN PrintT(<<"DIVERGES", l>>) ELSE TRUE)
     /\ l' = l + 1
  \/ /\ l = Len(Rec) + 1
     /\ PrintT(<<"JUDGED", Len(Rec)>>)
     /\ l' = l + 1
Spec == Init /\ [][Next]_l
=============================================================================
