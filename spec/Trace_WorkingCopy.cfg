SPECIFICATION Spec
CONSTANTS
  Paths <- StdPaths
  PathOrder <- StdPathOrder
  IgnoreVocab <- StdIgnoreVocab
  Bug = "none"
CHECK_DEADLOCK FALSE
