------------------------------ MODULE WcMtime ------------------------------
(* C26: "Edits after a command finished are always detected".               *)
(*                                                                          *)
(* A model of how jj decides that a tracked file is unchanged               *)
(* (lib/src/local_working_copy.rs):                                         *)
(*   - TreeState::update / write_file   -> JjWrite   records fstat mtime    *)
(*   - TreeState::save                  -> SaveState the state file gets    *)
(*                                         its own mtime (own_mtime, read   *)
(*                                         back by TreeState::read)         *)
(*   - FileSnapshotter::get_updated_tree_value -> SnapStat: the file is     *)
(*       clean  <=>  same (type, mtime, size)  /\  recorded mtime < own     *)
(*   - the user's editor                -> UserEdit (same size, so only     *)
(*                                         the mtime can give it away)      *)
(* over a COARSE clock: everything that happens within one tick gets the    *)
(* same timestamp.  One tracked file is enough: the decision is per file    *)
(* against the single own_mtime.                                            *)
(*                                                                          *)
(* The whole model state is one record `s`; every action is an operator     *)
(* s -> s' with an enabling predicate, so that the state machine            *)
(* (MC_WcMtime), the behaviour generator and the trace judge                *)
(* (Trace_WcMtime) share the very same definitions.                         *)
EXTENDS Naturals, Integers, Sequences

(* the guard under test; "le" is the seeded design bug of the negative cfg  *)
Guard(recorded, own, variant) ==
  IF variant = "le" THEN recorded <= own ELSE recorded < own

(* cmd: "idle" (no jj process), "checkout", "snapshot"                      *)
(* dm, dc   mtime (tick) and content version of the file on disk            *)
(* mm, mc   in-memory recorded file state of the running jj process         *)
(* rm, rc   durable recorded file state (tree_state file)                   *)
(* own      mtime of the tree_state file                                    *)
(* ghost:   must   an edit happened while no jj command was running and     *)
(*                 has not been looked at by a snapshot yet                 *)
(*          noreq  an edit happened while a command was running (the        *)
(*                 property makes no promise about it)                      *)
(*          mustAt, dcAt  values of must / dc at the last SnapStat          *)
InitState ==
  [clock |-> 0, cmd |-> "idle", tracked |-> FALSE, done |-> FALSE,
   dm |-> 0, dc |-> 0, mm |-> 0, mc |-> 0, rm |-> 0, rc |-> 0, own |-> 0,
   must |-> FALSE, noreq |-> FALSE, mustAt |-> FALSE, dcAt |-> 0, nsnap |-> 0]

CanTick(s, maxClock) == s.clock < maxClock
DoTick(s) == [s EXCEPT !.clock = @ + 1]

(* jj starts a check-out of a commit whose file content is new              *)
CanBeginCheckout(s) == s.cmd = "idle"
DoBeginCheckout(s) == [s EXCEPT !.cmd = "checkout", !.done = FALSE]

(* write_file: remove + create_new + fstat; whatever was on disk is         *)
(* replaced, the recorded state is what fstat returns                       *)
CanJjWrite(s) == s.cmd = "checkout" /\ ~s.done
DoJjWrite(s) ==
  [s EXCEPT !.dm = s.clock, !.dc = s.dc + 1, !.mm = s.clock, !.mc = s.dc + 1,
            !.done = TRUE, !.tracked = TRUE, !.must = FALSE, !.noreq = FALSE]

(* the user's editor rewrites the file with different content of the same   *)
(* size; the file system stamps the coarse clock                            *)
CanUserEdit(s) == s.tracked
DoUserEdit(s) ==
  [s EXCEPT !.dm = s.clock, !.dc = s.dc + 1,
            !.must = IF s.cmd = "idle" THEN TRUE ELSE @,
            !.noreq = IF s.cmd # "idle" THEN TRUE ELSE @]

(* "restore an older copy" (cp -p, mv of an older copy, rsync -t, tar x, backup restore):  *)
(* different content of the same size whose mtime is k ticks OLDER than the recorded one     *)
CanRestoreOld(s, k) == s.tracked /\ s.cmd = "idle"
DoRestoreOld(s, k) ==
  [s EXCEPT !.dm = s.rm - k, !.dc = s.dc + 1, !.must = TRUE]

(* LockedLocalWorkingCopy::finish: the state is written only when dirty     *)
Dirty(s) == s.mm # s.rm \/ s.mc # s.rc \/ s.cmd = "checkout"
CanSaveState(s) == s.cmd \in {"checkout", "snapshot"} /\ s.done
DoSaveState(s) ==
  IF Dirty(s)
  THEN [s EXCEPT !.rm = s.mm, !.rc = s.mc, !.own = s.clock, !.cmd = "idle"]
  ELSE [s EXCEPT !.cmd = "idle"]

(* a new jj process loads the durable state                                 *)
CanBeginSnapshot(s) == s.cmd = "idle" /\ s.tracked
DoBeginSnapshot(s) ==
  [s EXCEPT !.cmd = "snapshot", !.done = FALSE, !.mm = s.rm, !.mc = s.rc]

(* get_updated_tree_value for the file *)
(* FileState::is_clean compares the mtimes for EQUALITY; "clean-le" is a seeded bug        *)
Clean(s, variant) ==
  /\ (IF variant = "clean-le" THEN s.dm <= s.mm ELSE s.dm = s.mm)
  /\ Guard(s.mm, s.own, variant)
CanSnapStat(s) == s.cmd = "snapshot" /\ ~s.done
DoSnapStat(s, variant) ==
  LET seen == IF Clean(s, variant) THEN [m |-> s.mm, c |-> s.mc] ELSE [m |-> s.dm, c |-> s.dc]
  IN [s EXCEPT !.mm = seen.m, !.mc = seen.c, !.done = TRUE, !.nsnap = @ + 1,
               !.mustAt = s.must, !.dcAt = s.dc, !.must = FALSE, !.noreq = FALSE]

---------------------------------------------------------------------------
(* CONTRACT (C26).  `seen` is the content version the snapshot recorded     *)
(* for the file.  If an edit was made while no command was running          *)
(* (after the last SaveState), the snapshot must record the content that    *)
(* is on disk.  Edits made while a command runs carry no requirement.       *)
SeenOK(must, diskContent, seen) == must => seen = diskContent

(* the same as a state invariant of the machine *)
InvSeen(s) == (s.cmd = "snapshot" /\ s.done) => SeenOK(s.mustAt, s.dcAt, s.mc)

(* Sanity of the model: time is monotonic, nothing recorded is from the     *)
(* future.                                                                  *)
InvTime(s) == s.dm <= s.clock /\ s.mm <= s.clock /\ s.rm <= s.clock /\ s.own <= s.clock

---------------------------------------------------------------------------
(* one step by action name (shared by generator replay and trace judge)     *)
Enabled(s, a, maxClock) ==
  CASE a = "Tick" -> CanTick(s, maxClock)
    [] a = "BeginCheckout" -> CanBeginCheckout(s)
    [] a = "JjWrite" -> CanJjWrite(s)
    [] a = "UserEdit" -> CanUserEdit(s)
    [] a = "SaveState" -> CanSaveState(s)
    [] a = "BeginSnapshot" -> CanBeginSnapshot(s)
    [] a = "SnapStat" -> CanSnapStat(s)
    [] a = "RestoreOld1" -> CanRestoreOld(s, 1)
    [] a = "RestoreOld2" -> CanRestoreOld(s, 2)
    [] OTHER -> FALSE
Step(s, a, variant) ==
  CASE a = "Tick" -> DoTick(s)
    [] a = "BeginCheckout" -> DoBeginCheckout(s)
    [] a = "JjWrite" -> DoJjWrite(s)
    [] a = "UserEdit" -> DoUserEdit(s)
    [] a = "SaveState" -> DoSaveState(s)
    [] a = "BeginSnapshot" -> DoBeginSnapshot(s)
    [] a = "SnapStat" -> DoSnapStat(s, variant)
    [] a = "RestoreOld1" -> DoRestoreOld(s, 1)
    [] a = "RestoreOld2" -> DoRestoreOld(s, 2)
Actions == {"Tick", "BeginCheckout", "JjWrite", "UserEdit", "SaveState", "BeginSnapshot", "SnapStat", "RestoreOld1", "RestoreOld2"}
=============================================================================
