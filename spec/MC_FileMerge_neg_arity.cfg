SPECIFICATION Spec
CONSTANTS
  Slots = 2
  Values = {1, 2, 3}
  MaxTerms = 3
  Bug = "arity"
INVARIANTS InvPartition InvLaws InvSlotwise
CHECK_DEADLOCK FALSE
