------------------------- MODULE MC_IndexSegments -------------------------
(* C18 design level + behaviour generator.                                  *)
(*                                                                          *)
(* A behaviour is a history: a commit DAG grown commit by commit together   *)
(* with its split into transactions and concurrent operations.  State: the  *)
(* graph so far, every operation's index (a stack of segment files), the    *)
(* open transaction.  One action per critical step of jj:                   *)
(*   TxBegin(b)   ReadonlyRepo::start_transaction on operation b            *)
(*   TxNew(ps,ch) MutableRepo::new_commit(..).write()  -> add_commit_data   *)
(*   TxAddHead(c) MutableRepo::add_head of a commit another operation wrote *)
(*   TxHide(c)    MutableRepo::remove_head                                  *)
(*   TxCommit     Transaction::commit -> maybe_squash_with_ancestors, save  *)
(*   Merge(a,b)   RepoLoader::merge_operations -> merge_in base, other, save*)
(* Invariants: every index is well formed (topological positions, parent    *)
(* positions, generation numbers = Dag!Generation, closed under parents),   *)
(* the transcribed position/generation algorithms answer as the Dag oracle, *)
(* stacks stay geometric, squashing changes nothing, a merge loses nothing. *)
(* `hist` records the actions with the expected index content after each    *)
(* commit/merge; EmitInv prints complete behaviours for the replayer.       *)
EXTENDS IndexSegments, TLC, Json

CONSTANTS MaxCommits, MaxOps, MaxParents, MaxPerTx, AllowHide, Shape, Bug

VARIABLES pseq, chg, ops, tx, frozen, hist
vars == <<pseq, chg, ops, tx, frozen, hist>>

NoTx == [open |-> FALSE, base |-> 0, segs |-> <<>>, nnew |-> 0, nadd |-> 0]
G == GraphOf(pseq)
GenRule == IF Bug = "squash_gen" THEN "local" ELSE "ok"
StopRule == IF Bug = "merge_stop" THEN "count" ELSE "ok"
Cutoff == IF Bug = "heads_cutoff" THEN "max" ELSE "min"

(* operation graph (for the merge base) *)
OpGraph == [o \in 1..Len(ops) |-> ops[o].par]
OpHeads == {o \in 1..Len(ops) : ~\E q \in 1..Len(ops) : o \in SeqToSet(ops[q].par)}

SortedSeq(S) ==
  LET RECURSIVE F(_)
      F(T) == IF T = {} THEN <<>> ELSE <<Min(T)>> \o F(T \ {Min(T)})
  IN F(S)

Init ==
  /\ pseq = <<>> /\ chg = <<>>
  /\ ops = << [par |-> <<>>, segs |-> InitialStack] >>
  /\ tx = NoTx /\ frozen = FALSE /\ hist = <<>>

TxBegin(b) ==
  /\ ~tx.open /\ Len(ops) < MaxOps /\ Len(pseq) < MaxCommits
  /\ (frozen \/ Shape = "chain") => b = Len(ops)
  /\ tx' = [open |-> TRUE, base |-> b, segs |-> ops[b].segs \o << <<>> >>, nnew |-> 0, nadd |-> 0]
  /\ hist' = Append(hist, [a |-> "begin", base |-> b])
  /\ UNCHANGED <<pseq, chg, ops, frozen>>

(* Shape = "chain": every commit sits on the newest known one (tiny state   *)
(* space, so that histories long enough for partial squashes are reached)  *)
ParentChoices(K) ==
  IF Shape = "chain" THEN {<<Max(K)>>} ELSE
  {<<0>>} \cup {SortedSeq(S) : S \in {T \in SUBSET (K \ {0}) : T # {} /\ Cardinality(T) <= MaxParents}}

TxNew(ps, ch) ==
  /\ tx.open /\ Len(pseq) < MaxCommits /\ tx.nnew < MaxPerTx
  /\ LET c == Len(pseq) + 1 IN
     /\ pseq' = Append(pseq, ps)
     /\ chg' = Append(chg, ch)
     /\ tx' = [tx EXCEPT !.segs = AddCommit(tx.segs, c, ps, ch, "ok"), !.nnew = @ + 1]
     /\ hist' = Append(hist, [a |-> "new", c |-> c, ps |-> ps, chg |-> ch])
  /\ UNCHANGED <<ops, frozen>>

(* add_head of an existing commit: missing ancestors first, ascending *)
RECURSIVE AddMissing(_, _)
AddMissing(segs, todo) ==
  IF todo = {} THEN segs
  ELSE LET c == Min(todo) IN AddMissing(AddCommit(segs, c, pseq[c], chg[c], "ok"), todo \ {c})

TxAddHead(c) ==
  /\ tx.open /\ c \in 1..Len(pseq) /\ c \notin IdsOf(tx.segs)
  /\ tx' = [tx EXCEPT !.segs = AddMissing(tx.segs, AncOf(G, {c}) \ IdsOf(tx.segs)), !.nadd = @ + 1]
  /\ hist' = Append(hist, [a |-> "addhead", c |-> c])
  /\ UNCHANGED <<pseq, chg, ops, frozen>>

TxHide(c) ==
  /\ AllowHide /\ tx.open /\ ~frozen /\ OpHeads = {tx.base}
  /\ c \in Heads(G, IdsOf(tx.segs)) /\ c # 0
  /\ frozen' = TRUE
  /\ tx' = [tx EXCEPT !.nadd = @ + 1]
  /\ hist' = Append(hist, [a |-> "hide", c |-> c])
  /\ UNCHANGED <<pseq, chg, ops>>

TxCommit ==
  /\ tx.open
  (* an empty transaction (save_in hands back the parent file) only early on *)
  /\ (tx.nnew + tx.nadd > 0) \/ (tx.base = Len(ops) /\ Len(ops) <= 2)
  /\ LET s == Save(tx.segs, GenRule) IN
     /\ ops' = Append(ops, [par |-> <<tx.base>>, segs |-> s])
     /\ hist' = Append(hist, [a |-> "commit", known |-> IdsOf(s), levels |-> Levels(s)])
  /\ tx' = NoTx
  /\ UNCHANGED <<pseq, chg, frozen>>

MergeEnabled(o1, o2) ==
  /\ ~tx.open /\ ~frozen /\ Len(ops) < MaxOps
  /\ o1 \in OpHeads /\ o2 \in OpHeads /\ o1 # o2
  /\ Cardinality(CommonAncestors(OpGraph, {o1}, {o2})) = 1

Merge(o1, o2) ==
  /\ MergeEnabled(o1, o2)
  /\ LET bases == CommonAncestors(OpGraph, {o1}, {o2}) IN
     /\ LET b == CHOOSE x \in bases : TRUE
            m0 == ops[o1].segs \o << <<>> >>
            m1 == MergeIn(m0, ops[b].segs, StopRule)
            m2 == MergeIn(m1, ops[o2].segs, StopRule)
            s == Save(m2, GenRule)
        IN /\ ops' = Append(ops, [par |-> <<o1, o2>>, segs |-> s])
           /\ hist' = Append(hist, [a |-> "merge", o1 |-> o1, o2 |-> o2,
                                    known |-> IdsOf(s), levels |-> Levels(s)])
  /\ UNCHANGED <<pseq, chg, tx, frozen>>

(* a behaviour is complete when nothing is open and either the operation  *)
(* budget is used up or all commits exist and nothing is left to merge     *)
Done ==
  /\ ~tx.open
  /\ \/ Len(ops) = MaxOps
     \/ (Len(pseq) = MaxCommits /\ ~\E o1, o2 \in 1..Len(ops) : MergeEnabled(o1, o2))

Next ==
  /\ ~Done
  /\ \/ \E b \in 1..Len(ops) : TxBegin(b)
     \/ /\ tx.open
        /\ \E ps \in ParentChoices(IdsOf(tx.segs)) :
             \E ch \in {Len(pseq) + 1} \cup (IF Shape = "chain" THEN {} ELSE {chg[p] : p \in (SeqToSet(ps) \ {0})}) :
                TxNew(ps, ch)
     \/ \E c \in 1..Len(pseq) : TxAddHead(c)
     \/ \E c \in 1..Len(pseq) : TxHide(c)
     \/ TxCommit
     \/ \E o1, o2 \in 1..Len(ops) : Merge(o1, o2)

Spec == Init /\ [][Next]_vars

---------------------------------------------------------------------------
(* invariants *)
(* every operation is the newest one once, and an index file never changes: *)
(* checking the newest operation (and the open transaction) suffices        *)
Newest == ops[Len(ops)].segs
InvWellFormed == WellFormed(G, Newest) /\ (tx.open => WellFormed(G, tx.segs))
InvQueries == ~tx.open => QueriesAgree(G, Newest, Cutoff)
InvGeometric == Geometric(Newest)
InvSquashKeeps == tx.open => Flat(Save(tx.segs, GenRule)) = Flat(tx.segs)
InvMergeComplete ==
  \A o \in 1..Len(ops) :
    Len(ops[o].par) = 2 =>
      IdsOf(ops[o].segs) = IdsOf(ops[ops[o].par[1]].segs) \cup IdsOf(ops[ops[o].par[2]].segs)
(* the squash rule on sizes alone (used by the judge for long histories) *)
InvLevelsRule ==
  tx.open => Levels(Save(tx.segs, "ok")) = SaveLevels(Levels(ops[tx.base].segs), Len(tx.segs[Len(tx.segs)]))

(* the memoised oracle used by the judge is the Dag oracle *)
InvMemo == Done => MemoAgrees(G)

EmitInv == Done => PrintT(<<"REPLAY", ToJson(hist)>>)
=============================================================================
