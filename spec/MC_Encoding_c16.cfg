SPECIFICATION Spec
CONSTANTS
  K = 2
  Kinds = {"view", "op"}
  Emit = TRUE
  Bug = "none"
INVARIANTS InvView InvOp EmitInv
CHECK_DEADLOCK FALSE
