SPECIFICATION Spec
CONSTANTS
  K = 2
  Kinds = {"view", "op"}
  Emit = TRUE
  RepLevel = 2
  Bug = "none"
INVARIANTS InvView InvOp EmitInv
CHECK_DEADLOCK FALSE
