SPECIFICATION Spec
CONSTANTS
  Paths = {"a"}
  Contents = {2}
CHECK_DEADLOCK FALSE
