----------------------------- MODULE MC_OpHeads -----------------------------
(* Bounded model checking of OpHeads, the seeded design bug "publish removes *)
(* the old head before adding the new one" (negative config), and the       *)
(* schedule generator for the S->I binding.                                 *)
EXTENDS OpHeads, TLC, Json

CONSTANT Bug            \* "none" | "rmfirst"

(* ---- seeded bug: remove before add in publish ---- *)
PLockB(p) == /\ pc[p] = "plock" /\ LockFree /\ lock' = Acquire(p)
             /\ pc' = [pc EXCEPT ![p] = "prmB"]
             /\ UNCHANGED <<ops, heads, published, base, new, mpar, rm, cmds, crashes>>
PRmB(p) == /\ pc[p] = "prmB" /\ heads' = heads \ {base[p]}
           /\ pc' = [pc EXCEPT ![p] = "paddB"]
           /\ UNCHANGED <<ops, lock, published, base, new, mpar, rm, cmds, crashes>>
PAddB(p) == /\ pc[p] = "paddB"
            /\ LET o == NextId IN
                 /\ ops' = [x \in DOMAIN ops \cup {o} |-> IF x = o THEN {base[p]} ELSE ops[x]]
                 /\ heads' = heads \cup {o} /\ published' = published \cup {o}
                 /\ new' = [new EXCEPT ![p] = o]
            /\ pc' = [pc EXCEPT ![p] = "punlock"]
            /\ UNCHANGED <<lock, base, mpar, rm, cmds, crashes>>
StepB(p) ==
  \/ Read1(p) \/ RLock(p) \/ Read2(p) \/ RAdd(p, IF mpar[p] = {} THEN new[p] ELSE NextId)
  \/ (\E o \in rm[p] : RRm(p, o)) \/ RUnlock(p)
  \/ PLockB(p) \/ PRmB(p) \/ PAddB(p) \/ PUnlock(p)

MCNext == IF Bug = "rmfirst"
          THEN FinalStart \/ (\E p \in AllProcs : StepB(p)) \/ (\E p \in Procs : Crash(p))
          ELSE Next
MCSpec == Init /\ [][MCNext]_vars

=============================================================================
