SPECIFICATION Spec
CONSTANTS
  Paths <- StdPaths
  PathOrder <- StdPathOrder
  IgnoreVocab <- StdIgnoreVocab
  Bug = "none"
  MaxSteps = 8
  MaxEditRun = 2
  Acts = {"DirToSymlink", "Symlink", "FileToDir", "Write", "CheckOut", "Snapshot"}
  EditPaths <- DirPaths
  Contents = {1, 2}
  SymTargets = {"out", "out/x"}
  RootIgnore = {1, 2, 3, 4, 7}
  DirIgnore = {3, 5, 6}
  TreeIds = {1, 3, 5, 12, 13}
  SparseIds = {1, 2, 3, 4, 5, 6}
  XP = "respect"
  Strict = "none"
  Emit = TRUE
INVARIANTS EmitInv
CHECK_DEADLOCK FALSE
