SPECIFICATION Spec
CONSTANTS
  MaxClock = 5
  MaxSnaps = 3
  MaxCheckouts = 2
  MaxEdits = 4
  Variant = "lt"
  Emit = FALSE
INVARIANTS Inv_Seen Inv_Time
VIEW View
CHECK_DEADLOCK FALSE
