SPECIFICATION Spec
CONSTANTS
  MaxCommits = 3
  MaxOps = 4
  MaxParents = 3
  MaxPerTx = 2
  AllowHide = TRUE
  Bug = "none"
INVARIANTS InvWellFormed InvQueries InvGeometric InvSquashKeeps InvMergeComplete InvLevelsRule EmitInv
CHECK_DEADLOCK FALSE
