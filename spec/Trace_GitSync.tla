--------------------------- MODULE Trace_GitSync ---------------------------
(* I->S judge for C34.  Reads the ndjson trace named by env TRACE (written *)
(* by `gitsync sync`): a "reset" record starts a case (commit graph +       *)
(* initial projection); every other record is one action performed on the  *)
(* real repository with the projected state after it.  Each step is judged *)
(* against the CONTRACTS of GitSync starting from the previously OBSERVED   *)
(* state; a difference from the reference transcription that breaks no     *)
(* contract is only reported as DIVERGES.                                   *)
EXTENDS GitSync, Json, IOUtils

Rec == ndJsonDeserialize(IOEnv.TRACE)

VARIABLES l, cur, par, prevop
vars == <<l, cur, par, prevop>>

ToSet(t) == {t[i] : i \in DOMAIN t}
Obs(p) == [local |-> p.local, seen |-> p.seen, atgit |-> p.atgit, git |-> p.git,
           known |-> ToSet(p.known)]

UserOps == {"JjSet", "JjDelete", "GitSet", "GitDelete"}

Verdict(r) ==
  IF r.op = "reset" THEN
       IF \A b \in DOMAIN r.post.git :
             r.post.local[b] = <<0>> /\ r.post.seen[b] = 0 /\ r.post.atgit[b] = 0 /\ r.post.git[b] = 0
       THEN "ok" ELSE "harness:bad-initial-state"
  ELSE IF r.op = "panic" THEN "Panic"
  ELSE IF r.op = "error" THEN "Error"
  ELSE IF r.op = "harness_error" THEN "harness:git-plumbing-failed"
  ELSE IF r.post.extra # <<>> THEN "NoExtraRefs"
  ELSE IF r.op \in UserOps THEN
       IF FrameOK(cur, Obs(r.post), r.op, r.b, r.c) THEN "ok" ELSE "FrameOK"
  ELSE IF r.op = "Import" THEN
       IF ~ImportOK(par, cur, Obs(r.post)) THEN "ImportOK"
       ELSE IF ~(ImportIdemOK(Obs(r.post), Obs(r.post2)) /\ r.changed2 = <<>> /\ ~r.info2.has_changes)
            THEN "ImportIdemOK"
       ELSE "ok"
  ELSE IF r.op = "Export" THEN
       IF ~ExportOK(cur, Obs(r.post), ToSet(r.failed)) THEN "ExportOK"
       ELSE IF prevop = "Import" /\ ~ConvergeOK(Obs(r.post), ToSet(r.failed)) THEN "ConvergeOK"
       ELSE "ok"
  ELSE "harness:unknown-op"

Diverges(r) ==
  IF r.op = "Import" THEN Obs(r.post) # ImportF(par, cur) \/ ToSet(r.changed) # ImportChanged(cur)
  ELSE IF r.op = "Export" THEN Obs(r.post) # ExportF(cur) \/ ToSet(r.failed) # ExportFailed(cur)
  ELSE FALSE

NoState == [local |-> <<>>, seen |-> <<>>, atgit |-> <<>>, git |-> <<>>, known |-> {}]

Init == l = 1 /\ cur = NoState /\ par = <<>> /\ prevop = "none"
Next ==
  \/ /\ l <= Len(Rec)
     /\ LET r == Rec[l]  v == Verdict(r) IN
          /\ (IF v = "ok" THEN TRUE ELSE PrintT(<<"BAD", l, v>>))
          /\ (IF v \in {"ok", "ImportOK", "ImportIdemOK", "ExportOK", "ConvergeOK"} /\ Diverges(r)
              THEN PrintT(<<"DIVERGES", l>>) ELSE TRUE)
          /\ IF r.op \in {"panic", "error", "harness_error"}
             THEN UNCHANGED <<cur, par>> /\ prevop' = r.op
             ELSE /\ cur' = Obs(r.post)
                  /\ par' = IF r.op = "reset" THEN r.par ELSE par
                  /\ prevop' = r.op
     /\ l' = l + 1
  \/ /\ l = Len(Rec) + 1
     /\ PrintT(<<"JUDGED", Len(Rec)>>)
     /\ l' = l + 1
     /\ UNCHANGED <<cur, par, prevop>>
Spec == Init /\ [][Next]_vars
=============================================================================
