SPECIFICATION Spec
CONSTANTS
  Digits = {0, 1, 2}
  IdLen = 3
  MaxIds = 3
  Bug = "none"
INVARIANTS InvShortest InvShortestAbsent InvTwoLevel
CHECK_DEADLOCK FALSE
