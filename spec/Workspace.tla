----------------------------- MODULE Workspace -----------------------------
(* C40 / C42: the protocol the jj CLI runs around every command             *)
(* (cli/src/cli_util.rs: workspace_helper -> snapshot_working_copy ->       *)
(* handle_stale_working_copy -> start_transaction -> check_rewritable ->    *)
(* finish_transaction -> update_working_copy; lib/src/working_copy.rs       *)
(* check_stale; recover_stale_working_copy for `workspace update-stale`).   *)
(*                                                                          *)
(* Several workspaces share one repository (commit store, operation log,    *)
(* operation heads).  Each workspace has a disk (abstracted to one tree     *)
(* value), a working-copy state file (operation id + tree) and at most one  *)
(* running command, which advances through the protocol one step (action)   *)
(* at a time; commands of different workspaces interleave freely.           *)
(*                                                                          *)
(* CONTRACTS (used as invariants here and as the judge of recorded CLI      *)
(* sessions in Trace_Workspace):                                            *)
(* (defined in WorkspaceContracts.tla so that the trace judge shares them)  *)
(*   NoLossOK        C40: a disk state that existed when a command started  *)
(*                   and that the command replaced is the tree of that      *)
(*                   workspace's working-copy commit in some operation      *)
(*   AtOpOK          a command run at an operation (--at-op / --ignore-     *)
(*                   working-copy) neither snapshots nor updates            *)
(*   ImmutableKeptOK C42: every commit immutable before a command is still  *)
(*                   visible, with the same id, after it                    *)
EXTENDS Dag, WorkspaceContracts, TLC

CONSTANTS WS,            \* workspace names
          Trees,         \* non-empty tree values (0 is the empty tree)
          MaxCmds, MaxCommits, MaxOps,
          Kinds,         \* command kinds explored: subset of {"mut", "ro", "us", "atop"}
          WithImm,       \* do commands change the immutable heads (C42 configurations)
          AllowAbsentWs, \* may a view lack a workspace (workspace forget / restore before `workspace add`)
          Bug            \* "none" or a seeded design bug (negative configs)

Trees0 == Trees \cup {0}

(* ---------------------------------------------------------------------- *)
VARIABLES cm,        \* commit store: sequence of [par: Seq(commit), tree]; commit 1 is the root
          ops,       \* operation store: sequence of [parents: set of op, view, snap]
          opHeads,   \* the operation heads directory
          wcs,       \* [WS -> [op, tree]]  working-copy state files
          disk,      \* [WS -> Trees0]      what is on disk
          lock,      \* [WS -> BOOLEAN]     working-copy lock
          pr,        \* [WS -> process record]
          diskSeen,  \* ghost: disk when the running/last command started (or after the last user edit)
          immSeen,   \* ghost: [WS -> [set, exempt]] immutable commits in the view the command loaded
          atopSeen,  \* ghost: [WS -> [wcs, disk]] at the start of an --at-op command
          ncmd

vars == <<cm, ops, opHeads, wcs, disk, lock, pr, diskSeen, immSeen, atopSeen, ncmd>>

Par == [c \in 1..Len(cm) |-> cm[c].par]
TreeOf(c) == cm[c].tree
(* a view: working-copy commit per workspace (0 = workspace absent), visible heads, immutable heads *)
Visible(v) == AncOf(Par, v.heads)
ImmutableSetS(store, v) ==
  LET p == [c \in 1..Len(store) |-> store[c].par]
  IN IF Bug = "imm_heads_only" THEN v.imm \cup {1} ELSE AncOf(p, v.imm \cup {1})
ImmutableSet(v) == ImmutableSetS(cm, v)

OpAnc(S) == LET RECURSIVE A(_)
                A(T) == LET P == UNION {ops[o].parents : o \in T} IN IF P \subseteq T THEN T ELSE A(T \cup P)
            IN A(S)

(* trees of w's working-copy commit over all operations reachable from the heads *)
Recorded(w) == {TreeOf(ops[o].view.wc[w]) : o \in {p \in OpAnc(opHeads) : ops[p].view.wc[w] # 0}}

Idle == [pc |-> "idle", kind |-> "none", atop |-> FALSE, rop |-> 0, view |-> 0, base |-> 0,
         newTree |-> 0, m |-> [t |-> "none"], stale |-> 0, nsnap |-> 0]

(* ---------------------------------------------------------------------- *)
(* rewriting commits (rebase_descendants): x and its visible descendants   *)
(* get fresh ids in topological order; refs follow                         *)
Rank(d, D) == Cardinality({e \in D : e <= d})
MapC(m, c) == IF c \in DOMAIN m THEN m[c] ELSE c
MapSeq(m, s) == [i \in 1..Len(s) |-> MapC(m, s[i])]

(* store after rewriting x to tree t, rebasing descendants D (x \in D); m: D -> fresh ids *)
RewriteStore(x, t, D, m) ==
  [c \in 1..(Len(cm) + Cardinality(D)) |->
     IF c <= Len(cm) THEN cm[c]
     ELSE LET d == CHOOSE e \in D : m[e] = c
          IN [par |-> MapSeq(m, cm[d].par), tree |-> IF d = x THEN t ELSE cm[d].tree]]

HeadsOf(store, S) ==
  LET p == [c \in 1..Len(store) |-> store[c].par] IN Heads(p, S)

(* the mutations a command may perform on view v in workspace w *)
Mutations(v, w) ==
  LET V == Visible(v) IN
       {[t |-> "new", x |-> x] : x \in V}
  \cup {[t |-> "edit", x |-> x] : x \in V}
  \cup {[t |-> "rewrite", x |-> x, tree |-> tr] : x \in V, tr \in Trees0}
  \cup {[t |-> "abandon", x |-> x] : x \in V}
  \cup (IF WithImm THEN {[t |-> "setimm", s |-> s] : s \in {{}} \cup {{x} : x \in V}} ELSE {})
  \cup {[t |-> "restore", o |-> o] : o \in 1..Len(ops)}
  \cup (IF AllowAbsentWs THEN {[t |-> "forget", w |-> u] : u \in WS \ {w}} ELSE {})

Touches(m) == IF m.t \in {"edit", "rewrite", "abandon"} THEN {m.x} ELSE {}
Exempt(m) == m.t = "restore"     \* restoring an operation's view is outside C42

(* result of a mutation: [store, view]  (w = the workspace running it) *)
Apply(v, w, m) ==
  IF m.t = "new" THEN
    LET c == Len(cm) + 1
        st == Append(cm, [par |-> <<m.x>>, tree |-> TreeOf(m.x)])
    IN [store |-> st, view |-> [v EXCEPT !.wc[w] = c, !.heads = HeadsOf(st, v.heads \cup {c})]]
  ELSE IF m.t = "edit" THEN [store |-> cm, view |-> [v EXCEPT !.wc[w] = m.x]]
  ELSE IF m.t = "rewrite" THEN
    LET D == DescOf(Par, {m.x}) \cap Visible(v)
        mp == [d \in D |-> Len(cm) + Rank(d, D)]
        st == RewriteStore(m.x, m.tree, D, mp)
    IN [store |-> st,
        view |-> [wc |-> [u \in WS |-> MapC(mp, v.wc[u])],
                  heads |-> HeadsOf(st, {MapC(mp, h) : h \in v.heads}),
                  imm |-> {MapC(mp, h) : h \in v.imm}]]
  ELSE IF m.t = "abandon" THEN
    (* descendants are rebased onto x's parent; a workspace editing x gets a fresh child of the parent *)
    LET p == cm[m.x].par[1]
        D == (DescOf(Par, {m.x}) \cap Visible(v)) \ {m.x}
        mp0 == [d \in D |-> Len(cm) + Rank(d, D)]
        mp == [d \in D \cup {m.x} |-> IF d = m.x THEN p ELSE mp0[d]]
        st0 == [c \in 1..(Len(cm) + Cardinality(D)) |->
                  IF c <= Len(cm) THEN cm[c]
                  ELSE LET d == CHOOSE e \in D : mp0[e] = c
                       IN [par |-> MapSeq(mp, cm[d].par), tree |-> cm[d].tree]]
        needChild == \E u \in WS : v.wc[u] = m.x
        st == IF needChild THEN Append(st0, [par |-> <<p>>, tree |-> TreeOf(p)]) ELSE st0
        child == Len(st0) + 1
    IN [store |-> st,
        view |-> [wc |-> [u \in WS |-> IF v.wc[u] = m.x THEN child ELSE MapC(mp, v.wc[u])],
                  heads |-> HeadsOf(st, {MapC(mp, h) : h \in v.heads} \cup (IF needChild THEN {child} ELSE {})),
                  imm |-> {MapC(mp, h) : h \in v.imm}]]
  ELSE IF m.t = "setimm" THEN [store |-> cm, view |-> [v EXCEPT !.imm = m.s]]
  ELSE IF m.t = "restore" THEN [store |-> cm, view |-> ops[m.o].view]
  ELSE [store |-> cm, view |-> [v EXCEPT !.wc[m.w] = 0]]

(* 3-way merge of views when several operation heads exist (simplified merge_view) *)
Merge3(b, x, y) == IF x = b THEN y ELSE x
MergeViews(b, x, y) ==
  [wc |-> [u \in WS |-> Merge3(b.wc[u], x.wc[u], y.wc[u])],
   heads |-> Heads(Par, (x.heads \cup y.heads)
                        \ ((Visible(b) \ Visible(x)) \cup (Visible(b) \ Visible(y)))) ,
   imm |-> Merge3(b.imm, x.imm, y.imm)]

(* ---------------------------------------------------------------------- *)
Root == [par |-> <<>>, tree |-> 0]
NoView == [wc |-> [u \in WS |-> 0], heads |-> {1}, imm |-> {}]
IdleP == [Idle EXCEPT !.view = NoView, !.base = NoView]
(* initial history: root 1 <- base commit 2 <- one empty working-copy commit per workspace *)
InitWc == CHOOSE g \in [WS -> 3..(2 + Cardinality(WS))] : \A u, v \in WS : u # v => g[u] # g[v]

Init ==
  /\ cm = <<Root, [par |-> <<1>>, tree |-> 0]>> \o [i \in 1..Cardinality(WS) |-> [par |-> <<2>>, tree |-> 0]]
  /\ ops = <<[parents |-> {}, snap |-> FALSE,
              view |-> [wc |-> InitWc, heads |-> {InitWc[u] : u \in WS}, imm |-> {}]]>>
  /\ opHeads = {1}
  /\ wcs = [u \in WS |-> [op |-> 1, tree |-> 0]]
  /\ disk = [u \in WS |-> 0]
  /\ lock = [u \in WS |-> FALSE]
  /\ pr = [u \in WS |-> IdleP]
  /\ diskSeen = [u \in WS |-> 0]
  /\ immSeen = [u \in WS |-> [set |-> {}, exempt |-> TRUE]]
  /\ atopSeen = [u \in WS |-> [wcs |-> [op |-> 1, tree |-> 0], disk |-> 0]]
  /\ ncmd = 0

Finish(w) ==
  /\ pr' = [pr EXCEPT ![w] = IdleP]
  /\ immSeen' = [immSeen EXCEPT ![w].exempt = TRUE]

(* the user edits files; only between commands of that workspace *)
UserEdit(w, t) ==
  /\ pr[w].pc = "idle" /\ disk[w] # t
  /\ disk' = [disk EXCEPT ![w] = t]
  /\ diskSeen' = [diskSeen EXCEPT ![w] = t]
  /\ UNCHANGED <<cm, ops, opHeads, wcs, lock, pr, immSeen, atopSeen, ncmd>>

(* kind: "mut" mutating command, "ro" read-only command (status, log), "us" workspace update-stale *)
Start(w, kind, atop) ==
  /\ pr[w].pc = "idle" /\ ncmd < MaxCmds
  /\ pr' = [pr EXCEPT ![w] = [IdleP EXCEPT !.pc = "load", !.kind = kind, !.atop = atop]]
  /\ diskSeen' = [diskSeen EXCEPT ![w] = disk[w]]
  /\ atopSeen' = [atopSeen EXCEPT ![w] = [wcs |-> wcs[w], disk |-> disk[w]]]
  /\ ncmd' = ncmd + 1
  /\ UNCHANGED <<cm, ops, opHeads, wcs, disk, lock, immSeen>>

(* several operation heads: merge two of them (under the op-heads lock, so atomic) *)
MergeHeads(w) ==
  /\ pr[w].pc \in {"load", "us_reload"} /\ ~pr[w].atop
  /\ Cardinality(opHeads) >= 2
  /\ \E x, y \in opHeads :
       /\ x < y
       /\ LET common == OpAnc({x}) \cap OpAnc({y})
              b == CHOOSE c \in common : \A d \in common : d \in OpAnc({c})
              n == Len(ops) + 1
          IN /\ ops' = Append(ops, [parents |-> {x, y}, snap |-> FALSE,
                                    view |-> MergeViews(ops[b].view, ops[x].view, ops[y].view)])
             /\ opHeads' = (opHeads \ {x, y}) \cup {n}
  /\ UNCHANGED <<cm, wcs, disk, lock, pr, diskSeen, immSeen, atopSeen, ncmd>>

SeeImmutable(w, v) ==
  immSeen' = [immSeen EXCEPT ![w] = [set |-> ImmutableSet(v) \cap Visible(v), exempt |-> FALSE]]

Load(w) ==
  /\ pr[w].pc = "load"
  /\ IF pr[w].atop THEN
       \E o \in 1..Len(ops) :
         /\ pr' = [pr EXCEPT ![w].rop = o, ![w].view = ops[o].view, ![w].base = ops[o].view,
                             ![w].pc = IF Bug = "atop_snapshots" THEN "lock" ELSE "mutate"]
         /\ SeeImmutable(w, ops[o].view)
     ELSE IF pr[w].kind = "us" THEN
       /\ pr' = [pr EXCEPT ![w].rop = wcs[w].op, ![w].view = ops[wcs[w].op].view,
                           ![w].base = ops[wcs[w].op].view, ![w].pc = "lock"]
       /\ SeeImmutable(w, ops[wcs[w].op].view)
     ELSE
       /\ Cardinality(opHeads) = 1
       /\ LET h == CHOOSE o \in opHeads : TRUE IN
            /\ pr' = [pr EXCEPT ![w].rop = h, ![w].view = ops[h].view, ![w].base = ops[h].view, ![w].pc = "lock"]
            /\ SeeImmutable(w, ops[h].view)
  /\ UNCHANGED <<cm, ops, opHeads, wcs, disk, lock, diskSeen, atopSeen, ncmd>>

LockWc(w) ==
  /\ pr[w].pc = "lock" /\ ~lock[w]
  /\ lock' = [lock EXCEPT ![w] = TRUE]
  /\ pr' = [pr EXCEPT ![w].pc = "stale"]
  /\ UNCHANGED <<cm, ops, opHeads, wcs, disk, diskSeen, immSeen, atopSeen, ncmd>>

(* WorkingCopyFreshness::check_stale *)
Freshness(w, rop, wcCommit) ==
  IF wcs[w].op = rop THEN "Fresh"
  ELSE IF rop \in OpAnc({wcs[w].op}) THEN "Updated"
  ELSE IF wcs[w].op \in OpAnc({rop})
       THEN IF wcs[w].tree = TreeOf(wcCommit) THEN "Fresh" ELSE "Stale"
  ELSE "Sibling"

CheckStale(w) ==
  /\ pr[w].pc = "stale"
  /\ LET c == pr[w].view.wc[w] IN
     IF c = 0 THEN            \* the workspace is not in the view: nothing to snapshot
       /\ lock' = [lock EXCEPT ![w] = FALSE]
       /\ IF pr[w].kind = "us" THEN Finish(w)
          ELSE pr' = [pr EXCEPT ![w].pc = "mutate"] /\ UNCHANGED immSeen
     ELSE
       LET f == Freshness(w, pr[w].rop, c) IN
       IF f = "Fresh" THEN pr' = [pr EXCEPT ![w].pc = "snapshot"] /\ UNCHANGED <<lock, immSeen>>
       ELSE IF f = "Updated" THEN
         LET o == wcs[w].op IN
         /\ pr' = [pr EXCEPT ![w].rop = o, ![w].view = ops[o].view, ![w].base = ops[o].view,
                             ![w].pc = IF ops[o].view.wc[w] = 0 THEN "mutate" ELSE "snapshot"]
         /\ lock' = [lock EXCEPT ![w] = (ops[o].view.wc[w] # 0)]
         /\ UNCHANGED immSeen
       ELSE                    \* Stale / Sibling: the command fails, nothing is touched
         /\ lock' = [lock EXCEPT ![w] = FALSE]
         /\ Finish(w)
  /\ UNCHANGED <<cm, ops, opHeads, wcs, disk, diskSeen, atopSeen, ncmd>>

Snapshot(w) ==
  /\ pr[w].pc = "snapshot"
  /\ pr' = [pr EXCEPT ![w].pc = "snapcommit",
                      ![w].newTree = IF Bug = "no_snapshot" /\ pr[w].kind = "mut"
                                     THEN TreeOf(pr[w].view.wc[w]) ELSE disk[w]]
  /\ UNCHANGED <<cm, ops, opHeads, wcs, disk, lock, diskSeen, immSeen, atopSeen, ncmd>>

(* snapshot_working_copy: commit the snapshot operation (rewrite, or a new child of an  *)
(* immutable commit), publish it, then save the working-copy state (FinishWc) *)
CommitSnapshotOp(w) ==
  /\ pr[w].pc = "snapcommit"
  /\ LET v == pr[w].view
         c == v.wc[w]
         nt == pr[w].newTree
         next == IF pr[w].kind = "us" THEN "us_reload" ELSE "mutate"
     IN
     IF nt = TreeOf(c) THEN
       /\ wcs' = [wcs EXCEPT ![w] = [op |-> pr[w].rop, tree |-> nt]]
       /\ pr' = [pr EXCEPT ![w].pc = next, ![w].stale = c]
       /\ UNCHANGED <<cm, ops, opHeads>>
     ELSE
       LET immutable == c \in ImmutableSet(v) /\ Bug # "snap_amends_immutable"
           r == IF immutable
                THEN LET st == Append(cm, [par |-> <<c>>, tree |-> nt])
                     IN [store |-> st,
                         view |-> [v EXCEPT !.wc[w] = Len(st), !.heads = HeadsOf(st, v.heads \cup {Len(st)})]]
                ELSE Apply(v, w, [t |-> "rewrite", x |-> c, tree |-> nt])
           n == Len(ops) + 1
       IN /\ cm' = r.store
          /\ ops' = Append(ops, [parents |-> {pr[w].rop}, snap |-> TRUE, view |-> r.view])
          /\ opHeads' = (opHeads \ {pr[w].rop}) \cup {n}
          /\ wcs' = [wcs EXCEPT ![w] = [op |-> n, tree |-> nt]]
          /\ pr' = [pr EXCEPT ![w].pc = next, ![w].rop = n, ![w].view = r.view, ![w].base = r.view,
                              ![w].stale = r.view.wc[w], ![w].nsnap = 1]
  /\ lock' = [lock EXCEPT ![w] = FALSE]
  /\ UNCHANGED <<disk, diskSeen, immSeen, atopSeen, ncmd>>

RunMutation(w) ==
  /\ pr[w].pc = "mutate"
  /\ IF pr[w].kind # "mut" THEN Finish(w)
     ELSE \E m \in Mutations(pr[w].view, w) :
            /\ pr' = [pr EXCEPT ![w].m = m, ![w].pc = "check"]
            /\ immSeen' = [immSeen EXCEPT ![w].exempt = Exempt(m)]
  /\ UNCHANGED <<cm, ops, opHeads, wcs, disk, lock, diskSeen, atopSeen, ncmd>>

CheckRewritable(w) ==
  /\ pr[w].pc = "check"
  /\ IF \/ 1 \in Touches(pr[w].m)        \* the root commit can never be rewritten (lib-level check)
        \/ Bug # "no_check" /\ Touches(pr[w].m) \cap ImmutableSet(pr[w].view) # {}
     THEN Finish(w)
     ELSE pr' = [pr EXCEPT ![w].pc = "commit"] /\ UNCHANGED immSeen
  /\ UNCHANGED <<cm, ops, opHeads, wcs, disk, lock, diskSeen, atopSeen, ncmd>>

(* finish_transaction: a working-copy commit that became immutable gets a new child;   *)
(* the operation is written and published *)
CommitOp(w) ==
  /\ pr[w].pc = "commit"
  /\ LET v == pr[w].view
         r == Apply(v, w, pr[w].m)
     IN IF r.view = v THEN Finish(w) /\ UNCHANGED <<cm, ops, opHeads>>     \* "Nothing changed."
        ELSE
          LET c == r.view.wc[w]
              r2 == IF c # 0 /\ c \in ImmutableSetS(r.store, r.view)
                    THEN LET st == Append(r.store, [par |-> <<c>>, tree |-> r.store[c].tree])
                         IN [store |-> st,
                             view |-> [r.view EXCEPT !.wc[w] = Len(st),
                                                     !.heads = HeadsOf(st, r.view.heads \cup {Len(st)})]]
                    ELSE r
              n == Len(ops) + 1
          IN /\ cm' = r2.store
             /\ ops' = Append(ops, [parents |-> {pr[w].rop}, snap |-> FALSE, view |-> r2.view])
             /\ opHeads' = (opHeads \ {pr[w].rop}) \cup {n}
             /\ pr' = [pr EXCEPT ![w].pc = "update", ![w].rop = n, ![w].base = v, ![w].view = r2.view]
             /\ UNCHANGED immSeen
  /\ UNCHANGED <<wcs, disk, lock, diskSeen, atopSeen, ncmd>>

(* update_working_copy / Workspace::check_out *)
UpdateWc(w) ==
  /\ pr[w].pc = "update" /\ ~lock[w]
  /\ LET newC == pr[w].view.wc[w]
         oldC == pr[w].base.wc[w]
     IN IF (pr[w].atop /\ Bug # "atop_snapshots") \/ newC = 0 THEN UNCHANGED <<wcs, disk>>
        ELSE IF oldC # 0 /\ TreeOf(oldC) # wcs[w].tree THEN UNCHANGED <<wcs, disk>>   \* ConcurrentCheckout
        ELSE /\ disk' = [disk EXCEPT ![w] = TreeOf(newC)]
             /\ wcs' = [wcs EXCEPT ![w] = [op |-> pr[w].rop, tree |-> TreeOf(newC)]]
  /\ Finish(w)
  /\ UNCHANGED <<cm, ops, opHeads, lock, diskSeen, atopSeen, ncmd>>

(* workspace update-stale, second half: reload at the head, check out if stale *)
UsReload(w) ==
  /\ pr[w].pc = "us_reload" /\ ~lock[w]
  /\ Cardinality(opHeads) = 1
  /\ LET h == CHOOSE o \in opHeads : TRUE
         desired == ops[h].view.wc[w]
     IN IF desired = 0 THEN UNCHANGED <<wcs, disk>>
        ELSE LET f == Freshness(w, h, desired) IN
             IF f \in {"Fresh", "Updated"} THEN UNCHANGED <<wcs, disk>>
             ELSE IF TreeOf(pr[w].stale) # wcs[w].tree THEN UNCHANGED <<wcs, disk>>
             ELSE /\ disk' = [disk EXCEPT ![w] = TreeOf(desired)]
                  /\ wcs' = [wcs EXCEPT ![w] = [op |-> h, tree |-> TreeOf(desired)]]
  /\ Finish(w)
  /\ UNCHANGED <<cm, ops, opHeads, lock, diskSeen, atopSeen, ncmd>>

Next ==
  \E w \in WS :
    \/ \E t \in Trees0 : UserEdit(w, t)
    \/ \E k \in Kinds \cap {"mut", "ro", "us"} : Start(w, k, FALSE)
    \/ ("atop" \in Kinds /\ Start(w, "mut", TRUE))
    \/ MergeHeads(w) \/ Load(w) \/ LockWc(w) \/ CheckStale(w) \/ Snapshot(w) \/ CommitSnapshotOp(w)
    \/ RunMutation(w) \/ CheckRewritable(w) \/ CommitOp(w) \/ UpdateWc(w) \/ UsReload(w)

Spec == Init /\ [][Next]_vars

(* ---------------------------------------------------------------------- *)
(* invariants                                                             *)
InvNoLoss == \A w \in WS : NoLossOK(diskSeen[w], disk[w], Recorded(w))
InvAtOp == \A w \in WS : (pr[w].pc # "idle" /\ pr[w].atop) =>
              AtOpOK(atopSeen[w].wcs, wcs[w], atopSeen[w].disk, disk[w], pr[w].nsnap)
InvImmutable == \A w \in WS : ~immSeen[w].exempt => ImmutableKeptOK(immSeen[w].set, Visible(pr[w].view))
InvOpsReachable == OpAnc(opHeads) = 1..Len(ops)
(* the working-copy state file always names an existing operation in which the workspace exists or existed *)
InvWcState == \A w \in WS : wcs[w].op \in 1..Len(ops)
=============================================================================
