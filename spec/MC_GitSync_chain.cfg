SPECIFICATION Spec
CONSTANTS
  NB = 1
  Par <- MC_Par4
  GitOnly = {4}
  MaxSteps = 0
  MaxTerms = 5
  Emit = "none"
  Bug = "none"
CONSTRAINT Small
VIEW View
INVARIANTS TypeOK InvStep InvConverge InvIdem InvRecordsAgree InvConflictSmall InvBookmarksKnown
CHECK_DEADLOCK FALSE
