SPECIFICATION Spec
CONSTANTS
  Paths <- StdPaths
  PathOrder <- StdPathOrder
  IgnoreVocab <- StdIgnoreVocab
  Bug = "co-labels-file-only"
  MaxSteps = 4
  MaxEditRun = 3
  Acts = {"CheckOut", "Snapshot", "SetSparse"}
  EditPaths <- AllEditPaths
  Contents = {1, 2}
  SymTargets = {"out"}
  RootIgnore = {}
  DirIgnore = {}
  TreeIds = {1, 14, 15, 16, 17}
  SparseIds = {1, 2, 4}
  XP = "respect"
  Strict = "none"
  Emit = FALSE
INVARIANTS Inv_C24
VIEW View
CHECK_DEADLOCK FALSE
