SPECIFICATION Spec
CONSTANTS
  MaxRuns = 4
  TextLens = {1, 2, 8190, 8191, 8192, 8193}
  OtherLens = {1, 2}
  Bug = "no-cr-at-limit"
INVARIANTS InvRoundTrip
CHECK_DEADLOCK FALSE
