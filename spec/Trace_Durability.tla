--------------------------- MODULE Trace_Durability ---------------------------
(* Binding for C15.  A case is one jj command run on a prepared repository:  *)
(*  - "reset": the operations known after an uninterrupted run (id, parents), *)
(*    the heads at the start;                                                *)
(*  - "eff": the durable effects in the order the real code performed them   *)
(*    (from the verif_hooks points, JJ_VERIF_TRACE) - validated against the  *)
(*    guarded actions of Durability (I->S: ordering conformance) with the    *)
(*    crash invariants evaluated after every effect;                         *)
(*  - "crash": what was observed after really killing the command just       *)
(*    before effect i (JJ_VERIF_CRASH_AT=i) and loading the repository with  *)
(*    a fresh process - compared with what the model state at that prefix    *)
(*    allows (S->I: the kill points are the model's states).                 *)
EXTENDS Durability, Json, IOUtils, TLC

Rec == ndJsonDeserialize(IOEnv.TRACE)
VARIABLES l, ok
tvars == <<vars, l, ok>>
ToSet(s) == {s[i] : i \in 1..Len(s)}

Eff(e) ==
  \/ e.e = "view" /\ PersistView(e.id)
  \/ e.e = "op" /\ PersistOp(e.id)
  \/ e.e \in {"other", "noop"} /\ PersistOther
  \/ e.e = "headadd" /\ HeadAdd(e.id)
  \/ e.e = "headrm" /\ HeadRemove(e.id)
  \/ e.e = "wctouch" /\ WcTouch
  \/ e.e = "treestate" /\ SaveTreeState
  \/ e.e = "checkout" /\ SaveCheckout

FirstBroken ==
  IF ~Loadable THEN "Loadable" ELSE IF ~NoCommittedOpLost THEN "NoCommittedOpLost"
  ELSE IF ~BeforeOrAfter THEN "BeforeOrAfter" ELSE "ok"

(* what a real kill in the current model state may leave behind *)
CrashVerdict(c) ==
  IF ~c.oplog_ok THEN "RepoNotLoadable"
  ELSE IF c.torn > 0 THEN "TornObject"
  ELSE IF c.head \notin HeadsOf(heads) THEN "StateNotBeforeOrAfter"
  ELSE IF c.wc = "error" THEN "WorkingCopyUnusable"
  ELSE IF c.wc = "stale" /\ ~wcStaleOk THEN "UnexpectedStaleWorkingCopy"
  \* files half-written and tree_state still the old one: jj must notice (stale).  Once
  \* tree_state is saved, files and recorded tree agree with the target commit and jj
  \* legitimately treats the working copy as fresh even though `checkout` lags.
  ELSE IF c.wc = "fresh" /\ wcPhase = "updating" THEN "PartialUpdateNotDetected"
  ELSE IF ~c.recovered THEN "RecoveryFailed"
  ELSE IF c.lost > 0 THEN "FilesLost"
  ELSE "ok"

TInit == /\ par = <<>> /\ viewOf = <<>> /\ objs = {} /\ views = {} /\ heads = {} /\ startHeads = {} /\ written = {}
         /\ wcPhase = "clean" /\ wcStaleOk = FALSE /\ l = 1 /\ ok = FALSE

Reset ==
  /\ l <= Len(Rec) /\ Rec[l].a = "reset"
  /\ LET r == Rec[l] IN
       /\ par' = [o \in {r.ops[i][1] : i \in 1..Len(r.ops)} |->
                    ToSet((CHOOSE p \in ToSet(r.ops) : p[1] = o)[2])]
       /\ viewOf' = [o \in {r.viewof[i][1] : i \in 1..Len(r.viewof)} |->
                       (CHOOSE p \in ToSet(r.viewof) : p[1] = o)[2]]
       /\ views' = ToSet(r.existing_views)
       /\ objs' = ToSet(r.existing) /\ heads' = ToSet(r.start) /\ startHeads' = ToSet(r.start)
  /\ written' = {} /\ wcPhase' = "clean" /\ wcStaleOk' = FALSE
  /\ ok' = TRUE /\ l' = l + 1

Effect ==
  /\ ok /\ l <= Len(Rec) /\ Rec[l].a = "eff"
  /\ Eff(Rec[l])
  /\ (IF FirstBroken' = "ok" THEN TRUE ELSE PrintT(<<"BAD", l, FirstBroken'>>))
  /\ l' = l + 1 /\ UNCHANGED ok

OrderViolated ==
  /\ ok /\ l <= Len(Rec) /\ Rec[l].a = "eff"
  /\ ~ENABLED Eff(Rec[l])
  /\ PrintT(<<"BAD", l, "EffectOrder">>)
  /\ ok' = FALSE /\ l' = l + 1 /\ UNCHANGED vars

Crash ==
  /\ ok /\ l <= Len(Rec) /\ Rec[l].a = "crash"
  /\ LET v == CrashVerdict(Rec[l]) IN (IF v = "ok" THEN TRUE ELSE PrintT(<<"BAD", l, v>>))
  /\ l' = l + 1 /\ UNCHANGED <<vars, ok>>

Skip == /\ l <= Len(Rec) /\ (~ok /\ Rec[l].a # "reset")
        /\ l' = l + 1 /\ UNCHANGED <<vars, ok>>

Finish == /\ l = Len(Rec) + 1 /\ PrintT(<<"JUDGED", Len(Rec)>>)
          /\ l' = l + 1 /\ UNCHANGED <<vars, ok>>

TNext == Reset \/ Effect \/ OrderViolated \/ Crash \/ Skip \/ Finish
TSpec == TInit /\ [][TNext]_tvars
=============================================================================
