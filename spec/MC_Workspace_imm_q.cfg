SPECIFICATION Spec
CONSTANTS
  WS = {"w1", "w2"}
  Trees = {1}
  MaxCmds = 2
  MaxCommits = 7
  MaxOps = 6
  Kinds = {"mut", "ro"}
  WithImm = TRUE
  AllowAbsentWs = FALSE
  Bug = "none"
CONSTRAINT Bound
INVARIANTS InvNoLoss InvAtOp InvImmutable InvOpsReachable InvWcState
CHECK_DEADLOCK FALSE
