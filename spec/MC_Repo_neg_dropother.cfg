SPECIFICATION SeededSpec
CONSTANTS
  MaxCommits = 8
  MaxOps = 4
  MaxActs = 2
  EmptyPolicies = {"keep", "all"}
  AllowFinding = FALSE
  Bug = "dropother"
INVARIANTS InvC10 InvC11 InvC13 InvC46 InvNoPanic
CHECK_DEADLOCK FALSE
