SPECIFICATION Spec
CONSTANTS
  Keys = {1, 2}
  Writers = {1, 2}
  PutSets <- PS_small
  MaxSaves = 3
  MaxGets = 4
  Bug = "rmmerged"
INVARIANTS HeadsNeverLost
VIEW View
CHECK_DEADLOCK FALSE
