SPECIFICATION Spec
CONSTANTS
  MaxConflicted = 1
  Bug = "noff"
INVARIANTS InvRefMerge InvFixpoint
CHECK_DEADLOCK FALSE
