SPECIFICATION Spec
CONSTANTS
  MaxClock = 2
  MaxSnaps = 1
  MaxCheckouts = 1
  MaxEdits = 2
  Variant = "lt"
  Restores = {}
  Emit = TRUE
INVARIANTS Inv_Seen EmitInv
CHECK_DEADLOCK FALSE
