---------------------------- MODULE MC_GitPush ----------------------------
(* Design-level check of GitPush and S->I behaviour generator (same scheme *)
(* as MC_GitSync: the transcription drives the machine, every transition   *)
(* is checked against the contracts inside the action).                    *)
EXTENDS GitPush, Json

CONSTANTS NB, Par, OtherOnly, MaxSteps, MaxTerms, Emit, Bug,
          FillChoices   \* many-refs dimension: set of [n |-> number of filler bookmarks, place |-> "after"|"before"]

(* fill: the filler bookmarks pushed together with the modelled ones.  They  *)
(* are always in sync with the remote and every Push moves all of them, so  *)
(* they never diverge and are not part of the state machine: a behaviour    *)
(* only carries how many there are and whether their names sort before the  *)
(* modelled bookmarks ("after": the modelled refs come after position n in  *)
(* the push) or after them.  The contracts are unchanged and are judged per *)
(* modelled bookmark.                                                       *)
VARIABLES st, okStep, okLost, unseen, n, hist, fill
vars == <<st, okStep, okLost, unseen, n, hist, fill>>
View == <<st, okStep, okLost, unseen, n, fill>>

MC_Par2 == <<<<>>, <<1>>>>
MC_Par3 == <<<<>>, <<1>>, <<1>>>>
MC_Chain3 == <<<<>>, <<1>>, <<2>>>>               \* 1 <- 2 <- 3: fast-forwards of an unseen position
MC_Fill0 == {[n |-> 0, place |-> "after"]}
MC_FillMany == {[n |-> 70, place |-> "after"], [n |-> 140, place |-> "after"],
                [n |-> 70, place |-> "before"], [n |-> 140, place |-> "before"]}
MC_Par4 == <<<<>>, <<1>>, <<2>>, <<1>>>>

Commits == DOMAIN Par
B == 1..NB
Sets == (SUBSET B) \ {{}}

(* seeded design bugs *)
BugPushF(s, S) ==
  IF Bug = "no_lease"                  \* plain force push
  THEN [s EXCEPT !.remote = [b \in B |-> IF b \in PushAsked(s, S) THEN New(s, b) ELSE s.remote[b]],
                 !.track  = [b \in B |-> IF b \in PushAsked(s, S) THEN New(s, b) ELSE s.track[b]]]
  ELSE IF Bug = "lease_on_new"         \* the lease expects the NEW value instead of the recorded one
  THEN LET ok == {b \in PushAsked(s, S) : s.remote[b] = New(s, b) \/ s.remote[b] = Absent} IN
       [s EXCEPT !.remote = [b \in B |-> IF b \in ok THEN New(s, b) ELSE s.remote[b]],
                 !.track  = [b \in B |-> IF b \in ok THEN New(s, b) ELSE s.track[b]]]
  ELSE IF Bug = "track_after_reject"   \* the remote-tracking bookmark is updated although the push was rejected
  THEN [PushF(s, S) EXCEPT !.track = [b \in B |-> IF b \in PushAsked(s, S) THEN New(s, b) ELSE s.track[b]]]
  ELSE PushF(s, S)
BugPushed(s, S) == IF Bug = "no_lease" THEN PushAsked(s, S)
                   ELSE IF Bug = "lease_on_new"
                   THEN {b \in PushAsked(s, S) : s.remote[b] = New(s, b) \/ s.remote[b] = Absent}
                   ELSE PushPushed(s, S)

Init ==
  /\ st = [ local |-> [b \in B |-> Normal(Absent)], track |-> [b \in B |-> Absent],
            remote |-> [b \in B |-> Absent], known |-> Commits \ OtherOnly ]
  /\ okStep = TRUE /\ okLost = TRUE
  /\ unseen = [b \in B |-> FALSE]
  /\ n = 0 /\ hist = <<>>
  /\ fill \in FillChoices

Post(s) == [local |-> s.local, track |-> s.track, remote |-> s.remote, known |-> s.known]
Behaviour(h) == [par |-> Par, otheronly |-> OtherOnly, nb |-> NB, fill |-> fill, steps |-> h]
Log(a, b, c, S) == hist' = Append(hist, [a |-> a, b |-> b, c |-> c, set |-> S, post |-> Post(st')])

User(a, b, c, new) ==
  /\ st' = new
  /\ okStep' = PFrameOK(st, st', a, b, c) /\ okLost' = TRUE
  /\ Log(a, b, c, {})

JjSet(b, c)    == c \in st.known /\ st.local[b] # Normal(c)
                  /\ User("JjSet", b, c, [st EXCEPT !.local[b] = Normal(c)]) /\ UNCHANGED unseen
JjDelete(b)    == st.local[b] # Normal(Absent)
                  /\ User("JjDelete", b, 0, [st EXCEPT !.local[b] = Normal(Absent)]) /\ UNCHANGED unseen
(* ghost: the other clone put something on the remote that jj has not fetched yet *)
OtherSet(b, c) == st.remote[b] # c /\ User("OtherSet", b, c, [st EXCEPT !.remote[b] = c])
                  /\ unseen' = [unseen EXCEPT ![b] = (c # st.track[b])]
OtherDelete(b) == st.remote[b] # Absent /\ User("OtherDelete", b, 0, [st EXCEPT !.remote[b] = Absent])
                  /\ unseen' = [unseen EXCEPT ![b] = (Absent # st.track[b])]

Fetch ==
  /\ st' = FetchF(Par, st)
  /\ okStep' = FetchOK(Par, st, st') /\ okLost' = TRUE
  /\ unseen' = [b \in B |-> FALSE]
  /\ Log("Fetch", 0, 0, {})

Push(S) ==
  /\ st' = BugPushF(st, S)
  /\ okStep' = PushOK(st, st', S, BugPushed(st, S), PushAsked(st, S) \ BugPushed(st, S), FALSE)
  (* the property in its own words: work of the other clone that jj has not seen is never replaced *)
  /\ okLost' = \A b \in B : unseen[b] => st'.remote[b] = st.remote[b]
  /\ unseen' = [b \in B |-> unseen[b] /\ st'.track[b] # st'.remote[b]]
  /\ Log("Push", 0, 0, S)
  (* generator for the many-refs dimension: pushes of a bookmark whose remote branch is not where jj recorded it *)
  /\ (Emit = "stale" /\ (\E b \in PushAsked(st, S) : st.remote[b] # st.track[b])
        => PrintT(<<"REPLAY", ToJson(Behaviour(hist'))>>))

Step ==
  \/ \E b \in B, c \in Commits : JjSet(b, c) \/ OtherSet(b, c)
  \/ \E b \in B : JjDelete(b) \/ OtherDelete(b)
  \/ Fetch
  \/ \E S \in Sets : Push(S)

Next ==
  /\ (MaxSteps = 0 \/ n < MaxSteps)
  /\ Step
  /\ n' = IF MaxSteps = 0 THEN 0 ELSE n + 1
  /\ UNCHANGED fill
  /\ (Emit = "all" => PrintT(<<"REPLAY", ToJson(Behaviour(hist'))>>))

Spec == Init /\ [][Next]_vars
Small == \A b \in B : Len(st.local[b]) <= MaxTerms

TypeOK ==
  /\ \A b \in B : /\ IsMerge(st.local[b])
                  /\ \A i \in 1..Len(st.local[b]) : st.local[b][i] \in Commits \cup {Absent}
                  /\ st.track[b] \in Commits \cup {Absent}
                  /\ st.remote[b] \in Commits \cup {Absent}
  /\ st.known \subseteq Commits
InvStep == okStep                 \* every transition meets its contract
InvNoLostUpdate == okLost         \* unseen remote work is never overwritten by a push
InvTrackKnown == \A b \in B : st.track[b] # Absent => st.track[b] \in st.known
EmitInv == (Emit = "done" /\ MaxSteps > 0 /\ n = MaxSteps) => PrintT(<<"REPLAY", ToJson(Behaviour(hist))>>)
=============================================================================
