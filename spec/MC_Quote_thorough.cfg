SPECIFICATION Spec
CONSTANTS
  MaxLen = 4
  MaxPair = 2
  Bug = "none"
  Emit = TRUE
INVARIANTS InvRoundTrip InvSymbol InvPair EmitInv
CHECK_DEADLOCK FALSE
