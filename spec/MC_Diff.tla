----------------------------- MODULE MC_Diff -----------------------------
(* Design-level check of the C03 contract (spec/Diff.tla).                 *)
(*  - DiffOK is satisfiable: the witness alignment PrefixSuffixDiff meets  *)
(*    it on every tuple of 1..MaxInputs texts over Alphabet up to MaxLen.  *)
(*  - the comparison lattice  exact => wsamount => allws  and the          *)
(*    concatenation lemma (token-wise equal => concatenations equal) that  *)
(*    makes compaction of adjacent matching tokens sound.                  *)
(*  - negative configs: seeded bad partitions must be rejected.            *)
(* The domain is grown by Next so that TLC's workers share it.             *)
EXTENDS Diff, TLC

CONSTANTS Alphabet, MaxLen, MaxInputs, Bug

VARIABLE inputs

Init == \E n \in 1..MaxInputs : inputs = [i \in 1..n |-> <<>>]
Next == \E i \in 1..Len(inputs), b \in Alphabet :
          /\ Len(inputs[i]) < MaxLen
          /\ \A j \in (i + 1)..Len(inputs) : inputs[j] = <<>>   \* canonical growth order
          /\ inputs' = [inputs EXCEPT ![i] = Append(@, b)]
Spec == Init /\ [][Next]_inputs

(* seeded design bugs *)
DropByte(hs) ==        \* the Different hunk starts one byte late in input 1
  [h \in 1..Len(hs) |->
     IF hs[h].k = Different /\ hs[h].r[1][1] < hs[h].r[1][2]
     THEN [hs[h] EXCEPT !.r[1] = <<hs[h].r[1][1] + 1, hs[h].r[1][2]>>] ELSE hs[h]]
TwoDiff(hs) ==         \* a Different hunk is emitted as two consecutive Different hunks
  IF \E h \in 1..Len(hs) : hs[h].k = Different /\ hs[h].r[1][2] - hs[h].r[1][1] >= 2
  THEN LET h == CHOOSE h \in 1..Len(hs) : hs[h].k = Different /\ hs[h].r[1][2] - hs[h].r[1][1] >= 2
           n == Len(hs[h].r)
           a == [hs[h] EXCEPT !.r = [i \in 1..n |-> IF i = 1 THEN <<hs[h].r[1][1], hs[h].r[1][1] + 1>>
                                                     ELSE <<hs[h].r[i][1], hs[h].r[i][1]>>]]
           b == [hs[h] EXCEPT !.r[1] = <<hs[h].r[1][1] + 1, hs[h].r[1][2]>>]
       IN SubSeq(hs, 1, h - 1) \o <<a, b>> \o SubSeq(hs, h + 1, Len(hs))
  ELSE hs
WsMatch(ins, hs) ==    \* whitespace-insensitive match reported under exact comparison
  IF Len(ins) >= 2 /\ (\E i \in 1..Len(ins) : Len(ins[i]) > 0)
     /\ \A i \in 2..Len(ins) : CmpEq("allws", ins[1], ins[i])
  THEN <<[k |-> Matching, r |-> [i \in 1..Len(ins) |-> <<0, Len(ins[i])>>]]>>
  ELSE hs
EmptyHunk(ins, hs) ==  \* an all-empty Matching hunk at the start
  IF Len(hs) > 0 /\ hs[1].k = Different
  THEN <<[k |-> Matching, r |-> [i \in 1..Len(ins) |-> <<0, 0>>]]>> \o hs ELSE hs

TheDiff(ins) ==
  LET d == PrefixSuffixDiff(ins) IN
  IF Bug = "dropbyte" THEN DropByte(d)
  ELSE IF Bug = "twodiff" THEN TwoDiff(d)
  ELSE IF Bug = "wsmatch" THEN WsMatch(ins, d)
  ELSE IF Bug = "emptyhunk" THEN EmptyHunk(ins, d)
  ELSE d

InvCovers   == Covers(inputs, TheDiff(inputs)) /\ WellShaped(inputs, TheDiff(inputs))
InvMatching == MatchingEqual(inputs, "exact", TheDiff(inputs))
InvNonEmpty == NoEmptyHunk(inputs, TheDiff(inputs))
InvAlternate == Alternates(TheDiff(inputs))
InvReconstruct ==
  LET d == TheDiff(inputs)
      c == [h \in 1..Len(d) |-> [k |-> d[h].k, c |-> HunkSlices(inputs, d[h])]]
  IN Covers(inputs, d) => Reconstructs(inputs, c)

(* facts about the comparisons the real algorithm relies on *)
InvCmp ==
  Len(inputs) >= 2 =>
    LET a == inputs[1]  b == inputs[2] IN
      /\ CmpEq("exact", a, b) => CmpEq("wsamount", a, b)
      /\ CmpEq("wsamount", a, b) => CmpEq("allws", a, b)
      /\ \A c \in Comparisons :
           /\ CmpEq(c, a, a)
           /\ CmpEq(c, a, b) = CmpEq(c, b, a)
           \* token-wise equal => concatenation equal (compaction is sound)
           /\ \A i \in 0..Len(a), j \in 0..Len(b) :
                (CmpEq(c, SubSeq(a, 1, i), SubSeq(b, 1, j))
                 /\ CmpEq(c, SubSeq(a, i + 1, Len(a)), SubSeq(b, j + 1, Len(b))))
                => CmpEq(c, a, b)
=============================================================================
