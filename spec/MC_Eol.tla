------------------------------- MODULE MC_Eol -------------------------------
(* Design-level check for C29: the reference transcription of eol.rs meets  *)
(* the contracts on every content of up to MaxRuns runs with run lengths    *)
(* around the 8 KiB probe limit.  The domain is grown by Next.              *)
EXTENDS Eol, TLC

CONSTANTS MaxRuns, TextLens, OtherLens, Bug

VARIABLE c      \* a content in normal form

Lens(cls) == IF cls = T THEN TextLens ELSE OtherLens

Init == c = <<>>
Next == /\ Len(c) < MaxRuns
        /\ \E cls \in {T, CR, LF, NUL} : \E n \in Lens(cls) :
             /\ (IF c = <<>> THEN TRUE ELSE c[Len(c)].c # cls)
             /\ c' = Append(c, Run(cls, n))
Spec == Init /\ [][Next]_c

(* seeded design bugs (negative configs) *)
ProbeNoLimitRule(s) == IsBinary(Take(s, P))
TheProbeBinary(s) == IF Bug = "no-cr-at-limit" THEN ProbeNoLimitRule(s) ELSE ProbeBinary(s)
Update(mode, s) ==
  IF Bug = "crlf-on-binary"
  THEN (IF mode = "input-output" THEN ToCrlf(s) ELSE s)
  ELSE IF mode = "input-output" /\ ~TheProbeBinary(s) THEN ToCrlf(s) ELSE s
Snapshot(mode, s) ==
  IF mode \in {"input", "input-output"} /\ ~TheProbeBinary(s) THEN ToLf(s) ELSE s

InvNormal == IsNormal(c) /\ IsNormal(ToLf(c)) /\ IsNormal(ToCrlf(c))
InvUpdate == \A m \in Modes : UpdateOK(m, c, Update(m, c))
InvSnapshot == \A m \in Modes : SnapshotOK(m, c, Snapshot(m, c))
InvRoundTrip == \A m \in Modes : RoundTripOK(m, c, Snapshot(m, Update(m, c)))
(* LF->CRLF expansion never turns a text file into one that probes binary  *)
InvNoMisclass == (~ProbeBinary(c) /\ ~HasCRLF(c)) => ~TheProbeBinary(ToCrlf(c))
(* the conversions are inverse on LF-normalised text and idempotent *)
InvAlgebra == /\ ~LoneCR(c) => ToLf(ToLf(c)) = ToLf(c)   \* ("CR CR LF" loses one CR per pass)
              /\ ToCrlf(ToCrlf(c)) = ToCrlf(c)
              /\ ~HasCRLF(c) => ToLf(ToCrlf(c)) = c
              /\ Total(ToLf(c)) <= Total(c) /\ Total(ToCrlf(c)) >= Total(c)
=============================================================================
