SPECIFICATION Spec
CONSTANTS
  Paths = {"a", "b"}
  Contents = {2}
  MaxChange = 2
  Bug = "none"
  Emit = FALSE
  Directed = FALSE
  Shapes <- ShapesDeep
INVARIANTS InvLaws
CHECK_DEADLOCK FALSE
