SPECIFICATION Spec
CONSTANTS
  Paths <- StdPaths
  PathOrder <- StdPathOrder
  IgnoreVocab <- StdIgnoreVocab
  Bug = "co-follow-symlink"
  MaxSteps = 4
  MaxEditRun = 2
  Acts = {"Write", "Symlink", "FileToDir", "DirToFile", "CheckOut"}
  EditPaths <- AllEditPaths
  Contents = {2}
  SymTargets = {"out"}
  RootIgnore = {}
  DirIgnore = {}
  TreeIds = {1, 3, 4, 5, 6}
  SparseIds = {}
  XP = "respect"
  Strict = "none"
  Emit = FALSE
INVARIANTS Inv_C25
VIEW View
CHECK_DEADLOCK FALSE
