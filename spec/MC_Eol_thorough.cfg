SPECIFICATION Spec
CONSTANTS
  MaxRuns = 5
  TextLens = {1, 2, 3, 8189, 8190, 8191, 8192, 8193}
  OtherLens = {1, 2}
  Bug = "none"
INVARIANTS InvNormal InvUpdate InvSnapshot InvRoundTrip InvNoMisclass InvAlgebra
CHECK_DEADLOCK FALSE
