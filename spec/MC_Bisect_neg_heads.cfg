SPECIFICATION Spec
CONSTANTS
  MaxNodes = 3
  Shape = "any"
  SubRanges = FALSE
  WithSkips = FALSE
  Engine = "any"
  ExcludeFinding = TRUE
  Bug = "heads"
  Emit = FALSE
INVARIANTS InvNoRepeat InvVerdict InvProgress EmitInv
CHECK_DEADLOCK FALSE
