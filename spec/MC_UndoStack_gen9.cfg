SPECIFICATION Spec
CONSTANTS
  MaxLen = 9
  InitOps = 3
  WithRestore = FALSE
  Bug = "none"
  Emit = TRUE
INVARIANTS EmitInv
CHECK_DEADLOCK FALSE
