SPECIFICATION Spec
CONSTANTS
  MaxLen = 4
  InitOps = 3
  WithRestore = TRUE
  Bug = "none"
  Emit = FALSE
INVARIANTS InvRefines InvStackInLog InvUndoRedoInverse InvAdjacentDiffer
CHECK_DEADLOCK FALSE
