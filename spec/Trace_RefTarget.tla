-------------------------- MODULE Trace_RefTarget --------------------------
(* I->S binding for C12: every record is one call of the real              *)
(* merge_ref_targets on real commits (jjconf repo refmerge); TLC judges it *)
(* against RefMergeOK.  par arrives as a tuple of parent tuples.           *)
EXTENDS RefTarget, Json, IOUtils, TLC

Rec == ndJsonDeserialize(IOEnv.TRACE)

VARIABLE l

Verdict(r) ==
  IF r.op = "refmerge" THEN
       IF ~(TopoNumbered(r.par) /\ IsTarget(r.par, r.l) /\ IsTarget(r.par, r.b) /\ IsTarget(r.par, r.r))
       THEN "harness:bad-input"
       ELSE RefMergeVerdict(r.par, r.l, r.b, r.r, r.out)
  ELSE IF r.op = "panic" THEN "Panic"
  ELSE IF r.op = "domain" THEN "ok"
  ELSE "harness:unknown-op"

Diverges(r) ==
  IF r.op = "refmerge" THEN r.out # MergeRefTargets(r.par, r.l, r.b, r.r) ELSE FALSE

Init == l = 1
Next ==
  \/ /\ l <= Len(Rec)
     /\ LET v == Verdict(Rec[l]) IN
          /\ (IF v = "ok" THEN TRUE ELSE PrintT(<<"BAD", l, v>>))
          /\ (IF Diverges(Rec[l]) THEN PrintT(<<"DIVERGES", l>>) ELSE TRUE)
     /\ l' = l + 1
  \/ /\ l = Len(Rec) + 1
     /\ PrintT(<<"JUDGED", Len(Rec)>>)
     /\ l' = l + 1
Spec == Init /\ [][Next]_l
=============================================================================
