---------------------------- MODULE MC_IdPrefix ----------------------------
(* C20 design level: over every set of at most MaxIds ids of IdLen digits   *)
(* from Digits (grown id by id; each new id optionally joins the            *)
(* disambiguation set), the transcribed neighbour rule of composite.rs and  *)
(* the two-level rule of id_prefix.rs meet the contracts, for ids in the    *)
(* set and for ids that are absent, with every set of 1-2 digit ref names.  *)
EXTENDS IdPrefix, TLC

CONSTANTS Digits, IdLen, MaxIds, Bug

VARIABLES S, D
vars == <<S, D>>

Universe == [1..IdLen -> Digits]
Slack == IF Bug = "one_short" THEN 1 ELSE 0

Init == S = {} /\ D = {}
Next ==
  /\ Cardinality(S) < MaxIds
  /\ \E id \in Universe \ S :
       /\ S' = S \cup {id}
       /\ D' \in {D, D \cup {id}}
Spec == Init /\ [][Next]_vars

InvShortest == \A id \in S : ShortestOK(id, NeighbourLen(id, S, Slack), S)
InvShortestAbsent == \A id \in Universe \ S : S # {} => ShortestAbsentOK(id, NeighbourLen(id, S, Slack), S)
RefSets == {{}} \cup {{p} : p \in UNION {[1..k -> Digits] : k \in 1..2}}
InvTwoLevel ==
  \A hasD \in BOOLEAN : \A id \in S : \A R \in RefSets :
     Cardinality(S) >= 2 =>
       LET n == TwoLevelLen(id, hasD, D, S, Slack)
       IN ShortestUsableOK(id, Lengthen(id, IF n < 1 THEN 1 ELSE n, R), hasD, D, S, R)
=============================================================================
